(* C15: soundness of the profile well-formedness checker: from one computation
   of [profile_wf] on the tables extracted from the current source to the
   forall (message, field) statements of the property. *)
From Coq Require Import NArith ZArith List Bool String Lia.
From FitV Require Import Model.Values Model.Base Model.Profile Spec.ProfileWf
  Gen.ProfileData Gen.RoutingData Gen.Consts Gen.BaseTables.
Import ListNotations.
Local Open Scope N_scope.

Lemma profile_wf_true : profile_wf = true.
Proof. vm_compute. reflexivity. Qed.

Lemma gotype_eqb_eq : forall a b, gotype_eqb a b = true -> a = b.
Proof.
  induction a; destruct b; simpl; intros H; try discriminate; try reflexivity;
    try (apply N.eqb_eq in H; subst; reflexivity).
  f_equal. now apply IHa.
Qed.

Lemma list_eq_dec_true (x y : list N) : (if list_eq_dec N.eq_dec x y then true else false) = true -> x = y.
Proof. destruct (list_eq_dec N.eq_dec x y); [auto|discriminate]. Qed.

Lemma goval_eqb_eq : forall a b, goval_eqb a b = true -> a = b.
Proof.
  fix IH 1. intros a b; destruct a; destruct b; simpl; intros H; try discriminate; try reflexivity.
  - apply N.eqb_eq in H; subst; reflexivity.
  - apply Z.eqb_eq in H; subst; reflexivity.
  - apply N.eqb_eq in H; subst; reflexivity.
  - apply list_eq_dec_true in H; subst; reflexivity.
  - apply andb_prop in H; destruct H as [H H3]. apply andb_prop in H; destruct H as [H1 H2].
    apply Z.eqb_eq in H1. apply N.eqb_eq in H2. subst.
    destruct zone, zone0; try discriminate; [apply Z.eqb_eq in H3; subst|]; reflexivity.
  - apply Z.eqb_eq in H; subst; reflexivity.
  - apply Z.eqb_eq in H; subst; reflexivity.
  - f_equal. revert l0 H. induction l as [|x l IHl]; intros [|y l0] H; try discriminate; [reflexivity|].
    apply andb_prop in H; destruct H as [H1 H2]. f_equal; [now apply IH|now apply IHl].
Qed.

(* unpacking the checker *)
Lemma wf_parts :
  forallb msg_ok messages = true /\ known_consistent = true /\ containers_ok = true /\
  fileid_ok = true /\ fit_layout_ok = true /\ base_tables_ok = true.
Proof.
  pose proof profile_wf_true as H. unfold profile_wf in H.
  repeat (apply andb_prop in H; destruct H as [H ?]). repeat split; assumption.
Qed.

Lemma known_parts :
  forallb (fun k => match find_msg k with Some m => md_known m | None => false end) known_msgnums = true /\
  forallb (fun m => Bool.eqb (md_known m) (existsb (N.eqb (md_num m)) known_msgnums)) messages = true.
Proof.
  destruct wf_parts as (_ & Hk & _). unfold known_consistent in Hk.
  apply andb_prop in Hk. destruct Hk as [Hk _].
  apply andb_prop in Hk. destruct Hk as [Hk _].
  apply andb_prop in Hk. destruct Hk as [H1 H2]. split; assumption.
Qed.

Lemma find_msg_in gmn m : find_msg gmn = Some m -> In m messages /\ md_num m = gmn.
Proof. unfold find_msg. intros H. apply find_some in H. destruct H as [H1 H2]. split; [assumption|now apply N.eqb_eq]. Qed.

Lemma msg_ok_of gmn m : find_msg gmn = Some m -> msg_ok m = true.
Proof.
  intros H. destruct (find_msg_in _ _ H) as [Hin _].
  destruct wf_parts as [Hm _]. rewrite forallb_forall in Hm. now apply Hm.
Qed.

Lemma known_iff gmn m : find_msg gmn = Some m -> known_msg gmn = md_known m.
Proof.
  intros H. destruct (find_msg_in _ _ H) as [Hin Hn].
  destruct known_parts as [_ H0].
  rewrite forallb_forall in H0; specialize (H0 m Hin); apply eqb_prop in H0.
  unfold known_msg. rewrite <- Hn. symmetry. assumption.
Qed.

Lemma get_field_inv gmn fdn pf : get_field gmn fdn = Some pf ->
  exists m, find_msg gmn = Some m /\ In (fdn, pf) (md_entries m).
Proof.
  unfold get_field. destruct (fields_len <=? gmn); [discriminate|].
  destruct (find_msg gmn) as [m|] eqn:Em; [|discriminate].
  destruct (find (fun e => fst e =? fdn) (md_entries m)) as [e|] eqn:Ee; [|discriminate].
  intros H; inversion H; subst. exists m. split; [reflexivity|].
  apply find_some in Ee. destruct Ee as [Hin Hk]. apply N.eqb_eq in Hk. destruct e as [k p]. simpl in *. subst. assumption.
Qed.

(* the facts the checker establishes for one lookup entry *)
Record entry_facts (gmn fdn : N) (pf : pfield) (m : msgdesc) : Prop := {
  ef_known : known_msg gmn = true;
  ef_ctor : md_has_ctor m = true;
  ef_num : pf_num pf = fdn;
  ef_sindex : (pf_sindex pf < List.length (md_layout m))%nat;
  ef_kind : fit_kind (pf_t pf) <= 4;
  ef_storable : base_storable (fit_base (pf_t pf)) = true;
  ef_type : field_type gmn (pf_sindex pf) = Some (gotype_of_fit (pf_t pf));
  ef_invalid : nth_error (md_invalid m) (pf_sindex pf) = Some (invalid_of_fit (pf_t pf));
  ef_scalar_kinds : fit_kind (pf_t pf) <> kind_native -> fit_array (pf_t pf) = false;
  ef_time_base : (fit_kind (pf_t pf) = kind_timeutc \/ fit_kind (pf_t pf) = kind_timelocal) -> fit_base (pf_t pf) = base_uint32;
  ef_coord_base : (fit_kind (pf_t pf) = kind_lat \/ fit_kind (pf_t pf) = kind_lng) -> fit_base (pf_t pf) = base_sint32;
  ef_ts : fdn = c_fieldNumTimeStamp -> fit_kind (pf_t pf) = kind_timeutc;
  ef_layout_len : List.length (md_layout m) = List.length (md_invalid m)
}.

Theorem entry_sound : forall gmn fdn pf, get_field gmn fdn = Some pf ->
  exists m, find_msg gmn = Some m /\ entry_facts gmn fdn pf m.
Proof.
  intros gmn fdn pf H. destruct (get_field_inv _ _ _ H) as (m & Em & Hin).
  exists m. split; [assumption|].
  pose proof (msg_ok_of _ _ Em) as Hok. pose proof (known_iff _ _ Em) as Hk.
  unfold msg_ok in Hok. apply andb_prop in Hok. destruct Hok as [Hent Hkn].
  destruct (md_entries m) as [|e0 es] eqn:Ees; [contradiction|].
  apply andb_prop in Hent. destruct Hent as [Hmk _]. rewrite Hmk in Hkn, Hk.
  repeat (apply andb_prop in Hkn; destruct Hkn as [Hkn ?]).
  match goal with H0 : forallb (entry_ok m) _ = true |- _ =>
    rewrite forallb_forall in H0; specialize (H0 (fdn, pf) Hin); rename H0 into He end.
  unfold entry_ok in He.
  repeat (apply andb_prop in He; destruct He as [He ?]).
  destruct (nth_error (md_layout m) (pf_sindex pf)) as [[nm ty]|] eqn:El; [|discriminate].
  destruct (nth_error (md_invalid m) (pf_sindex pf)) as [v|] eqn:Ev; [|discriminate].
  constructor.
  - assumption.
  - assumption.
  - now apply N.eqb_eq.
  - match goal with H0 : Nat.ltb _ _ = true |- _ => now apply PeanoNat.Nat.ltb_lt in H0 end.
  - match goal with H0 : (fit_kind _ <=? 4) = true |- _ => now apply N.leb_le in H0 end.
  - assumption.
  - unfold field_type, msg_layout. rewrite Em, El. f_equal. now apply gotype_eqb_eq.
  - rewrite Ev. f_equal. now apply goval_eqb_eq.
  - intros Hn. match goal with H0 : (if fit_kind (pf_t pf) =? kind_native then true else _) = true |- _ => rename H0 into Hk2 end.
    destruct (N.eqb_spec (fit_kind (pf_t pf)) kind_native); [contradiction|].
    apply andb_prop in Hk2. destruct Hk2 as [Hk2 _]. now apply negb_true_iff in Hk2.
  - intros Ht. match goal with H0 : (if fit_kind (pf_t pf) =? kind_native then true else _) = true |- _ => rename H0 into Hk2 end.
    destruct (N.eqb_spec (fit_kind (pf_t pf)) kind_native) as [E|NE]; [destruct Ht as [Ht|Ht]; rewrite Ht in E; discriminate|].
    apply andb_prop in Hk2. destruct Hk2 as [_ Hk2].
    destruct Ht as [Ht|Ht]; rewrite Ht in Hk2; simpl in Hk2; now apply N.eqb_eq.
  - intros Ht. match goal with H0 : (if fit_kind (pf_t pf) =? kind_native then true else _) = true |- _ => rename H0 into Hk2 end.
    destruct (N.eqb_spec (fit_kind (pf_t pf)) kind_native) as [E|NE]; [destruct Ht as [Ht|Ht]; rewrite Ht in E; discriminate|].
    apply andb_prop in Hk2. destruct Hk2 as [_ Hk2].
    destruct Ht as [Ht|Ht]; rewrite Ht in Hk2; simpl in Hk2; now apply N.eqb_eq.
  - intros ->. match goal with H0 : (if c_fieldNumTimeStamp =? c_fieldNumTimeStamp then _ else true) = true |- _ => rename H0 into Hts end.
    rewrite N.eqb_refl in Hts. now apply N.eqb_eq.
  - match goal with H0 : Nat.eqb (List.length (md_layout m)) _ = true |- _ => now apply PeanoNat.Nat.eqb_eq in H0 end.
Qed.

(* every known message has a constructor, a type and an all-invalid value *)
Theorem known_has_constructor : forall gmn, known_msg gmn = true ->
  exists m, find_msg gmn = Some m /\ md_has_ctor m = true /\ md_has_type m = true /\
            mesg_all_invalid gmn = Some (mk_msg gmn (md_invalid m)) /\
            List.length (md_layout m) = List.length (md_invalid m).
Proof.
  intros gmn Hk.
  destruct known_parts as [Hc _].
  unfold known_msg in Hk. apply existsb_exists in Hk. destruct Hk as (k & Hin & Hk). apply N.eqb_eq in Hk. subst k.
  rewrite forallb_forall in Hc. specialize (Hc gmn Hin).
  destruct (find_msg gmn) as [m|] eqn:Em; [|discriminate].
  exists m. split; [reflexivity|].
  pose proof (msg_ok_of _ _ Em) as Hok. unfold msg_ok in Hok. apply andb_prop in Hok. destruct Hok as [_ Hkn].
  rewrite Hc in Hkn. repeat (apply andb_prop in Hkn; destruct Hkn as [Hkn ?]).
  unfold mesg_all_invalid. rewrite Em.
  repeat match goal with H0 : md_has_ctor m = true |- _ => rewrite H0; clear H0 end.
  repeat split; try assumption; try reflexivity.
  match goal with H0 : Nat.eqb (List.length (md_layout m)) _ = true |- _ => now apply PeanoNat.Nat.eqb_eq in H0 end.
Qed.

(* distinct struct fields: two field numbers of one message never share a struct index *)
Lemma nodup_nat_spec l : nodup_nat l = true -> NoDup l.
Proof.
  induction l as [|x r IH]; simpl; intros H; [constructor|].
  apply andb_prop in H. destruct H as [H1 H2]. constructor; [|now apply IH].
  intros Hin. apply negb_true_iff in H1. assert (existsb (Nat.eqb x) r = true); [|congruence].
  apply existsb_exists. exists x. split; [assumption|apply PeanoNat.Nat.eqb_refl].
Qed.

Lemma NoDup_map_inj {A B} (f : A -> B) l x y : NoDup (map f l) -> In x l -> In y l -> f x = f y -> x = y.
Proof.
  induction l as [|a l IH]; simpl; intros Hn Hx Hy E; [contradiction|].
  inversion Hn as [|? ? Hnot Hn']; subst.
  destruct Hx as [->|Hx]; destruct Hy as [->|Hy]; try reflexivity.
  - exfalso. apply Hnot. rewrite E. now apply in_map.
  - exfalso. apply Hnot. rewrite <- E. now apply in_map.
  - now apply IH.
Qed.

Theorem distinct_struct_fields : forall gmn f1 f2 p1 p2,
  get_field gmn f1 = Some p1 -> get_field gmn f2 = Some p2 -> pf_sindex p1 = pf_sindex p2 -> f1 = f2.
Proof.
  intros gmn f1 f2 p1 p2 H1 H2 E.
  destruct (get_field_inv _ _ _ H1) as (m & Em & Hin1).
  destruct (get_field_inv _ _ _ H2) as (m' & Em' & Hin2). rewrite Em in Em'. inversion Em'; subst m'.
  pose proof (msg_ok_of _ _ Em) as Hok. unfold msg_ok in Hok. apply andb_prop in Hok. destruct Hok as [Hent Hkn].
  destruct (md_entries m) as [|e0 es] eqn:Ees; [contradiction|].
  apply andb_prop in Hent. destruct Hent as [Hmk _]. rewrite Hmk in Hkn.
  repeat (apply andb_prop in Hkn; destruct Hkn as [Hkn ?]).
  match goal with H0 : nodup_nat (map (fun e => pf_sindex (snd e)) _) = true |- _ => apply nodup_nat_spec in H0; rename H0 into Hnd end.
  assert ((f1, p1) = (f2, p2)) as Heq.
  { eapply (NoDup_map_inj (fun e : N * pfield => pf_sindex (snd e))); eauto. }
  now inversion Heq.
Qed.

(* every message type held by a file container is known *)
Theorem container_members_known : forall ft ok cname slots name multi mn,
  In (ft, ok, cname, slots) file_types -> ok = true -> In (name, multi, mn) slots -> known_msg mn = true.
Proof.
  intros ft ok cname slots name multi mn Hin Hok Hs.
  destruct wf_parts as (_ & _ & Hc & _). unfold containers_ok in Hc.
  rewrite forallb_forall in Hc. specialize (Hc _ Hin). simpl in Hc. rewrite Hok in Hc.
  rewrite forallb_forall in Hc. now specialize (Hc _ Hs).
Qed.

(* the compiled-in profile has no float or 64-bit fields *)
Theorem no_float_fields : forall gmn fdn pf, get_field gmn fdn = Some pf ->
  b_float (fit_base (pf_t pf)) = Some false /\ exists s, b_size (fit_base (pf_t pf)) = Some s /\ 1 <= s <= 4.
Proof.
  intros gmn fdn pf H. destruct (entry_sound _ _ _ H) as (m & _ & F).
  pose proof (ef_storable _ _ _ _ F) as Hs. unfold base_storable in Hs.
  destruct (b_known _) as [[|]|]; try discriminate.
  destruct (b_size _) as [s|]; try discriminate.
  destruct (b_float _) as [[|]|]; try discriminate.
  apply andb_prop in Hs. destruct Hs as [H1 H2]. apply N.leb_le in H1, H2.
  split; [reflexivity|]. exists s. split; [reflexivity|lia].
Qed.

(* the hand-written bit layout of types.Fit is what the exported methods compute *)
Theorem fit_layout_agrees : fit_layout_ok = true.
Proof. destruct wf_parts as (_ & _ & _ & _ & H & _). exact H. Qed.
