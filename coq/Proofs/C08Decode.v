(* C08/C09: the decoder (Model/Decode.v) run from two states of the
   package-level accumulators.  The simulation relation [drel] says what the
   two decoder states share at every point of the run; [decode_rel] and
   [decode_chained_rel] are the statements for whole calls. *)
From Coq Require Import NArith ZArith List Bool String Lia.
From FitV Require Import Model.Values Model.Bytes Model.Base Model.Profile Model.Reflect Model.Crc Model.IO
  Model.Header Model.Components Model.Route Model.Decode Model.Shared Gen.Consts
  Proofs.RouteProofs Proofs.C08Sim Proofs.C08Route.
Import ListNotations.
Local Open Scope N_scope.
Local Opaque fld set_fld widen16 get_field field_type known_msg mesg_all_invalid file_add file_init.

(* gi1, gi2: the accumulators at the start of the two runs *)
Definition drel (gi1 gi2 : gstate) (s1 s2 : dstate) : Prop :=
  ds_defs s1 = ds_defs s2 /\ ds_ts s1 = ds_ts s2 /\ ds_lastoff s1 = ds_lastoff s2 /\
  ds_unkf s1 = ds_unkf s2 /\ ds_unkm s1 = ds_unkm s2 /\ ds_quirks s1 = ds_quirks s2 /\ ds_hasts s1 = ds_hasts s2 /\
  file_sim (ds_file s1) (ds_file s2) /\ gwf (ds_g s1) /\ gwf (ds_g s2) /\
  (g_dist (ds_g s1) = None -> g_dist gi1 = None /\ ds_file s1 = ds_file s2 /\ g_dist (ds_g s2) = g_dist gi2) /\
  (ds_g s1 = g_init -> gi1 = g_init /\ ds_file s1 = ds_file s2 /\ ds_g s2 = gi2).

Lemma drel_mk gi1 gi2 d t l uf um q hs f1 f2 g1 g2 :
  file_sim f1 f2 -> gwf g1 -> gwf g2 ->
  (g_dist g1 = None -> g_dist gi1 = None /\ f1 = f2 /\ g_dist g2 = g_dist gi2) ->
  (g1 = g_init -> gi1 = g_init /\ f1 = f2 /\ g2 = gi2) ->
  drel gi1 gi2 (mk_dstate d t l uf um f1 g1 q hs) (mk_dstate d t l uf um f2 g2 q hs).
Proof. unfold drel; cbn [ds_defs ds_ts ds_lastoff ds_unkf ds_unkm ds_file ds_g ds_quirks ds_hasts]. intuition. Qed.

Ltac dr H s1 s2 :=
  let d1 := fresh "d" in let t1 := fresh "t" in let l1 := fresh "lo" in let uf1 := fresh "uf" in
  let um1 := fresh "um" in let f1 := fresh "fa" in let g1 := fresh "ga" in let q1 := fresh "q" in let h1 := fresh "hs" in
  let d2 := fresh "d" in let t2 := fresh "t" in let l2 := fresh "lo" in let uf2 := fresh "uf" in
  let um2 := fresh "um" in let f2 := fresh "fb" in let g2 := fresh "gb" in let q2 := fresh "q" in let h2 := fresh "hs" in
  destruct s1 as [d1 t1 l1 uf1 um1 f1 g1 q1 h1]; destruct s2 as [d2 t2 l2 uf2 um2 f2 g2 q2 h2];
  unfold drel in H; cbn [ds_defs ds_ts ds_lastoff ds_unkf ds_unkm ds_file ds_g ds_quirks ds_hasts] in H;
  let HF := fresh "HF" in let HW1 := fresh "HWa" in let HW2 := fresh "HWb" in
  let HT1 := fresh "HTa" in let HT2 := fresh "HTb" in
  destruct H as (? & ? & ? & ? & ? & ? & ? & HF & HW1 & HW2 & HT1 & HT2); subst d2 t2 l2 uf2 um2 q2 h2.

Ltac ps :=
  repeat match goal with
  | |- psim _ _ (Ret _) (Ret _) => apply ps_ret; reflexivity
  | |- psim _ _ (Fail _) (Fail _) => apply ps_fail
  | |- psim _ _ (Panic _) (Panic _) => apply ps_panic
  | |- psim _ _ (ReadByte _) (ReadByte _) => apply ps_byte; intro
  | |- psim _ _ (ReadFull _ _) (ReadFull _ _) => apply ps_full; intro
  | |- psim _ _ (More _) (More _) => apply ps_more; intro
  | |- psim _ _ (match ?x with _ => _ end) (match ?x with _ => _ end) => destruct x
  end.

Ltac sl :=
  repeat match goal with
  | |- stateless (bind _ _) => apply stateless_bind; [|intro]
  | |- stateless (Ret _) => apply sl_ret
  | |- stateless (Fail _) => apply sl_fail
  | |- stateless (Panic _) => apply sl_panic
  | |- stateless (ReadByte _) => apply sl_byte; intro
  | |- stateless (ReadFull _ _) => apply sl_full; intro
  | |- stateless (match ?x with _ => _ end) => destruct x
  end.

Lemma sl_pdm b : stateless (S := dstate) (parse_definition_message b).
Proof. unfold parse_definition_message, read_byte, read_full, fail, panic. sl. Qed.

Lemma sl_skip devs : stateless (S := dstate) (skip_dev_fields devs).
Proof. induction devs as [|[[a b] c] r IH]; simpl; [constructor|]. unfold read_full. sl. exact IH. Qed.

Lemma pts_rel gi1 gi2 s1 s2 u k n : drel gi1 gi2 s1 s2 ->
  fst (parse_time_stamp s1 u k n) = fst (parse_time_stamp s2 u k n) /\
  drel gi1 gi2 (snd (parse_time_stamp s1 u k n)) (snd (parse_time_stamp s2 u k n)).
Proof.
  intro H. dr H s1 s2. unfold parse_time_stamp. cbn [ds_defs ds_ts ds_lastoff ds_unkf ds_unkm ds_file ds_g ds_quirks ds_hasts].
  destruct (u =? 4294967295); [cbn [fst snd]; split; [reflexivity|apply drel_mk; assumption]|].
  destruct (k =? kind_timeutc).
  - destruct (n =? c_fieldNumTimeStamp); cbn [fst snd]; (split; [reflexivity|apply drel_mk; assumption]).
  - destruct (negb hs || (t <? c_systemTimeMarker)); cbn [fst snd]; (split; [reflexivity|apply drel_mk; assumption]).
Qed.

Lemma ps_pof gi1 gi2 o dm known fd msgv :
  psim (drel gi1 gi2) eq (parse_one_field o dm known fd msgv) (parse_one_field o dm known fd msgv).
Proof.
  unfold parse_one_field, get_st, put_st, read_full, fail, panic. cbv zeta.
  apply psim_bind_eq.
  - destruct (get_field (dm_gmn dm) (fd_num fd)).
    + ps.
    + destruct (known && o_unkf o); [|ps]. cbn [bind]. apply ps_get. intros s1 s2 H. dr H s1 s2.
      unfold with_unkf; cbn [ds_defs ds_ts ds_lastoff ds_unkf ds_unkm ds_file ds_g ds_quirks ds_hasts].
      apply ps_put; [apply drel_mk; assumption|ps].
  - intros _. cbn [bind]. apply ps_full. intro buf.
    destruct (get_field (dm_gmn dm) (fd_num fd)) as [p|]; [|ps].
    destruct (negb known); [ps|]. destruct msgv as [m|]; [|ps].
    destruct (field_type (dm_gmn dm) (pf_sindex p)) as [ty|]; [|ps].
    destruct (fit_kind (pf_t p) =? kind_native).
    { destruct (negb (fit_array (pf_t p))); ps. }
    destruct (b_signed (fd_btype fd)) as [sg|]; [|ps].
    destruct ((fit_kind (pf_t p) =? kind_timeutc) || (fit_kind (pf_t p) =? kind_timelocal)).
    + cbn [bind]. apply ps_get. intros s1 s2 H.
      destruct (pts_rel gi1 gi2 s1 s2 (get32 (dm_be dm) (extend4 (dm_be dm) sg buf)) (fit_kind (pf_t p)) (pf_num p) H) as [E1 E2].
      destruct (parse_time_stamp s1 _ _ _) as [ov1 s1'], (parse_time_stamp s2 _ _ _) as [ov2 s2'].
      cbn [fst snd] in E1, E2. subst ov2. cbn [bind]. apply ps_put; [exact E2|]. ps.
    + ps.
Qed.

Lemma ps_pfs gi1 gi2 o dm known : forall fds msgv,
  psim (drel gi1 gi2) eq (parse_fields o dm known fds msgv) (parse_fields o dm known fds msgv).
Proof.
  induction fds as [|fd r IH]; intro msgv; cbn [parse_fields]; [ps|].
  apply psim_bind_eq; [apply ps_pof|]. intro a. apply IH.
Qed.

Lemma ps_pdf gi1 gi2 o dm known msgv :
  psim (drel gi1 gi2) eq (parse_data_fields o dm known msgv) (parse_data_fields o dm known msgv).
Proof.
  unfold parse_data_fields. apply psim_bind_eq; [apply ps_pfs|]. intro m.
  apply psim_bind_eq; [apply stateless_psim; apply sl_skip|]. intro. ps.
Qed.

Lemma ps_pdm gi1 gi2 o b compressed :
  psim (drel gi1 gi2) eq (parse_data_message o b compressed) (parse_data_message o b compressed).
Proof.
  unfold parse_data_message, get_st, put_st, fail, panic. cbv zeta. cbn [bind].
  apply ps_get. intros s1 s2 H. dr H s1 s2. cbn [ds_defs ds_ts ds_lastoff ds_unkf ds_unkm ds_file ds_g ds_quirks ds_hasts].
  destruct (nth _ d None) as [dm|]; [|ps].
  apply psim_bind_eq.
  - destruct (known_msg (dm_gmn dm)).
    + ps.
    + apply psim_bind_eq; [|intro; ps]. destruct (o_unkm o); [|ps].
      unfold with_unkm; cbn [ds_defs ds_ts ds_lastoff ds_unkf ds_unkm ds_file ds_g ds_quirks ds_hasts].
      apply ps_put; [apply drel_mk; assumption|ps].
  - intro msgv. destruct (negb compressed); [apply ps_pdf|].
    cbn [bind]. apply ps_get. intros s1 s2 H. dr H s1 s2. cbn [ds_defs ds_ts ds_lastoff ds_unkf ds_unkm ds_file ds_g ds_quirks ds_hasts].
    destruct (negb hs0); [apply ps_pdf|].
    unfold with_time; cbn [ds_defs ds_ts ds_lastoff ds_unkf ds_unkm ds_file ds_g ds_quirks ds_hasts]. cbn [bind].
    apply ps_put; [apply drel_mk; assumption|].
    destruct (get_field (dm_gmn dm) c_fieldNumTimeStamp) as [p|]; [|apply ps_pdf].
    destruct msgv as [m|]; [|ps]. destruct (field_type _ _) as [ty|]; [|ps].
    destruct (set_time ty _); [apply ps_pdf|ps].
Qed.

Lemma ps_add gi1 gi2 m : psim (drel gi1 gi2) eq (add_msg m) (add_msg m).
Proof.
  unfold add_msg, get_st, put_st, panic. cbn [bind]. apply ps_get. intros s1 s2 H. dr H s1 s2.
  cbn [ds_defs ds_ts ds_lastoff ds_unkf ds_unkm ds_file ds_g ds_quirks ds_hasts].
  pose proof (file_add_rel fa fb ga gb m HF HWa HWb) as K.
  destruct (file_add fa ga m) as [fa' ga'|w1], (file_add fb gb m) as [fb' gb'|w2]; cbn [add_rel] in K; try contradiction.
  - destruct K as (A & B & C & D & E).
    unfold with_file; cbn [ds_defs ds_ts ds_lastoff ds_unkf ds_unkm ds_file ds_g ds_quirks ds_hasts].
    apply ps_put; [|ps]. apply drel_mk; try assumption.
    + intro X. destruct (D X) as (D1 & D2 & D3). destruct (HTa D1) as (T1 & T2 & T3).
      split; [exact T1|]. split; [apply D2; exact T2|]. rewrite D3. exact T3.
    + intro X. destruct (E X) as (E1 & E2 & E3). destruct (HTb E1) as (T1 & T2 & T3).
      split; [exact T1|]. split; [apply E2; exact T2|]. rewrite E3. exact T3.
  - subst w2. ps.
Qed.

Lemma ps_setdef gi1 gi2 dm : psim (drel gi1 gi2) eq (set_def dm) (set_def dm).
Proof.
  unfold set_def, get_st, put_st. cbn [bind]. apply ps_get. intros s1 s2 H. dr H s1 s2.
  unfold with_defs; cbn [ds_defs ds_ts ds_lastoff ds_unkf ds_unkm ds_file ds_g ds_quirks ds_hasts].
  apply ps_put; [apply drel_mk; assumption|ps].
Qed.

Lemma ps_fileid gi1 gi2 o : psim (drel gi1 gi2) eq (parse_file_id_msg o) (parse_file_id_msg o).
Proof.
  unfold parse_file_id_msg, read_byte, fail, panic. cbn [bind]. apply ps_byte. intro b.
  destruct (negb _); [ps|].
  apply psim_bind_eq; [apply stateless_psim; apply sl_pdm|]. intro dm.
  destruct (negb _); [ps|].
  apply psim_bind_eq; [apply ps_setdef|]. intros _. cbn [bind]. apply ps_byte. intro b2.
  destruct (negb _); [ps|].
  apply psim_bind_eq; [apply ps_pdm|]. intros [m|]; [|ps].
  destruct (m_num m =? c_MesgNumFileId); [apply ps_add|ps].
Qed.

Lemma ps_record gi1 gi2 o : psim (drel gi1 gi2) eq (parse_record o) (parse_record o).
Proof.
  unfold parse_record, read_byte, fail. cbn [bind]. apply ps_byte. intro b.
  destruct (_ =? c_compressedHeaderMask).
  { apply psim_bind_eq; [apply ps_pdm|]. intros [m|]; [apply ps_add|ps]. }
  destruct (_ =? c_mesgDefinitionMask).
  { apply psim_bind_eq; [apply stateless_psim; apply sl_pdm|]. intro dm. apply ps_setdef. }
  destruct (_ =? c_mesgHeaderMask).
  { apply psim_bind_eq; [apply ps_pdm|]. intros [m|]; [apply ps_add|ps]. }
  ps.
Qed.

Lemma ps_dfd gi1 gi2 o : forall fuel, psim (drel gi1 gi2) eq (decode_file_data o fuel) (decode_file_data o fuel).
Proof.
  induction fuel as [|f IH]; cbn [decode_file_data]; [unfold panic; ps|].
  apply ps_more. intros [|]; [|ps]. apply psim_bind_eq; [apply ps_record|]. intros _. exact IH.
Qed.

Lemma ps_init gi1 gi2 : psim (drel gi1 gi2) eq do_init do_init.
Proof.
  unfold do_init, get_st, put_st, fail. cbn [bind]. apply ps_get. intros s1 s2 H. dr H s1 s2.
  cbn [ds_defs ds_ts ds_lastoff ds_unkf ds_unkm ds_file ds_g ds_quirks ds_hasts].
  pose proof (file_init_rel fa fb HF) as K.
  destruct (file_init fa) as [fa'|], (file_init fb) as [fb'|]; try contradiction; [|ps].
  destruct K as [K1 K2].
  unfold with_file; cbn [ds_defs ds_ts ds_lastoff ds_unkf ds_unkm ds_file ds_g ds_quirks ds_hasts].
  apply ps_put; [|ps]. apply drel_mk; try assumption.
  - intro X. destruct (HTa X) as (T1 & T2 & T3). auto.
  - intro X. destruct (HTb X) as (T1 & T2 & T3). auto.
Qed.

Lemma ps_data gi1 gi2 o fid fuel : psim (drel gi1 gi2) eq (data_prog o fid fuel) (data_prog o fid fuel).
Proof.
  unfold data_prog. apply psim_bind_eq; [apply ps_fileid|]. intros _.
  destruct fid; [ps|]. apply psim_bind_eq; [apply ps_init|]. intros _. apply ps_dfd.
Qed.

(* ------------------------------------------------------------ whole calls *)
Definition tout_rel {A} (P : A -> A -> Prop) (t1 t2 : tout A) : Prop :=
  match t1, t2 with
  | TDone a, TDone b => P a b
  | TPanic w1, TPanic w2 => w1 = w2
  | TOutOfFuel, TOutOfFuel => True
  | _, _ => False
  end.

Definition dres_rel (gi1 gi2 : gstate) (r1 r2 : dres) : Prop :=
  dr_err r1 = dr_err r2 /\ dr_hdr r1 = dr_hdr r2 /\ dr_rd r1 = dr_rd r2 /\ dr_quirks r1 = dr_quirks r2 /\
  ofile_sim (dr_file r1) (dr_file r2) /\ gwf (dr_g r1) /\ gwf (dr_g r2) /\
  (g_dist (dr_g r1) = None -> g_dist gi1 = None /\ dr_file r1 = dr_file r2 /\ g_dist (dr_g r2) = g_dist gi2) /\
  (dr_g r1 = g_init -> gi1 = g_init /\ dr_file r1 = dr_file r2 /\ dr_g r2 = gi2).

Lemma file_sim_refl f : file_sim f f.
Proof. unfold file_sim. repeat split; try reflexivity. apply slots_sim_refl. Qed.

Lemma dres_rel_nostate g1 g2 e h f rd : gwf g1 -> gwf g2 ->
  dres_rel g1 g2 (mk_dres e h f rd g1 []) (mk_dres e h f rd g2 []).
Proof.
  intros W1 W2. unfold dres_rel; cbn [dr_err dr_hdr dr_file dr_rd dr_g dr_quirks].
  assert (ofile_sim f f) by (destruct f; simpl; [apply file_sim_refl|exact I]). intuition.
Qed.

Lemma finalize_rel o gi1 gi2 s1 s2 : drel gi1 gi2 s1 s2 ->
  file_sim (finalize_unknown o s1) (finalize_unknown o s2) /\
  (ds_file s1 = ds_file s2 -> finalize_unknown o s1 = finalize_unknown o s2).
Proof.
  intro H. dr H s1 s2. unfold finalize_unknown. cbn [ds_defs ds_ts ds_lastoff ds_unkf ds_unkm ds_file ds_g ds_quirks ds_hasts].
  split.
  - destruct HF as (A & B & C & D & E & F). unfold file_sim; cbn [f_header f_crc f_slots f_inited f_unkm f_unkf].
    rewrite E, F. auto 10.
  - intros ->. reflexivity.
Qed.

Lemma dres_of_state o gi1 gi2 s1 s2 e h rd : drel gi1 gi2 s1 s2 ->
  dres_rel gi1 gi2 (mk_dres e h (Some (finalize_unknown o s1)) rd (ds_g s1) (ds_quirks s1))
                   (mk_dres e h (Some (finalize_unknown o s2)) rd (ds_g s2) (ds_quirks s2)).
Proof.
  intro H. destruct (finalize_rel o _ _ _ _ H) as [F1 F2].
  unfold dres_rel; cbn [dr_err dr_hdr dr_file dr_rd dr_g dr_quirks ofile_sim].
  destruct H as (_ & _ & _ & _ & _ & Q & _ & _ & W1 & W2 & T1 & T2).
  split; [reflexivity|]. split; [reflexivity|]. split; [reflexivity|]. split; [exact Q|]. split; [exact F1|].
  split; [exact W1|]. split; [exact W2|]. split.
  - intro X. destruct (T1 X) as (A & B & C). split; [exact A|]. split; [f_equal; apply F2; exact B|exact C].
  - intro X. destruct (T2 X) as (A & B & C). split; [exact A|]. split; [f_equal; apply F2; exact B|exact C].
Qed.

Lemma drel_set_crc gi1 gi2 s1 s2 c : drel gi1 gi2 s1 s2 ->
  drel gi1 gi2 (with_file s1 (set_crc (ds_file s1) c) (ds_g s1)) (with_file s2 (set_crc (ds_file s2) c) (ds_g s2)).
Proof.
  intro H. dr H s1 s2. unfold with_file, set_crc. cbn [ds_defs ds_ts ds_lastoff ds_unkf ds_unkm ds_file ds_g ds_quirks ds_hasts].
  apply drel_mk; try assumption.
  - destruct HF as (A & B & C & D & E & F). unfold file_sim; cbn [f_header f_crc f_slots f_inited f_unkm f_unkf]. auto 10.
  - intro X. destruct (HTa X) as (T1 & T2 & T3). subst fb. auto.
  - intro X. destruct (HTb X) as (T1 & T2 & T3). subst fb. auto.
Qed.

Lemma drel_same_file gi1 gi2 s1 s2 : drel gi1 gi2 s1 s2 ->
  drel gi1 gi2 (with_file s1 (ds_file s1) (ds_g s1)) (with_file s2 (ds_file s2) (ds_g s2)).
Proof. intro H. destruct s1, s2. exact H. Qed.

Theorem decode_rel o md g1 g2 rd fuel : gwf g1 -> gwf g2 ->
  tout_rel (dres_rel g1 g2) (decode o md g1 rd fuel) (decode o md g2 rd fuel).
Proof.
  intros W1 W2. unfold decode.
  destruct (decode_header fuel rd) as [[[[[e|] h] crc] rd1]|]; [apply dres_rel_nostate; assumption| |exact I].
  destruct md.
  - (* MFull *)
    pose proof (run_c_psim _ _ _ _ (ps_data g1 g2 o false (S (N.to_nat (h_dsize h))))
                  (mk_cst rd1 [] 0 (N.to_nat (h_dsize h)) crc fuel)
                  (init_dstate (new_file h) g1) (init_dstate (new_file h) g2)) as K.
    assert (HI : drel g1 g2 (init_dstate (new_file h) g1) (init_dstate (new_file h) g2)).
    { unfold init_dstate. apply drel_mk; try assumption; try apply file_sim_refl; intuition. }
    specialize (K HI).
    destruct (run_c _ _ (init_dstate (new_file h) g1)) as [a1 c1 s1|e1 c1 s1|e1 c1 s1|w1|];
    destruct (run_c _ _ (init_dstate (new_file h) g2)) as [a2 c2 s2|e2 c2 s2|e2 c2 s2|w2|];
      cbn [rsim] in K; try contradiction; try exact K.
    + destruct K as (_ & <- & HR). destruct (negb (Nat.eqb (c_n c1) (c_limit c1))); [reflexivity|].
      unfold check_crc. destruct (io_read_full fuel (c_rd c1) 2 []) as [[[bs [er|]] rd']|]; cbn [tout_rel]; [| |exact I].
      * apply (dres_of_state o g1 g2 (with_file s1 (ds_file s1) (ds_g s1)) (with_file s2 (ds_file s2) (ds_g s2))).
        apply drel_same_file. exact HR.
      * destruct (negb (crc_sum16 (crc_write (c_crc c1) bs) =? 0));
          apply (dres_of_state o g1 g2 (with_file s1 (set_crc (ds_file s1) (le16 bs)) (ds_g s1))
                                       (with_file s2 (set_crc (ds_file s2) (le16 bs)) (ds_g s2)));
          apply drel_set_crc; exact HR.
    + destruct K as (<- & <- & HR). apply dres_of_state. exact HR.
    + destruct K as (<- & <- & HR). apply dres_of_state. exact HR.
  - apply dres_rel_nostate; assumption.
  - (* MFileIdOnly *)
    pose proof (run_c_psim _ _ _ _ (ps_data g1 g2 o true (S (N.to_nat (h_dsize h))))
                  (mk_cst rd1 [] 0 (N.to_nat (h_dsize h)) crc fuel)
                  (init_dstate (new_file h) g1) (init_dstate (new_file h) g2)) as K.
    assert (HI : drel g1 g2 (init_dstate (new_file h) g1) (init_dstate (new_file h) g2)).
    { unfold init_dstate. apply drel_mk; try assumption; try apply file_sim_refl; intuition. }
    specialize (K HI).
    destruct (run_c _ _ (init_dstate (new_file h) g1)) as [a1 c1 s1|e1 c1 s1|e1 c1 s1|w1|];
    destruct (run_c _ _ (init_dstate (new_file h) g2)) as [a2 c2 s2|e2 c2 s2|e2 c2 s2|w2|];
      cbn [rsim] in K; try contradiction; try exact K.
    + destruct K as (_ & <- & HR). apply dres_of_state. exact HR.
    + destruct K as (<- & <- & HR). apply dres_of_state. exact HR.
    + destruct K as (<- & <- & HR). apply dres_of_state. exact HR.
  - (* MCrcOnly *)
    destruct (io_copy_n fuel rd1 (N.to_nat (h_dsize h)) []) as [[[bs [er|]] rd2]|]; [apply dres_rel_nostate; assumption| |exact I].
    destruct (check_crc fuel rd2 (crc_write crc bs) (new_file h)) as [[[e f] rd3]|]; [|exact I].
    apply dres_rel_nostate; assumption.
Qed.

Definition cres_rel (gi1 gi2 : gstate) (acc1 acc2 : list file) (r1 r2 : Decode.cres) : Prop :=
  cr_err r1 = cr_err r2 /\ cr_rd r1 = cr_rd r2 /\ cr_quirks r1 = cr_quirks r2 /\
  Forall2 file_sim (cr_files r1) (cr_files r2) /\ gwf (cr_g r1) /\ gwf (cr_g r2) /\
  (g_dist (cr_g r1) = None -> g_dist gi1 = None /\ (acc1 = acc2 -> cr_files r1 = cr_files r2) /\ g_dist (cr_g r2) = g_dist gi2) /\
  (cr_g r1 = g_init -> gi1 = g_init /\ (acc1 = acc2 -> cr_files r1 = cr_files r2) /\ cr_g r2 = gi2).

Theorem decode_chained_rel o fuel : forall files g1 g2 rd i acc1 acc2 q, gwf g1 -> gwf g2 -> Forall2 file_sim acc1 acc2 ->
  tout_rel (cres_rel g1 g2 acc1 acc2) (decode_chained o g1 rd fuel i files acc1 q) (decode_chained o g2 rd fuel i files acc2 q).
Proof.
  induction files as [|k IH]; intros g1 g2 rd i acc1 acc2 q W1 W2 HA; cbn [decode_chained]; [exact I|].
  pose proof (decode_rel o MFull g1 g2 rd fuel W1 W2) as K.
  destruct (decode o MFull g1 rd fuel) as [r1|w1|], (decode o MFull g2 rd fuel) as [r2|w2|]; cbn [tout_rel] in K; try contradiction; try exact K.
  destruct K as (Ke & Kh & Kr & Kq & Kf & Wa & Wb & T1 & T2). rewrite <- Ke, <- Kr, <- Kq.
  assert (HA' : Forall2 file_sim (match dr_file r1 with Some f => acc1 ++ [f] | None => acc1 end)
                                 (match dr_file r2 with Some f => acc2 ++ [f] | None => acc2 end)).
  { destruct (dr_file r1), (dr_file r2); simpl in Kf; try contradiction; [|exact HA].
    apply Forall2_app; [exact HA|constructor; [exact Kf|constructor]]. }
  assert (HE : acc1 = acc2 -> dr_file r1 = dr_file r2 ->
               match dr_file r1 with Some f => acc1 ++ [f] | None => acc1 end =
               match dr_file r2 with Some f => acc2 ++ [f] | None => acc2 end).
  { intros -> ->. reflexivity. }
  assert (Hstop : forall e, tout_rel (cres_rel g1 g2 acc1 acc2)
            (TDone (mk_cres (Some e) (match dr_file r1 with Some f => acc1 ++ [f] | None => acc1 end) (dr_rd r1) (dr_g r1) (q ++ dr_quirks r1)))
            (TDone (mk_cres (Some e) (match dr_file r2 with Some f => acc2 ++ [f] | None => acc2 end) (dr_rd r1) (dr_g r2) (q ++ dr_quirks r1)))).
  { intro e. cbn [tout_rel]. unfold cres_rel; cbn [cr_err cr_files cr_rd cr_g cr_quirks].
    split; [reflexivity|]. split; [reflexivity|]. split; [reflexivity|]. split; [exact HA'|]. split; [exact Wa|]. split; [exact Wb|]. split.
    - intro X. destruct (T1 X) as (A & B & C). split; [exact A|]. split; [intro Y; apply HE; assumption|exact C].
    - intro X. destruct (T2 X) as (A & B & C). split; [exact A|]. split; [intro Y; apply HE; assumption|exact C]. }
  destruct (dr_err r1) as [e|].
  - assert (Hend : tout_rel (cres_rel g1 g2 acc1 acc2)
              (TDone (mk_cres None acc1 (dr_rd r1) (dr_g r1) (q ++ dr_quirks r1)))
              (TDone (mk_cres None acc2 (dr_rd r1) (dr_g r2) (q ++ dr_quirks r1)))).
    { cbn [tout_rel]. unfold cres_rel; cbn [cr_err cr_files cr_rd cr_g cr_quirks].
      split; [reflexivity|]. split; [reflexivity|]. split; [reflexivity|]. split; [exact HA|]. split; [exact Wa|]. split; [exact Wb|]. split.
      - intro X. destruct (T1 X) as (A & B & C). split; [exact A|]. split; [intro Y; exact Y|exact C].
      - intro X. destruct (T2 X) as (A & B & C). split; [exact A|]. split; [intro Y; exact Y|exact C]. }
    destruct e; try apply Hstop. destruct i; [apply Hstop|apply Hend].
  - specialize (IH (dr_g r1) (dr_g r2) (dr_rd r1) (S i) _ _ (q ++ dr_quirks r1) Wa Wb HA').
    destruct (decode_chained o (dr_g r1) _ _ _ _ _ _) as [c1|w1|], (decode_chained o (dr_g r2) _ _ _ _ _ _) as [c2|w2|];
      cbn [tout_rel] in IH |- *; try contradiction; try exact IH.
    destruct IH as (A & B & C & D & E & F & G1 & G2).
    unfold cres_rel. split; [exact A|]. split; [exact B|]. split; [exact C|]. split; [exact D|]. split; [exact E|]. split; [exact F|]. split.
    + intro X. destruct (G1 X) as (X1 & X2 & X3). destruct (T1 X1) as (Y1 & Y2 & Y3).
      split; [exact Y1|]. split; [intro Z; apply X2; apply HE; assumption|rewrite X3; exact Y3].
    + intro X. destruct (G2 X) as (X1 & X2 & X3). destruct (T2 X1) as (Y1 & Y2 & Y3).
      split; [exact Y1|]. split; [intro Z; apply X2; apply HE; assumption|rewrite X3; exact Y3].
Qed.
