(* C08: results do not depend on call history -- calls, histories, witnesses. *)
From Coq Require Import NArith ZArith List Bool String Lia.
From FitV Require Import Model.Values Model.IO Model.Header Model.Components Model.Route Model.Decode Model.Encode
  Model.Shared Gen.Consts Proofs.C08Sim Proofs.C08Route Proofs.C08Decode.
Import ListNotations.
Local Open Scope N_scope.

Lemma gwf_init : gwf g_init.
Proof. split; intros a H; discriminate H. Qed.

(* one call compared between two accumulator states *)
Definition call_rel (g1 g2 : gstate) (x1 x2 : obs * gstate) : Prop :=
  obs_sim (fst x1) (fst x2) /\ gwf (snd x1) /\ gwf (snd x2) /\
  (g_dist (snd x1) = None -> g_dist g1 = None /\ fst x1 = fst x2 /\ g_dist (snd x2) = g_dist g2) /\
  (snd x1 = g_init -> g1 = g_init /\ fst x1 = fst x2 /\ snd x2 = g2).

Lemma obs_dec_rel g1 g2 t1 t2 : gwf g1 -> gwf g2 -> tout_rel (dres_rel g1 g2) t1 t2 ->
  call_rel g1 g2 (obs_dec g1 t1) (obs_dec g2 t2).
Proof.
  intros W1 W2 H. destruct t1 as [r1|w1|], t2 as [r2|w2|]; cbn [tout_rel] in H; try contradiction.
  - destruct H as (A & B & C & D & E & F & G & T1 & T2). unfold call_rel, obs_dec; cbn [fst snd obs_sim].
    split; [auto|]. split; [exact F|]. split; [exact G|]. split.
    + intro X. destruct (T1 X) as (X1 & X2 & X3). split; [exact X1|]. split; [|exact X3]. rewrite A, B, C, X2. reflexivity.
    + intro X. destruct (T2 X) as (X1 & X2 & X3). split; [exact X1|]. split; [|exact X3]. rewrite A, B, C, X2. reflexivity.
  - subst w2. unfold call_rel, obs_dec; cbn [fst snd obs_sim]. intuition.
  - unfold call_rel, obs_dec; cbn [fst snd obs_sim]. intuition.
Qed.

Lemma obs_chain_rel g1 g2 t1 t2 : gwf g1 -> gwf g2 -> tout_rel (cres_rel g1 g2 [] []) t1 t2 ->
  call_rel g1 g2 (obs_chain g1 t1) (obs_chain g2 t2).
Proof.
  intros W1 W2 H. destruct t1 as [r1|w1|], t2 as [r2|w2|]; cbn [tout_rel] in H; try contradiction.
  - destruct H as (A & B & C & D & F & G & T1 & T2). unfold call_rel, obs_chain; cbn [fst snd obs_sim].
    split; [auto|]. split; [exact F|]. split; [exact G|]. split.
    + intro X. destruct (T1 X) as (X1 & X2 & X3). split; [exact X1|]. split; [|exact X3]. rewrite A, B, (X2 eq_refl). reflexivity.
    + intro X. destruct (T2 X) as (X1 & X2 & X3). split; [exact X1|]. split; [|exact X3]. rewrite A, B, (X2 eq_refl). reflexivity.
  - subst w2. unfold call_rel, obs_chain; cbn [fst snd obs_sim]. intuition.
  - unfold call_rel, obs_chain; cbn [fst snd obs_sim]. intuition.
Qed.

Theorem run_call_rel c g1 g2 : gwf g1 -> gwf g2 -> call_rel g1 g2 (run_call g1 c) (run_call g2 c).
Proof.
  intros W1 W2. destruct c; cbn [run_call].
  - apply obs_dec_rel; try assumption. apply decode_rel; assumption.
  - apply obs_chain_rel; try assumption. apply decode_chained_rel; try assumption. constructor.
  - apply obs_dec_rel; try assumption. apply decode_rel; assumption.
  - apply obs_dec_rel; try assumption. apply decode_rel; assumption.
  - apply obs_dec_rel; try assumption. apply decode_rel; assumption.
  - unfold call_rel; cbn [fst snd obs_sim]. intuition.
Qed.

(* (1) a call without compressed_speed_distance source returns, after any
   history that left the distance accumulator nil, what it returns in a fresh
   process; and it leaves the distance accumulator nil *)
Theorem decode_history_free c g : gwf g -> g_dist g = None -> no_distance_source c ->
  fst (run_call g c) = fresh c /\ g_dist (snd (run_call g c)) = None /\ gwf (snd (run_call g c)).
Proof.
  intros W D H. destruct (run_call_rel c g_init g gwf_init W) as (_ & _ & Wb & T1 & _).
  destruct (T1 H) as (_ & E & G). split; [symmetry; exact E|]. split; [rewrite G; exact D|exact Wb].
Qed.

(* (2) lifted to arbitrary call histories *)
Lemma history_free_from cs : Forall no_distance_source cs -> forall g, gwf g -> g_dist g = None ->
  run_history g cs = map fresh cs.
Proof.
  induction 1 as [|c r Hc Hr IH]; intros g W D; cbn [run_history map]; [reflexivity|].
  destruct (decode_history_free c g W D Hc) as (E & D' & W'). rewrite E. f_equal. apply IH; assumption.
Qed.

Theorem history_free cs : Forall no_distance_source cs -> run_history g_init cs = map fresh cs.
Proof. intro H. apply history_free_from; [exact H|exact gwf_init|reflexivity]. Qed.

(* the k-th call of a history *)
Corollary history_free_nth cs k c : Forall no_distance_source cs -> nth_error cs k = Some c ->
  nth_error (run_history g_init cs) k = Some (fresh c).
Proof. intros H E. rewrite (history_free cs H). apply map_nth_error. exact E. Qed.

(* unconditionally: whatever the history, the outcome class, error, header,
   reader position and every non-record message are those of the fresh call *)
Lemma history_control_from cs : forall g, gwf g -> Forall2 obs_sim (map fresh cs) (run_history g cs).
Proof.
  induction cs as [|c r IH]; intros g W; cbn [run_history map]; constructor.
  - destruct (run_call_rel c g_init g gwf_init W) as (S & _). exact S.
  - apply IH. destruct (run_call_rel c g_init g gwf_init W) as (_ & _ & Wb & _). exact Wb.
Qed.
Theorem history_control_free cs : Forall2 obs_sim (map fresh cs) (run_history g_init cs).
Proof. apply history_control_from. exact gwf_init. Qed.

(* a call that reaches no accumulating expansion neither changes the
   accumulators nor depends on them (the basis of C09) *)
Theorem call_untouched c g : gwf g -> no_accumulated_source c -> run_call g c = (fresh c, g).
Proof.
  intros W H. destruct (run_call_rel c g_init g gwf_init W) as (_ & _ & _ & _ & T2).
  destruct (T2 H) as (_ & E & G). unfold fresh. rewrite E. rewrite <- G at 3. destruct (run_call g c); reflexivity.
Qed.

(* (4) Encode is a function of the File and the byte order alone *)
Theorem encode_deterministic f be g1 g2 :
  fst (run_call g1 (CEncode f be)) = fst (run_call g2 (CEncode f be)) /\ snd (run_call g1 (CEncode f be)) = g1.
Proof. split; reflexivity. Qed.

(* ------------------------------------------------------------- witnesses *)
(* a 42-byte activity file: file_id, then two record messages carrying
   compressed_speed_distance (raw distances 50 and 100) *)
Definition csd_stream : list N :=
  [12; 16; 92; 8; 28; 0; 0; 0; 46; 70; 73; 84; 64; 0; 0; 0; 0; 1; 0; 1; 0; 0; 4; 65; 0; 0; 20; 0; 1; 8; 3; 13;
   1; 16; 32; 3; 1; 16; 64; 6; 98; 175].
Definition csd_call : call := CDecode no_opts (mk_reader csd_stream [] TEOF false 0) 100.

(* the same file with the compressed_speed_distance bytes all 0xFF (invalid) *)
Definition plain_stream : list N :=
  [12; 16; 92; 8; 28; 0; 0; 0; 46; 70; 73; 84; 64; 0; 0; 0; 0; 1; 0; 1; 0; 0; 4; 65; 0; 0; 20; 0; 1; 8; 3; 13;
   1; 255; 255; 255; 1; 255; 255; 255; 190; 157].
Definition plain_call : call := CDecode no_opts (mk_reader plain_stream [] TEOF false 0) 100.

(* Distance of the record messages of a decoded activity *)
Definition record_distances (o : obs) : list N :=
  match o with
  | ODec _ _ (Some f) _ =>
      flat_map (fun sl => flat_map (fun m => if m_num m =? c_MesgNumRecord then [uval (fld m "Distance")] else []) sl) (f_slots f)
  | _ => []
  end.
Definition obs_ok (o : obs) : bool := match o with ODec None _ (Some _) _ => true | _ => false end.

Lemma csd_fresh_distances : obs_ok (fresh csd_call) = true /\ record_distances (fresh csd_call) = [50; 100].
Proof. split; vm_compute; reflexivity. Qed.
Lemma csd_second_distances :
  record_distances (fst (run_call (snd (run_call g_init csd_call)) csd_call)) = [4146; 4196].
Proof. vm_compute. reflexivity. Qed.

(* (3) the full statement fails: the second decode of csd_call in a process differs from the first *)
Theorem history_dependence_refuted :
  exists c, run_history g_init [c; c] <> map fresh [c; c] /\ no_distance_sourceb c = false.
Proof.
  exists csd_call. split.
  - cbn [run_history map]. intro H.
    apply (f_equal (fun l => match l with [_; o] => record_distances o | _ => [] end)) in H.
    cbv beta iota in H. cbn [fst snd] in H. rewrite csd_second_distances in H.
    destruct csd_fresh_distances as [_ E]. rewrite E in H. discriminate H.
  - vm_compute. reflexivity.
Qed.

(* the side conditions are satisfiable by a file that decodes without error and holds record messages *)
Lemma plain_call_ok : no_accumulated_sourceb plain_call = true /\ no_distance_sourceb plain_call = true /\
  obs_ok (fresh plain_call) = true /\ List.length (record_distances (fresh plain_call)) = 2%nat.
Proof. split; [|split; [|split]]; vm_compute; reflexivity. Qed.

(* two record messages carrying cycles (5, 9) and no compressed_speed_distance: inside the domain of
   history_free (total_cycles is always 0: mask 0), outside that of C09's noninterference *)
Definition cycles_stream : list N :=
  [12; 16; 92; 8; 24; 0; 0; 0; 46; 70; 73; 84; 64; 0; 0; 0; 0; 1; 0; 1; 0; 0; 4; 65; 0; 0; 20; 0; 1; 18; 1; 2;
   1; 5; 1; 9; 150; 215].
Definition cycles_call : call := CDecode no_opts (mk_reader cycles_stream [] TEOF false 0) 100.
Lemma cycles_call_ok : no_distance_sourceb cycles_call = true /\ no_accumulated_sourceb cycles_call = false /\
  obs_ok (fresh cycles_call) = true /\ touched cycles_call = [LCycles] /\ touched csd_call = [LDist].
Proof. split; [|split; [|split; [|split]]]; vm_compute; reflexivity. Qed.

Lemma no_accumulated_sourceb_spec c : no_accumulated_sourceb c = true <-> no_accumulated_source c.
Proof.
  unfold no_accumulated_sourceb, no_accumulated_source. destruct (snd (run_call g_init c)) as [[a|] [b|] [d|]]; unfold g_init;
    split; intro H; try discriminate H; reflexivity.
Qed.
Lemma no_distance_sourceb_spec c : no_distance_sourceb c = true <-> no_distance_source c.
Proof.
  unfold no_distance_sourceb, no_distance_source. destruct (g_dist (snd (run_call g_init c))); split; intro H; try discriminate H; reflexivity.
Qed.
