(* C07: Encode's output passes CheckIntegrity.
     1. CheckIntegrity accepts every framed byte string (header, data of the
        announced size, CRC-16 trailer), whatever follows it, for any reader schedule
     2. what Encode writes for a well-formed File is such a frame
     3. the header of a File that Decode returned satisfies what Encode needs, so
        a decoded File that Encode accepts yields bytes CheckIntegrity accepts *)
From Coq Require Import NArith ZArith List Bool Lia String.
From FitV Require Import Model.Values Model.Bytes Model.Base Model.Profile Model.Reflect Model.Components Model.Route
  Model.Crc Model.Header Model.IO Model.Decode Model.Encode Spec.RoundTrip Spec.RouteSpec
  Spec.CrcSpec Proofs.CrcProofs Proofs.EncodeProofs Proofs.IOSim Proofs.C10IO Proofs.StreamDenoteDefs Proofs.StreamDenoteFrame Proofs.StreamDenoteDecode
  Proofs.C06Lay Proofs.C06Recs Proofs.C07Reencode Proofs.C07DecodeWf Gen.Consts.
Import ListNotations.
Local Open Scope N_scope.

(* ================================================================ 1. CheckIntegrity on a frame *)
Theorem check_integrity_frame_full : forall g rd fuel h data extra,
  header_wf h -> h_dsize h = N.of_nat (List.length data) -> is_bytes data ->
  rd_data rd = frame_bytes h data ++ extra ->
  (List.length (rd_data rd) + List.length (rd_sched rd) < fuel)%nat ->
  exists rd',
    entry_CheckIntegrity false g rd fuel =
      TDone (mk_dres None h (Some (set_crc (new_file h) (file_crc h data))) rd' g []) /\
    rd_data rd' = extra /\ rd_pos rd' = (rd_pos rd + List.length (frame_bytes h data))%nat.
Proof.
  intros g rd fuel h data extra Hwf Hds Hb Hd Hf.
  pose proof (frame_bytes_length h data Hwf) as Hfl.
  pose proof (hdr_bytes_length h Hwf) as Hhl.
  pose proof (frame_residue h data Hwf Hb) as Hres.
  pose proof (file_crc_lt h data Hwf Hb) as Hclt.
  unfold frame_bytes in Hd. rewrite <- !app_assoc in Hd.
  destruct (decode_header_ok h fuel rd (data ++ put_le16 (file_crc h data) ++ extra) Hwf Hd Hf)
    as (rd1 & DH & D1 & T1 & E1 & P1 & M1).
  assert (Hlim : N.to_nat (h_dsize h) = List.length data) by (rewrite Hds; apply Nat2N.id).
  assert (Hf1 : wf rd1 fuel) by (unfold wf; lia).
  destruct (io_copy_n_spec fuel rd1 (List.length data) Hf1) as (rd2 & CP & Hadv).
  rewrite D1 in CP. rewrite firstn_app_exact in CP. unfold cp_err in CP.
  replace (Nat.leb (List.length data) (List.length (data ++ put_le16 (file_crc h data) ++ extra))) with true in CP
    by (symmetry; apply Nat.leb_le; rewrite app_length; lia).
  destruct Hadv as [A1 A2 A3 A4 A5]. rewrite D1 in A1, A4.
  assert (D2 : rd_data rd2 = put_le16 (file_crc h data) ++ extra).
  { rewrite A1. apply skipn_len_app. }
  assert (Hf2 : (List.length (rd_data rd2) + List.length (rd_sched rd2) < fuel)%nat).
  { rewrite D2. rewrite D1, app_length in M1. lia. }
  destruct (check_crc_ok_full fuel rd2 (crc_write (crc_write crc_new (hdr_bytes h)) data) (new_file h)
              (file_crc h data mod 256) ((file_crc h data / 256) mod 256) extra D2 Hf2 Hres)
    as (rd3 & R3 & P3 & D3 & _).
  exists rd3. split; [|split; [exact D3|]].
  - unfold entry_CheckIntegrity, decode. rewrite DH. cbv beta iota zeta. rewrite Hlim, CP, R3.
    change [file_crc h data mod 256; (file_crc h data / 256) mod 256] with (put_le16 (file_crc h data)).
    rewrite (le16_put_le16 _ Hclt). reflexivity.
  - rewrite P3, A4, P1, Hfl, Hhl. rewrite app_length. lia.
Qed.

Theorem check_integrity_frame : forall g rd fuel h data extra,
  header_wf h -> h_dsize h = N.of_nat (List.length data) -> is_bytes data ->
  rd_data rd = frame_bytes h data ++ extra ->
  (List.length (rd_data rd) + List.length (rd_sched rd) < fuel)%nat ->
  exists r, entry_CheckIntegrity false g rd fuel = TDone r /\ dr_err r = None.
Proof.
  intros g rd fuel h data extra Hwf Hds Hb Hd Hf.
  destruct (check_integrity_frame_full g rd fuel h data extra Hwf Hds Hb Hd Hf) as (rd' & H & _).
  eexists. split; [exact H|reflexivity].
Qed.

(* ================================================================ 2. Encode writes a frame *)
Theorem encode_integrity : forall f be bs f' g rd fuel extra,
  wf_file f = true -> wf_header (f_header f) = true ->
  proto_ok (h_proto (f_header f)) = true -> h_profile (f_header f) < 65536 ->
  encode f be = EOk (bs, f') -> N.of_nat (List.length bs) < 4294967296 ->
  rd_data rd = bs ++ extra ->
  (List.length (rd_data rd) + List.length (rd_sched rd) < fuel)%nat ->
  exists r, entry_CheckIntegrity false g rd fuel = TDone r /\ dr_err r = None.
Proof.
  intros f be bs f' g rd fuel extra Hwf Hh Hpo Hpr Henc Hlen Hd Hf.
  destruct (encode_is_serialize_recs f be bs f' Hwf Hh Hpo Hpr Henc Hlen) as (Hbs & Hhw & Hds & _ & Hswf & _).
  unfold fit_file in Hbs. rewrite Hbs in Hd.
  eapply check_integrity_frame; [exact Hhw|exact Hds| |exact Hd|exact Hf].
  apply all_bytes_is_bytes, stream_wf_bytes, Hswf.
Qed.

(* ================================================================ 3. the header of a decoded File *)
Lemma io_read_full_acc_bytes : forall fuel r n acc bs e r', bytes_lt acc -> bytes_lt (rd_data r) ->
  io_read_full fuel r n acc = Done (bs, e, r') -> bytes_lt bs.
Proof.
  induction fuel as [|f IH]; intros r n acc bs e r' Ha Hb; cbn [io_read_full].
  - destruct (Nat.leb n (List.length acc)); [|discriminate]. intros H; inversion H; subst. exact Ha.
  - destruct (Nat.leb n (List.length acc)); [intros H; inversion H; subst; exact Ha|].
    destruct (rd_read r (n - List.length acc)) as [[bs1 e1] r1] eqn:Er.
    destruct (rd_read_bytes _ _ _ _ _ Hb Er) as [Hb1 Hr1].
    assert (Ha' : bytes_lt (acc ++ bs1)) by (apply Forall_app; now split).
    destruct e1 as [t|]; [|intros H; eapply IH; eassumption].
    destruct (Nat.leb n (List.length (acc ++ bs1))); intros H; inversion H; subst; exact Ha'.
Qed.

Lemma list_eqb_true a b : list_eqb a b = true -> a = b.
Proof. unfold list_eqb. destruct (list_eq_dec N.eq_dec a b); [auto|discriminate]. Qed.

(* what decodeHeader has checked, or what follows from the header being bytes *)
Theorem decode_header_facts fuel rd h crc rd1 : bytes_lt (rd_data rd) ->
  decode_header fuel rd = Done (None, h, crc, rd1) ->
  wf_header h = true /\ proto_ok (h_proto h) = true /\ h_profile h < 65536.
Proof.
  intros Hb. unfold decode_header.
  destruct (io_read_full fuel rd 1 []) as [[[bs1 e1] r1]|] eqn:E1; [|discriminate].
  pose proof (io_read_full_bytes _ _ _ _ _ _ _ Hb E1) as H1.
  destruct e1; [discriminate|]. cbv zeta.
  destruct ((hd 0 bs1 =? c_headerSizeCRC) || (hd 0 bs1 =? c_headerSizeNoCRC)) eqn:Esz; cbn [negb]; [|discriminate].
  destruct (io_read_full fuel r1 _ []) as [[[t e2] r2]|] eqn:E2; [|discriminate].
  pose proof (io_read_full_acc_bytes _ _ _ _ _ _ _ (Forall_nil _) H1 E2) as Ht.
  destruct e2; [discriminate|].
  destruct (proto_ok (b_at t 0)) eqn:Epo; cbn [negb]; [|discriminate].
  destruct (list_eqb (firstn 4 (skipn 7 t)) fit_dtype) eqn:Edt; cbn [negb]; [|discriminate].
  assert (Hsz : ((hd 0 bs1 =? 12) || (hd 0 bs1 =? 14)) = true).
  { apply orb_true_iff in Esz as [E|E]; apply N.eqb_eq in E; rewrite E; reflexivity. }
  assert (Hpr : b_at t 0 < 256) by (apply b_at_lt, Ht).
  assert (Hpf : le16 (firstn 2 (skipn 1 t)) < 65536).
  { assert (Hb2 : bytes_lt (firstn 2 (skipn 1 t))) by (apply bytes_lt_firstn, bytes_lt_skipn, Ht).
    pose proof (b_at_lt _ 0 Hb2). pose proof (b_at_lt _ 1 Hb2). unfold le16. lia. }
  assert (Hall : forall c, wf_header (mk_header (hd 0 bs1) (b_at t 0) (le16 (firstn 2 (skipn 1 t)))
                                     (le32 (firstn 4 (skipn 3 t))) (firstn 4 (skipn 7 t)) c) = true).
  { intros c. unfold wf_header. cbn [h_size h_proto h_dtype]. rewrite Hsz, Edt. cbn [andb].
    rewrite andb_true_r. now apply N.ltb_lt. }
  cbn [h_proto h_profile h_dsize].
  repeat match goal with |- (if ?c then _ else _) = _ -> _ => destruct c end;
    intros H; inversion H; subst; (split; [apply Hall|split; [exact Epo|exact Hpf]]).
Qed.

(* ---- Decode keeps the header it decoded in the File *)
Definition rh (s s' : dstate) : Prop := f_header (ds_file s') = f_header (ds_file s).

Lemma fg_rh s s' : fg s' = fg s -> rh s s'.
Proof. unfold fg, rh. intros H. assert (Hf : ds_file s' = ds_file s) by congruence. now rewrite Hf. Qed.

Lemma rh_trans s1 s2 s3 : rh s1 s2 -> rh s2 s3 -> rh s1 s3.
Proof. unfold rh. congruence. Qed.

Lemma file_add_header f g m f' g' : file_add f g m = AddOk f' g' -> f_header f' = f_header f.
Proof.
  unfold file_add. destruct (f_inited f).
  - destruct (apply_routes _ m (f_slots f) g) as [[sl g1]|]; [|discriminate]. intros H; inversion H. reflexivity.
  - destruct (common_routes (m_num m)); [discriminate|].
    destruct (apply_routes _ m (f_slots f) g) as [[sl g1]|]; [|discriminate]. intros H; inversion H. reflexivity.
Qed.

Lemma file_init_header f f' : file_init f = Some f' -> f_header f' = f_header f.
Proof.
  unfold file_init. destruct (ft_entry (file_type f)) as [[[ok cn] sl]|]; [|discriminate].
  destruct ok; [|discriminate]. intros H. apply some_inj in H. subst f'. reflexivity.
Qed.

Lemma add_msg_rh m s : wps (add_msg m) (fun _ s' => rh s s') s.
Proof.
  unfold add_msg. cbn [get_st bind wps].
  destruct (file_add (ds_file s) (ds_g s) m) as [f' g'|w] eqn:Ea; [|exact I].
  cbn [put_st wps]. unfold rh. cbn [with_file ds_file]. eapply file_add_header, Ea.
Qed.

Lemma store_rh (om : option msg) s0 s1 : fg s1 = fg s0 ->
  wps (match om with Some m => add_msg m | None => Ret tt end) (fun _ s' => rh s0 s') s1.
Proof.
  intros Hfg. destruct om as [m|].
  - eapply wps_mono; [|apply add_msg_rh]. intros ? s' H. cbv beta in *.
    eapply rh_trans; [apply fg_rh, Hfg|exact H].
  - cbn [wps]. now apply fg_rh.
Qed.

Lemma parse_record_rh o s : wps (parse_record o) (fun _ s' => rh s s') s.
Proof.
  unfold parse_record. cbn [read_byte bind wps]. intros b _.
  destruct (_ =? c_compressedHeaderMask).
  { eapply wps_seq; [apply parse_data_message_fg|]. intros om s1 Hfg. now apply store_rh. }
  destruct (_ =? c_mesgDefinitionMask).
  { eapply wps_seq; [apply parse_definition_message_fg|]. intros dm s1 Hfg. cbv beta in Hfg.
    unfold set_def. cbn [get_st put_st bind wps]. eapply rh_trans; [apply fg_rh, Hfg|apply fg_rh; reflexivity]. }
  destruct (_ =? c_mesgHeaderMask); [|exact I].
  eapply wps_seq; [apply parse_data_message_fg|]. intros om s1 Hfg. now apply store_rh.
Qed.

Lemma parse_file_id_msg_rh o s : wps (parse_file_id_msg o) (fun _ s' => rh s s') s.
Proof.
  unfold parse_file_id_msg. cbn [read_byte bind wps]. intros b _.
  destruct (negb _); [exact I|].
  eapply wps_seq; [apply parse_definition_message_fg|]. intros dm s1 Hfg1. cbv beta in Hfg1.
  destruct (negb _); [exact I|].
  unfold set_def. cbn [get_st put_st bind wps]. intros b2 _. destruct (negb _); [exact I|].
  eapply wps_seq; [apply parse_data_message_fg|]. intros om s3 Hfg3. cbv beta in Hfg3.
  destruct om as [m|]; [|exact I]. destruct (m_num m =? c_MesgNumFileId); [|exact I].
  eapply wps_mono; [|apply add_msg_rh]. intros ? s' H. cbv beta in *.
  eapply rh_trans; [apply fg_rh, Hfg1|]. eapply rh_trans; [|exact H].
  eapply rh_trans; [|apply fg_rh, Hfg3]. apply fg_rh. reflexivity.
Qed.

Lemma decode_file_data_rh o : forall fuel s, wps (decode_file_data o fuel) (fun _ s' => rh s s') s.
Proof.
  induction fuel as [|f IH]; intros s; cbn [decode_file_data]; [exact I|].
  cbn [wps]. intros [|]; [|reflexivity].
  eapply wps_seq; [apply parse_record_rh|]. intros ? s1 H1. cbv beta in H1.
  eapply wps_mono; [|apply IH]. intros ? s' H. cbv beta in *. eapply rh_trans; eassumption.
Qed.

Lemma data_prog_rh o fuel s : wps (data_prog o false fuel) (fun _ s' => rh s s') s.
Proof.
  unfold data_prog. eapply wps_seq; [apply parse_file_id_msg_rh|]. intros ? s1 H1. cbv beta in H1.
  unfold do_init. cbn [get_st bind wps].
  destruct (file_init (ds_file s1)) as [f'|] eqn:Ef; [|exact I]. cbn [put_st bind wps].
  eapply wps_mono; [|apply decode_file_data_rh]. intros ? s' H. cbv beta in *.
  eapply rh_trans; [exact H1|]. eapply rh_trans; [|exact H]. unfold rh. cbn [with_file ds_file].
  eapply file_init_header, Ef.
Qed.

Lemma check_crc_header fuel rd crc f e f' rd' : check_crc fuel rd crc f = Done (e, f', rd') -> f_header f' = f_header f.
Proof.
  unfold check_crc. destruct (io_read_full fuel rd 2 []) as [[[bs e1] r1]|]; [|discriminate].
  destruct e1; [intros H; inversion H; subst; reflexivity|]. cbv zeta.
  destruct (negb _); intros H; inversion H; subst; reflexivity.
Qed.

Lemma tdone_hdr_file e h f rd g q e' h' f' rd' g' q' :
  TDone (mk_dres e h (Some f) rd g q) = TDone (mk_dres e' h' (Some f') rd' g' q') -> h = h' /\ f = f'.
Proof. intros H. inversion H. auto. Qed.

(* the File Decode returns carries the decoded header, and that header has what Encode needs *)
Theorem decode_file_header : forall o g rd fuel h file' rd' g' q,
  Forall (fun b => b < 256) (rd_data rd) ->
  entry_Decode o g rd fuel = TDone (mk_dres None h (Some file') rd' g' q) ->
  f_header file' = h /\ wf_header h = true /\ proto_ok (h_proto h) = true /\ h_profile h < 65536.
Proof.
  intros o g rd fuel h file' rd' g' q Hb. fold (bytes_lt (rd_data rd)) in Hb.
  unfold entry_Decode, decode.
  destruct (decode_header fuel rd) as [[[[e h0] crc] rd1]|] eqn:Eh; [|discriminate].
  destruct e as [e|]; [discriminate|]. cbv zeta.
  pose proof (decode_header_bytes _ _ _ _ _ _ Hb Eh) as Hb1.
  pose proof (decode_header_facts _ _ _ _ _ Hb Eh) as Hfacts.
  destruct (run_c _ _ _) as [u c s|e c s|e c s|w|] eqn:Er; try discriminate.
  assert (Hc0 : cinv (mk_cst rd1 [] 0 (N.to_nat (h_dsize h0)) crc fuel)) by (split; [constructor|exact Hb1]).
  destruct (wps_sound_c _ _ _ _ _ _ _
              (data_prog_rh o (S (N.to_nat (h_dsize h0))) (init_dstate (new_file h0) g)) Hc0 Er) as [Hrh _].
  unfold rh in Hrh. cbn [init_dstate ds_file new_file f_header] in Hrh.
  destruct (negb _); [discriminate|].
  destruct (check_crc fuel (c_rd c) (c_crc c) (ds_file s)) as [[[e f] rd3]|] eqn:Ec; [|discriminate].
  pose proof (check_crc_header _ _ _ _ _ _ _ Ec) as Hh.
  intros H. apply tdone_hdr_file in H as [<- <-]. split; [|exact Hfacts].
  unfold finalize_unknown, with_file. cbn [ds_file f_header]. congruence.
Qed.

(* C07: a File Decode returned (FileId.Type still naming its container), once
   Encode accepts it, yields bytes that CheckIntegrity accepts, whatever follows
   them and however the reader cuts them *)
Theorem reencode_integrity : forall o g rd fuel h file' rd' g' q be bs f'' g2 rd2 fuel2 extra,
  Forall (fun b => b < 256) (rd_data rd) ->
  entry_Decode o g rd fuel = TDone (mk_dres None h (Some file') rd' g' q) ->
  f_inited file' = Some (file_type file') ->
  encode file' be = EOk (bs, f'') -> N.of_nat (List.length bs) < 4294967296 ->
  rd_data rd2 = bs ++ extra ->
  (List.length (rd_data rd2) + List.length (rd_sched rd2) < fuel2)%nat ->
  exists r, entry_CheckIntegrity false g2 rd2 fuel2 = TDone r /\ dr_err r = None.
Proof.
  intros o g rd fuel h file' rd' g' q be bs f'' g2 rd2 fuel2 extra Hb Hd Hi Henc Hlen Hd2 Hf2.
  destruct (decode_file_header _ _ _ _ _ _ _ _ _ Hb Hd) as (Hh & Hwh & Hpo & Hpr).
  assert (Hwf : wf_file file' = true) by (eapply decode_wf; [exact Hb|exact Hd|exact Hi|reflexivity]).
  rewrite <- Hh in Hwh, Hpo, Hpr.
  eapply encode_integrity; eassumption.
Qed.

(* the same from the File side: Encode either fails with the UTF-8 error or writes bytes CheckIntegrity accepts *)
Theorem reencode_total_integrity : forall o g rd fuel h file' rd' g' q be,
  Forall (fun b => b < 256) (rd_data rd) ->
  entry_Decode o g rd fuel = TDone (mk_dres None h (Some file') rd' g' q) ->
  f_inited file' = Some (file_type file') ->
  encode file' be = EErr EEString \/
  exists bs f'', encode file' be = EOk (bs, f'') /\
    (N.of_nat (List.length bs) < 4294967296 ->
     forall g2 rd2 fuel2 extra, rd_data rd2 = bs ++ extra ->
       (List.length (rd_data rd2) + List.length (rd_sched rd2) < fuel2)%nat ->
       exists r, entry_CheckIntegrity false g2 rd2 fuel2 = TDone r /\ dr_err r = None).
Proof.
  intros o g rd fuel h file' rd' g' q be Hb Hd Hi.
  destruct (decode_reencode o g rd fuel h file' rd' g' q be Hb Hd Hi) as [[[bs f''] He]|He]; [right|left; exact He].
  exists bs, f''. split; [exact He|]. intros Hlen g2 rd2 fuel2 extra Hd2 Hf2.
  eapply reencode_integrity; eassumption.
Qed.

(* non-vacuity: decode StreamDenoteDecode.ok_reader, encode the File (both byte orders), check the bytes *)
Example reencode_integrity_example :
  forallb (fun be : bool =>
    match entry_Decode no_opts g_init ok_reader 200 with
    | TDone r =>
        match dr_err r, dr_file r with
        | None, Some f =>
            match encode f be with
            | EOk (bs, _) =>
                match entry_CheckIntegrity false g_init (mk_reader (bs ++ [7; 7]) [2; 0; 5]%nat TEOF true 0) (10 + List.length bs) with
                | TDone r2 => match dr_err r2 with None => Nat.ltb 0 (List.length bs) | Some _ => false end
                | _ => false
                end
            | _ => false
            end
        | _, _ => false
        end
    | _ => false
    end) [false; true] = true.
Proof. vm_compute. reflexivity. Qed.
