(* The buffered reader of reader.go (4096-byte buffer, fill capped by limit - n,
   chunked io.Reader with empty reads, EOF or fault, data-with-EOF) simulates
   the abstract byte-list interpreter, for EVERY decoder program: one lemma
   gives chunking independence (C10), the error on truncation/fault (C11) and
   the absence of OutOfFuel at the I/O layer (C01). *)
From Coq Require Import NArith List Bool Arith Lia.
From FitV Require Import Model.Crc Model.IO Proofs.CrcProofs.
Import ListNotations.

(* [all] is the data the reader held when the buffered phase started, [pos0]
   its position then, [crc0] the checksum register then *)
Record Rel (all : list N) (pos0 : nat) (crc0 : N) (c : cst) (a : ast) : Prop := {
  r_rest : a_rest a = c_buf c ++ rd_data (c_rd c);
  r_all : all = firstn (a_n a) all ++ a_rest a;
  r_len : length (firstn (a_n a) all) = a_n a;
  r_term : a_term a = rd_term (c_rd c);
  r_n : a_n a = c_n c;
  r_limit : a_limit a = c_limit c;
  r_bound : c_n c + length (c_buf c) <= c_limit c;
  r_fuel : length (rd_data (c_rd c)) + length (rd_sched (c_rd c)) < c_fuel c;
  r_pos : rd_pos (c_rd c) = pos0 + c_n c + length (c_buf c);
  r_crc : c_crc c = crc_write crc0 (firstn (c_n c + length (c_buf c)) all)
}.

(* what is known about the concrete state when a buffered primitive fails *)
Record ErrRel (all : list N) (pos0 : nat) (c : cst) (a : ast) (e : ioerr) : Prop := {
  e_pos_le : rd_pos (c_rd c) <= pos0 + a_limit a;
  e_pos_all : rd_pos (c_rd c) <= pos0 + length all;
  e_pos_exact : rd_pos (c_rd c) = pos0 + Nat.min (a_limit a) (length all);
  e_kind : e = (if Nat.leb (a_limit a) (length all) then IOBeyond else noEOF (a_term a))
}.

Definition sim {S E A} all pos0 crc0 (rc : result cst S E A) (ra : result ast S E A) : Prop :=
  match rc, ra with
  | ROk x c' s', ROk y a' s'' => x = y /\ s' = s'' /\ Rel all pos0 crc0 c' a'
  | RFail e c' s', RFail e' a' s'' => e = e' /\ s' = s'' /\ Rel all pos0 crc0 c' a'
  | RIOErr e c' s', RIOErr e' a' s'' => e = e' /\ s' = s'' /\ ErrRel all pos0 c' a' e
  | RPanic w, RPanic w' => w = w'
  | _, _ => False
  end.

Lemma firstn_app_exact {A} (l1 l2 : list A) : firstn (length l1) (l1 ++ l2) = l1.
Proof. rewrite firstn_app, Nat.sub_diag, firstn_all. simpl. apply app_nil_r. Qed.

Lemma all_length all c a pos0 crc0 : Rel all pos0 crc0 c a ->
  length all = a_n a + length (c_buf c) + length (rd_data (c_rd c)).
Proof.
  intros H. rewrite (r_all _ _ _ _ _ H) at 1. rewrite app_length, (r_len _ _ _ _ _ H), (r_rest _ _ _ _ _ H), app_length. lia.
Qed.

Lemma firstn_plus {A} (l : list A) n m : firstn (n + m) l = firstn n l ++ firstn m (skipn n l).
Proof.
  revert l; induction n as [|n IH]; intros l; simpl; [reflexivity|].
  destruct l as [|x l]; simpl; [now rewrite firstn_nil|]. now rewrite IH.
Qed.

Lemma skipn_firstn_rest {A} (all : list A) n rest : all = firstn n all ++ rest -> length (firstn n all) = n -> skipn n all = rest.
Proof.
  intros H Hl. rewrite H at 1. rewrite <- Hl at 1. rewrite skipn_app, skipn_all, Nat.sub_diag. reflexivity.
Qed.

Lemma firstn_length_firstn {A} (l : list A) n : firstn (length (firstn n l)) l = firstn n l.
Proof.
  rewrite firstn_length. destruct (Nat.le_ge_cases n (length l)).
  - now rewrite Nat.min_l.
  - rewrite Nat.min_r by assumption. now rewrite firstn_all, firstn_all2.
Qed.

(* ------------------------------------------------------------------ fill *)
Lemma BUFSZ_pos : 1 <= BUFSZ. Proof. apply Nat.leb_le. vm_compute. reflexivity. Qed.

Lemma fill_spec all pos0 crc0 c a : Rel all pos0 crc0 c a -> c_buf c = [] ->
  match fill c with
  | COk _ c' => Rel all pos0 crc0 c' a /\
                length (rd_data (c_rd c')) + length (rd_sched (c_rd c')) <
                length (rd_data (c_rd c)) + length (rd_sched (c_rd c))
  | CErr e c' => ErrRel all pos0 c' a e /\ (a_n a = a_limit a \/ a_rest a = [])
  | CFuel => False
  end.
Proof.
  intros HR He. pose proof (all_length _ _ _ _ _ HR) as Hall. destruct HR as [Hr Ha Hl Ht Hn Hli Hb Hf Hp Hc].
  unfold fill. rewrite He in *. cbn [app length] in *.
  destruct (c_fuel c) as [|f] eqn:Ef; [lia|].
  destruct (Nat.eqb_spec (c_n c) (c_limit c)) as [E|NE].
  - (* n = limit: BEYOND *)
    split; [|left; lia].
    assert (Hle : Nat.leb (a_limit a) (length all) = true) by (apply Nat.leb_le; lia).
    constructor; rewrite ?Hle, ?Hp, ?Hli; try reflexivity; lia.
  - unfold rd_read. destruct (rd_data (c_rd c)) as [|b0 rest0] eqn:Ed.
    + (* reader exhausted *)
      split; [|right; rewrite Hr; reflexivity]. cbn [length] in *.
      assert (Hle : Nat.leb (a_limit a) (length all) = false) by (apply Nat.leb_gt; lia).
      constructor; cbn [c_rd]; rewrite ?Hle, ?Hp, ?Hli, ?Ht; try reflexivity; lia.
    + cbn [length] in Hf, Hall.
      set (k := Nat.min BUFSZ (c_limit c - c_n c)).
      assert (Hk : 1 <= k <= c_limit c - c_n c) by (pose proof BUFSZ_pos; unfold k; lia).
      set (cap := match rd_sched (c_rd c) with [] => k | c0 :: _ => Nat.min c0 k end).
      assert (Hcap : cap <= k) by (unfold cap; destruct (rd_sched (c_rd c)); lia).
      assert (Htl : length (tl (rd_sched (c_rd c))) <= length (rd_sched (c_rd c))) by (destruct (rd_sched (c_rd c)); cbn; lia).
      destruct (firstn cap (b0 :: rest0)) as [|x xs] eqn:Efn.
      * (* empty read *)
        assert (Hc0 : cap = 0) by (destruct cap; [reflexivity|discriminate]).
        assert (Hs : rd_sched (c_rd c) <> []) by (unfold cap in Hc0; destruct (rd_sched (c_rd c)); [lia|discriminate]).
        rewrite Hc0. cbn [skipn].
        assert (Htl2 : length (tl (rd_sched (c_rd c))) < length (rd_sched (c_rd c))) by (destruct (rd_sched (c_rd c)); [congruence|cbn; lia]).
        split; [|cbn [c_rd rd_data rd_sched length]; lia].
        constructor; cbn [c_rd c_buf c_n c_limit c_crc c_fuel rd_data rd_sched rd_term rd_pos app length]; try assumption; try lia.
      * assert (Hlen : length (x :: xs) = Nat.min cap (length (b0 :: rest0))) by (rewrite <- Efn; apply firstn_length).
        assert (Hcap1 : 1 <= cap) by (destruct cap; [discriminate|lia]).
        split.
        -- constructor; cbn [c_rd c_buf c_n c_limit c_crc c_fuel rd_data rd_sched rd_term rd_pos]; try assumption.
           ++ rewrite <- Efn, firstn_skipn. exact Hr.
           ++ rewrite Hlen. lia.
           ++ rewrite skipn_length. cbn [length] in *. lia.
           ++ rewrite Hp. lia.
           ++ rewrite Hc. unfold crc_write. rewrite <- update_app.
              f_equal. rewrite Nat.add_0_r.
              rewrite firstn_plus. f_equal.
              rewrite <- Hn, (skipn_firstn_rest all (a_n a) (a_rest a) Ha Hl), Hr.
              rewrite <- Efn. now rewrite firstn_length_firstn.
        -- cbn [c_rd rd_data rd_sched]. rewrite skipn_length. cbn [length] in *. lia.
Qed.

(* ------------------------------------------------------- a_take facts *)
Definition err_of (limit : nat) (all : list N) (t : term) : ioerr :=
  if Nat.leb limit (length all) then IOBeyond else noEOF t.

Lemma a_take_err all pos0 crc0 c a k e : Rel all pos0 crc0 c a -> a_take k a = inr e ->
  e = err_of (a_limit a) all (a_term a).
Proof.
  intros HR H. pose proof (all_length _ _ _ _ _ HR) as Hall. destruct HR as [Hr Ha Hl Ht Hn Hli Hb Hf Hp Hc].
  unfold a_take in H. destruct (Nat.leb k _); [discriminate|].
  unfold err_of. rewrite Hr, app_length in H.
  destruct (Nat.leb_spec (a_limit a - a_n a) (length (c_buf c) + length (rd_data (c_rd c)))) as [L|L]; inversion H; subst.
  - replace (Nat.leb (a_limit a) (length all)) with true by (symmetry; apply Nat.leb_le; lia). reflexivity.
  - replace (Nat.leb (a_limit a) (length all)) with false by (symmetry; apply Nat.leb_gt; lia). reflexivity.
Qed.

Lemma ErrRel_limit all pos0 c a a' e : a_limit a = a_limit a' -> a_term a = a_term a' ->
  ErrRel all pos0 c a e -> ErrRel all pos0 c a' e.
Proof. intros H1 H2 [A B C D]. constructor; rewrite <- ?H1, <- ?H2; assumption. Qed.

Definition sim1 all pos0 crc0 (a : ast) (rc : cres N) (ra : list N * ast + ioerr) : Prop :=
  match rc, ra with
  | COk x c', inl (l, a') => l = [x] /\ Rel all pos0 crc0 c' a'
  | CErr e c', inr e' => e = e' /\ ErrRel all pos0 c' a e
  | _, _ => False
  end.

Lemma a_take_1_cons a b r : a_rest a = b :: r -> a_n a < a_limit a ->
  a_take 1 a = inl ([b], mk_ast r (a_term a) (a_n a + 1) (a_limit a)).
Proof.
  intros E H. unfold a_take. rewrite E. cbn [length firstn skipn].
  replace (Nat.leb 1 (Nat.min (a_limit a - a_n a) (S (length r)))) with true by (symmetry; apply Nat.leb_le; lia).
  reflexivity.
Qed.

Lemma a_take_fails a k : 0 < k -> (a_n a = a_limit a \/ a_rest a = []) -> exists e, a_take k a = inr e.
Proof.
  intros Hk H. unfold a_take.
  replace (Nat.leb k _) with false by (symmetry; apply Nat.leb_gt; destruct H as [H|H]; [|rewrite H; cbn [length]]; lia).
  destruct (Nat.leb _ _); eauto.
Qed.

Lemma Rel_step_byte all pos0 crc0 c a b r : Rel all pos0 crc0 c a -> c_buf c = b :: r ->
  Rel all pos0 crc0 (mk_cst (c_rd c) r (c_n c + 1) (c_limit c) (c_crc c) (c_fuel c))
      (mk_ast (r ++ rd_data (c_rd c)) (a_term a) (a_n a + 1) (a_limit a)).
Proof.
  intros HR Eb. pose proof (all_length _ _ _ _ _ HR) as Hall. destruct HR as [Hr Ha Hl Ht Hn Hli Hb Hf Hp Hc].
  rewrite Eb in *. cbn [app length] in *.
  assert (Hsk : skipn (a_n a) all = b :: r ++ rd_data (c_rd c)) by (rewrite <- Hr; now apply skipn_firstn_rest).
  constructor; cbn [a_rest a_term a_n a_limit c_rd c_buf c_n c_limit c_crc c_fuel]; try assumption; try lia.
  - reflexivity.
  - rewrite firstn_plus, Hsk. cbn [firstn]. rewrite <- app_assoc. cbn [app]. rewrite <- Hsk. now rewrite firstn_skipn.
  - rewrite firstn_length. lia.
  - rewrite Hc. f_equal. f_equal. lia.
Qed.

Lemma c_byte_sim all pos0 crc0 : forall iters c a, Rel all pos0 crc0 c a ->
  length (rd_data (c_rd c)) + length (rd_sched (c_rd c)) < iters ->
  sim1 all pos0 crc0 a (c_byte iters c) (a_take 1 a).
Proof.
  induction iters as [|it IH]; intros c a HR Hit; [lia|].
  cbn [c_byte]. destruct (c_buf c) as [|b r] eqn:Eb.
  - pose proof (fill_spec _ _ _ c a HR Eb) as Hf. destruct (fill c) as [u c2|e c2|] eqn:Ef; try contradiction.
    + destruct Hf as [HR2 Hdec]. apply IH; [assumption|lia].
    + destruct Hf as [HE Hwhy]. destruct (a_take_fails a 1 ltac:(lia) Hwhy) as [e' He'].
      rewrite He'. cbn. split; [|assumption].
      rewrite (a_take_err _ _ _ _ _ _ _ HR He'). unfold err_of. exact (e_kind _ _ _ _ _ HE).
  - pose proof HR as HR'. destruct HR' as [Hr Ha Hl Ht Hn Hli Hb Hf Hp Hc]. rewrite Eb in *. cbn [app length] in *.
    rewrite (a_take_1_cons a b (r ++ rd_data (c_rd c))) by (assumption || lia).
    cbn. split; [reflexivity|]. now apply (Rel_step_byte all pos0 crc0 c a b r).
Qed.

Definition simk all pos0 crc0 (a : ast) (acc : list N) (rc : cres (list N)) (ra : list N * ast + ioerr) : Prop :=
  match rc, ra with
  | COk x c', inl (l, a') => x = acc ++ l /\ Rel all pos0 crc0 c' a'
  | CErr e c', inr e' => e = e' /\ ErrRel all pos0 c' a e
  | _, _ => False
  end.

(* consuming the first m buffered bytes *)
Lemma Rel_step_buf all pos0 crc0 c a m : Rel all pos0 crc0 c a -> m <= length (c_buf c) ->
  Rel all pos0 crc0 (mk_cst (c_rd c) (skipn m (c_buf c)) (c_n c + m) (c_limit c) (c_crc c) (c_fuel c))
      (mk_ast (skipn m (c_buf c) ++ rd_data (c_rd c)) (a_term a) (a_n a + m) (a_limit a)).
Proof.
  intros HR Hm. pose proof (all_length _ _ _ _ _ HR) as Hall. destruct HR as [Hr Ha Hl Ht Hn Hli Hb Hf Hp Hc].
  assert (Hsk : skipn (a_n a) all = c_buf c ++ rd_data (c_rd c)) by (rewrite <- Hr; now apply skipn_firstn_rest).
  constructor; cbn [a_rest a_term a_n a_limit c_rd c_buf c_n c_limit c_crc c_fuel]; try assumption; try lia.
  - reflexivity.
  - rewrite firstn_plus, Hsk. rewrite firstn_app. replace (m - length (c_buf c)) with 0 by lia. cbn [firstn].
    rewrite app_nil_r, <- !app_assoc.
    replace (firstn m (c_buf c) ++ skipn m (c_buf c) ++ rd_data (c_rd c)) with (c_buf c ++ rd_data (c_rd c))
      by (rewrite app_assoc, firstn_skipn; reflexivity).
    rewrite <- Hsk. now rewrite firstn_skipn.
  - rewrite firstn_length. lia.
  - rewrite skipn_length. lia.
  - rewrite skipn_length. lia.
  - rewrite Hc, skipn_length. f_equal. f_equal. lia.
Qed.

Lemma c_take_sim all pos0 crc0 : forall iters k acc c a, Rel all pos0 crc0 c a ->
  length (rd_data (c_rd c)) + length (rd_sched (c_rd c)) < iters ->
  simk all pos0 crc0 a acc (c_take iters k acc c) (a_take k a).
Proof.
  induction iters as [|it IH]; intros k acc c a HR Hit; [lia|].
  cbn [c_take]. set (m := Nat.min k (length (c_buf c))).
  set (c1 := mk_cst (c_rd c) (skipn m (c_buf c)) (c_n c + m) (c_limit c) (c_crc c) (c_fuel c)).
  set (a1 := mk_ast (skipn m (c_buf c) ++ rd_data (c_rd c)) (a_term a) (a_n a + m) (a_limit a)).
  assert (HR1 : Rel all pos0 crc0 c1 a1) by (apply Rel_step_buf; [assumption|unfold m; lia]).
  pose proof HR as HR'. destruct HR' as [Hr Ha Hl Ht Hn Hli Hb Hf Hp Hc].
  (* a_take k a in terms of a_take (k - m) a1 *)
  assert (Hat : a_take k a = match a_take (k - m) a1 with
                             | inl (l, a') => inl (firstn m (c_buf c) ++ l, a')
                             | inr e => inr e
                             end).
  { unfold a_take. unfold a1. cbn [a_rest a_term a_n a_limit]. rewrite Hr, !app_length, skipn_length.
    destruct (Nat.leb_spec k (Nat.min (a_limit a - a_n a) (length (c_buf c) + length (rd_data (c_rd c))))) as [L1|L1].
    - replace (Nat.leb (k - m) _) with true by (symmetry; apply Nat.leb_le; unfold m; lia).
      f_equal. f_equal.
      + destruct (Nat.le_ge_cases k (length (c_buf c))) as [Hk|Hk].
        * unfold m. rewrite Nat.min_l by assumption. replace (k - k) with 0 by lia. cbn [firstn]. rewrite app_nil_r.
          rewrite firstn_app. replace (k - length (c_buf c)) with 0 by lia. cbn [firstn]. now rewrite app_nil_r.
        * unfold m. rewrite Nat.min_r by assumption. rewrite firstn_all, skipn_all. cbn [app].
          rewrite firstn_app. rewrite (firstn_all2 (c_buf c)) by lia. reflexivity.
      + f_equal; try lia.
        destruct (Nat.le_ge_cases k (length (c_buf c))) as [Hk|Hk].
        * unfold m. rewrite Nat.min_l by assumption. replace (k - k) with 0 by lia. cbn [skipn].
          rewrite skipn_app. replace (k - length (c_buf c)) with 0 by lia. reflexivity.
        * unfold m. rewrite Nat.min_r by assumption. rewrite skipn_all. cbn [app].
          rewrite skipn_app. rewrite (skipn_all2 (c_buf c)) by lia. reflexivity.
    - replace (Nat.leb (k - m) _) with false by (symmetry; apply Nat.leb_gt; unfold m; lia).
      destruct (Nat.leb_spec (a_limit a - a_n a) (length (c_buf c) + length (rd_data (c_rd c)))) as [L2|L2].
      + replace (Nat.leb (a_limit a - (a_n a + m)) _) with true by (symmetry; apply Nat.leb_le; unfold m; lia). reflexivity.
      + replace (Nat.leb (a_limit a - (a_n a + m)) _) with false by (symmetry; apply Nat.leb_gt; unfold m; lia). reflexivity. }
  destruct (Nat.eqb_spec (k - m) 0) as [E|NE].
  - (* satisfied from the buffer *)
    rewrite Hat, E. unfold a_take, a1. cbn [Nat.leb firstn skipn a_rest a_term a_n a_limit].
    rewrite Nat.add_0_r, app_nil_r. cbn. split; [reflexivity|exact HR1].
  - (* buffer exhausted: m = |buf| < k *)
    assert (Hm : m = length (c_buf c)) by (unfold m; lia).
    assert (Eb1 : c_buf c1 = []) by (unfold c1; cbn; rewrite Hm; apply skipn_all).
    pose proof (fill_spec _ _ _ c1 a1 HR1 Eb1) as Hfs.
    rewrite Hat. clear Hat.
    destruct (fill c1) as [u c2|e c2|] eqn:Ef; try contradiction.
    + destruct Hfs as [HR2 Hdec].
      assert (Hit2 : length (rd_data (c_rd c2)) + length (rd_sched (c_rd c2)) < it) by (unfold c1 in Hdec; cbn in Hdec; lia).
      specialize (IH (k - m) (acc ++ firstn m (c_buf c)) c2 a1 HR2 Hit2). unfold simk in *.
      destruct (c_take it (k - m) (acc ++ firstn m (c_buf c)) c2) as [x c'|e c'|];
        destruct (a_take (k - m) a1) as [[l a']|e']; try contradiction.
      * destruct IH as [-> HR']. split; [now rewrite app_assoc|assumption].
      * destruct IH as [-> HE]. split; [reflexivity|]. eapply ErrRel_limit; [| |exact HE]; reflexivity.
    + destruct Hfs as [HE Hwhy]. destruct (a_take_fails a1 (k - m) ltac:(lia) Hwhy) as [e' He'].
      rewrite He'. cbn. split.
      * rewrite (a_take_err _ _ _ _ _ _ _ HR1 He'). unfold err_of. exact (e_kind _ _ _ _ _ HE).
      * eapply ErrRel_limit; [| |exact HE]; reflexivity.
Qed.

(* ------------------------------------------------------- the simulation *)
Theorem run_sim {S E A} all pos0 crc0 : forall (p : prog S E A) c a s, Rel all pos0 crc0 c a ->
  sim all pos0 crc0 (run_c p c s) (run_a p a s).
Proof.
  induction p as [x|e|w|k IH|n k IH|k IH|k IH|s' k IH]; intros c a s HR; cbn [run_c run_a].
  - cbn. split; [reflexivity|split; [reflexivity|exact HR]].
  - cbn. split; [reflexivity|split; [reflexivity|exact HR]].
  - reflexivity.
  - pose proof (c_byte_sim all pos0 crc0 (Datatypes.S (c_fuel c)) c a HR) as H.
    assert (Hf : length (rd_data (c_rd c)) + length (rd_sched (c_rd c)) < Datatypes.S (c_fuel c))
      by (pose proof (r_fuel _ _ _ _ _ HR); lia).
    specialize (H Hf). unfold sim1 in H.
    destruct (c_byte (Datatypes.S (c_fuel c)) c) as [b c'|e c'|]; destruct (a_take 1 a) as [[l a']|e']; try contradiction.
    + destruct H as [-> HR']. cbn [hd]. now apply IH.
    + destruct H as [-> HE]. cbn. split; [reflexivity|split; [reflexivity|exact HE]].
  - pose proof (c_take_sim all pos0 crc0 (Datatypes.S (c_fuel c)) n [] c a HR) as H.
    assert (Hf : length (rd_data (c_rd c)) + length (rd_sched (c_rd c)) < Datatypes.S (c_fuel c))
      by (pose proof (r_fuel _ _ _ _ _ HR); lia).
    specialize (H Hf). unfold simk in H.
    destruct (c_take (Datatypes.S (c_fuel c)) n [] c) as [x c'|e c'|]; destruct (a_take n a) as [[l a']|e']; try contradiction.
    + destruct H as [-> HR']. cbn [app]. now apply IH.
    + destruct H as [-> HE]. cbn. split; [reflexivity|split; [reflexivity|exact HE]].
  - rewrite <- (r_n _ _ _ _ _ HR), <- (r_limit _ _ _ _ _ HR). now apply IH.
  - now apply IH.
  - now apply IH.
Qed.

(* ------------------------------------------------------- consequences *)

(* the abstract interpreter never changes the limit or the terminal condition *)
Lemma a_take_inv k a l a' : a_take k a = inl (l, a') -> a_limit a' = a_limit a /\ a_term a' = a_term a.
Proof. unfold a_take. destruct (Nat.leb k _); [|destruct (Nat.leb _ _); discriminate]. intros H; inversion H; subst. split; reflexivity. Qed.

Lemma run_a_inv {S E A} : forall (p : prog S E A) a s,
  match run_a p a s with
  | ROk _ a' _ | RFail _ a' _ | RIOErr _ a' _ => a_limit a' = a_limit a /\ a_term a' = a_term a
  | _ => True
  end.
Proof.
  induction p as [x|e|w|k IH|n k IH|k IH|k IH|s' k IH]; intros a s; cbn [run_a]; try (split; reflexivity); try exact I; try apply IH.
  - destruct (a_take 1 a) as [[l a']|e] eqn:Et; [|split; reflexivity].
    destruct (a_take_inv _ _ _ _ Et) as [H1 H2]. specialize (IH (hd 0%N l) a' s).
    destruct (run_a (k (hd 0%N l)) a' s); try exact I; destruct IH; split; congruence.
  - destruct (a_take n a) as [[l a']|e] eqn:Et; [|split; reflexivity].
    destruct (a_take_inv _ _ _ _ Et) as [H1 H2]. specialize (IH l a' s).
    destruct (run_a (k l) a' s); try exact I; destruct IH; split; congruence.
Qed.

(* the state in which decode starts the buffered phase *)
Definition start_c (rd : reader) (limit : nat) (crc : N) (fuel : nat) : cst := mk_cst rd [] 0 limit crc fuel.
Definition start_a (rd : reader) (limit : nat) : ast := mk_ast (rd_data rd) (rd_term rd) 0 limit.

Lemma Rel_start rd limit crc fuel : length (rd_data rd) + length (rd_sched rd) < fuel ->
  Rel (rd_data rd) (rd_pos rd) crc (start_c rd limit crc fuel) (start_a rd limit).
Proof.
  intros Hf. constructor; cbn; try reflexivity; try lia.
Qed.

(* observable outcome of a buffered run: everything but the I/O state *)
Inductive obs (S E A : Type) :=
| OOk (a : A) (s : S) | OFail (e : E) (s : S) | OIOErr (e : ioerr) (s : S) | OPanic (w : N) | OFuel.
Arguments OOk {S E A}. Arguments OFail {S E A}. Arguments OIOErr {S E A}. Arguments OPanic {S E A}. Arguments OFuel {S E A}.
Definition observe {X S E A} (r : result X S E A) : obs S E A :=
  match r with
  | ROk a _ s => OOk a s | RFail e _ s => OFail e s | RIOErr e _ s => OIOErr e s
  | RPanic w => OPanic w | ROutOfFuel => OFuel
  end.

(* C10/C01: for EVERY decoder program, the result of the buffered phase is the
   result of the abstract byte-list interpreter: it does not depend on the
   chunk schedule, on empty reads, on data-with-EOF, or on the fuel (as long as
   there is enough), and fuel is never exhausted *)
Theorem buffered_run_abstract {S E A} (p : prog S E A) rd limit crc fuel s :
  length (rd_data rd) + length (rd_sched rd) < fuel ->
  observe (run_c p (start_c rd limit crc fuel) s) = observe (run_a p (start_a rd limit) s).
Proof.
  intros Hf. pose proof (run_sim (rd_data rd) (rd_pos rd) crc p _ _ s (Rel_start rd limit crc fuel Hf)) as H.
  unfold sim in H.
  destruct (run_c p _ s) as [x c' s'|e c' s'|e c' s'|w|]; destruct (run_a p _ s) as [y a' s''|e' a' s''|e' a' s''|w'|];
    try contradiction; cbn.
  - destruct H as (-> & -> & _). reflexivity.
  - destruct H as (-> & -> & _). reflexivity.
  - destruct H as (-> & -> & _). reflexivity.
  - now subst.
Qed.

Corollary schedule_independent {S E A} (p : prog S E A) data t sched1 sched2 ewd1 ewd2 pos1 pos2 limit crc fuel1 fuel2 s :
  length data + length sched1 < fuel1 -> length data + length sched2 < fuel2 ->
  observe (run_c p (start_c (mk_reader data sched1 t ewd1 pos1) limit crc fuel1) s) =
  observe (run_c p (start_c (mk_reader data sched2 t ewd2 pos2) limit crc fuel2) s).
Proof.
  intros H1 H2. rewrite !buffered_run_abstract by (cbn; assumption). reflexivity.
Qed.

Lemma run_a_no_fuel {S E A} : forall (p : prog S E A) a s, run_a p a s <> ROutOfFuel.
Proof.
  induction p as [x|e|w|k IH|n k IH|k IH|k IH|s' k IH]; intros a s; cbn [run_a]; try discriminate; try apply IH.
  - destruct (a_take 1 a) as [[l a']|e]; [apply IH|discriminate].
  - destruct (a_take n a) as [[l a']|e]; [apply IH|discriminate].
Qed.

Corollary buffered_never_out_of_fuel {S E A} (p : prog S E A) rd limit crc fuel s :
  length (rd_data rd) + length (rd_sched rd) < fuel ->
  run_c p (start_c rd limit crc fuel) s <> ROutOfFuel.
Proof.
  intros Hf Hc. pose proof (buffered_run_abstract p rd limit crc fuel s Hf) as H. rewrite Hc in H. cbn in H.
  pose proof (run_a_no_fuel p (start_a rd limit) s) as Hn.
  destruct (run_a p (start_a rd limit) s); try discriminate. now apply Hn.
Qed.

(* C10: the buffered phase never reads past the frame, whatever the program
   does and however it ends; on success with n = limit it has read exactly
   [limit] bytes and the checksum register covers exactly those bytes *)
Theorem never_past_frame {S E A} (p : prog S E A) rd limit crc fuel s :
  length (rd_data rd) + length (rd_sched rd) < fuel ->
  match run_c p (start_c rd limit crc fuel) s with
  | ROk _ c' _ | RFail _ c' _ => rd_pos (c_rd c') <= rd_pos rd + limit /\
                                 rd_pos (c_rd c') = rd_pos rd + c_n c' + length (c_buf c') /\
                                 c_crc c' = crc_write crc (firstn (c_n c' + length (c_buf c')) (rd_data rd))
  | RIOErr e c' _ => rd_pos (c_rd c') = rd_pos rd + Nat.min limit (length (rd_data rd)) /\
                     e = err_of limit (rd_data rd) (rd_term rd)
  | _ => True
  end.
Proof.
  intros Hf. pose proof (run_sim (rd_data rd) (rd_pos rd) crc p _ _ s (Rel_start rd limit crc fuel Hf)) as H.
  unfold sim in H. pose proof (run_a_inv p (start_a rd limit) s) as Hinv.
  destruct (run_c p _ s) as [x c' s'|e c' s'|e c' s'|w|]; destruct (run_a p _ s) as [y a' s''|e' a' s''|e' a' s''|w'|];
    try contradiction; try exact I.
  - destruct H as (_ & _ & HR). pose proof (r_bound _ _ _ _ _ HR). pose proof (r_pos _ _ _ _ _ HR). pose proof (r_crc _ _ _ _ _ HR).
    pose proof (r_limit _ _ _ _ _ HR) as Hl. destruct Hinv as [Hi _]. cbn in Hi. repeat split; try assumption. lia.
  - destruct H as (_ & _ & HR). pose proof (r_bound _ _ _ _ _ HR). pose proof (r_pos _ _ _ _ _ HR). pose proof (r_crc _ _ _ _ _ HR).
    pose proof (r_limit _ _ _ _ _ HR) as Hl. destruct Hinv as [Hi _]. cbn in Hi. repeat split; try assumption. lia.
  - destruct H as (_ & _ & HE). destruct Hinv as [Hi Ht]. cbn in Hi, Ht. split.
    + rewrite (e_pos_exact _ _ _ _ _ HE), Hi. reflexivity.
    + rewrite (e_kind _ _ _ _ _ HE). unfold err_of. rewrite Hi, Ht. reflexivity.
Qed.
