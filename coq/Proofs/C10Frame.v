(* C10 / C11 for the whole entry points of Model/Decode.v.

   [decode_a] is the decoder over a plain byte list (no reader, no chunk
   schedule, no fuel): a proof device, not part of the trusted model.
   [decode_abs] shows that [decode] over any reader oracle with enough fuel
   computes [decode_a] of the reader's data and terminal condition, and that the
   reader only advances, by exactly [ar_used] bytes on every path where the
   position is determined.  Everything else (exact consumption, never past the
   frame, schedule independence, independence of chained files, truncation and
   faults) is derived from it and from the prefix lemmas of C10IO.v. *)
From Coq Require Import NArith ZArith List Bool Arith Lia.
From FitV Require Import Model.Values Model.Bytes Model.Crc Model.IO Model.Header Model.Route Model.Components
  Model.Decode Gen.Consts Proofs.IOSim Proofs.C10IO.
Import ListNotations.

(* ------------------------------------------------------------ list facts *)
Lemma firstn_firstn_min {A} (l : list A) a b : firstn a (firstn b l) = firstn (Nat.min a b) l.
Proof. apply firstn_firstn. Qed.

Lemma app_eq_len {A} : forall (a a' b b' : list A), a ++ b = a' ++ b' -> length a = length a' -> a = a' /\ b = b'.
Proof.
  induction a as [|x a IH]; intros [|y a'] b b' H Hl; cbn in *; try discriminate; [split; [reflexivity|exact H]|].
  inversion H; subst. destruct (IH a' b b' H2 ltac:(lia)) as [-> ->]. split; reflexivity.
Qed.

Lemma firstn_eq_split {A} (l l' : list A) a b :
  firstn (a + b) l' = firstn (a + b) l -> a + b <= length l -> a + b <= length l' ->
  firstn a l' = firstn a l /\ firstn b (skipn a l') = firstn b (skipn a l).
Proof.
  intros H Hl Hl'. rewrite !firstn_plus in H.
  apply app_eq_len in H; [exact H|].
  rewrite !firstn_length. lia.
Qed.

(* ------------------------------------------------------------ adv facts *)
Lemma adv_exact rd rd' k m : adv rd rd' k -> rd_pos rd' = rd_pos rd + m -> m <= length (rd_data rd) -> adv rd rd' m.
Proof.
  intros [Hd Ht He Hp Hs] Hm Hle. rewrite Hp in Hm.
  assert (Hmin : Nat.min k (length (rd_data rd)) = m) by lia.
  constructor; try assumption.
  - rewrite Hd. destruct (Nat.le_ge_cases k (length (rd_data rd))) as [L|L].
    + rewrite Nat.min_l in Hmin by assumption. now subst.
    + rewrite Nat.min_r in Hmin by assumption. subst m. rewrite !skipn_all2 by lia. reflexivity.
  - rewrite Hp. lia.
Qed.

Lemma adv_pos_le rd rd' k : adv rd rd' k -> rd_pos rd <= rd_pos rd' <= rd_pos rd + k.
Proof. intros [_ _ _ Hp _]. lia. Qed.

(* one Read call: the reader advances by what it delivered *)
Lemma rd_read_adv rd k bs e r' : rd_read rd k = (bs, e, r') -> adv rd r' (length bs).
Proof.
  unfold rd_read. destruct (rd_data rd) as [|b0 rest0] eqn:Ed.
  - intros H; inversion H; subst. apply adv_refl.
  - set (cap := match rd_sched rd with [] => k | c0 :: _ => Nat.min c0 k end).
    intros H; inversion H; subst; clear H.
    assert (Hlen : length (firstn cap (b0 :: rest0)) = Nat.min cap (length (b0 :: rest0))) by apply firstn_length.
    constructor; cbn [rd_data rd_sched rd_term rd_ewd rd_pos]; rewrite ?Ed; try reflexivity.
    + rewrite Hlen. destruct (Nat.le_ge_cases cap (length (b0 :: rest0))) as [L|L].
      * now rewrite Nat.min_l by assumption.
      * rewrite Nat.min_r by assumption. rewrite !skipn_all2 by lia. reflexivity.
    + rewrite Hlen. lia.
    + destruct (rd_sched rd); cbn [tl length]; lia.
Qed.

Definition adv_some (rd rd' : reader) : Prop := exists k, adv rd rd' k.
Lemma adv_some_refl rd : adv_some rd rd. Proof. exists 0. apply adv_refl. Qed.
Lemma adv_some_trans r1 r2 r3 : adv_some r1 r2 -> adv_some r2 r3 -> adv_some r1 r3.
Proof. intros [a Ha] [b Hb]. exists (a + b). eapply adv_trans; eassumption. Qed.

Lemma fill_adv c : match fill c with
  | COk _ c' | CErr _ c' => adv_some (c_rd c) (c_rd c')
  | CFuel => True
  end.
Proof.
  unfold fill. destruct (c_fuel c) as [|f]; [exact I|].
  destruct (Nat.eqb (c_n c) (c_limit c)); [apply adv_some_refl|].
  destruct (rd_read (c_rd c) (Nat.min BUFSZ (c_limit c - c_n c))) as [[bs e] rd'] eqn:Er.
  pose proof (rd_read_adv _ _ _ _ _ Er) as Ha.
  destruct bs as [|x xs]; [destruct e|]; cbn [c_rd]; eexists; exact Ha.
Qed.

Lemma c_byte_adv : forall iters c, match c_byte iters c with
  | COk _ c' | CErr _ c' => adv_some (c_rd c) (c_rd c')
  | CFuel => True
  end.
Proof.
  induction iters as [|it IH]; intros c; cbn [c_byte]; destruct (c_buf c) as [|b r]; try exact I;
    try (cbn [c_rd]; apply adv_some_refl).
  pose proof (fill_adv c) as Hf. destruct (fill c) as [u c2|e c2|]; try exact I; [|exact Hf].
  specialize (IH c2). destruct (c_byte it c2); try exact I; eapply adv_some_trans; eassumption.
Qed.

Lemma c_take_adv : forall iters k acc c, match c_take iters k acc c with
  | COk _ c' | CErr _ c' => adv_some (c_rd c) (c_rd c')
  | CFuel => True
  end.
Proof.
  induction iters as [|it IH]; intros k acc c; cbn [c_take];
    destruct (Nat.eqb (k - Nat.min k (length (c_buf c))) 0); try exact I; try (cbn [c_rd]; apply adv_some_refl).
  set (c1 := mk_cst (c_rd c) (skipn (Nat.min k (length (c_buf c))) (c_buf c)) (c_n c + Nat.min k (length (c_buf c))) (c_limit c) (c_crc c) (c_fuel c)).
  pose proof (fill_adv c1) as Hf. destruct (fill c1) as [u c2|e c2|]; try exact I; [|exact Hf].
  specialize (IH (k - Nat.min k (length (c_buf c))) (acc ++ firstn (Nat.min k (length (c_buf c))) (c_buf c)) c2).
  destruct (c_take it _ _ c2); try exact I; eapply adv_some_trans; eassumption.
Qed.

Lemma run_c_adv {S E A} : forall (p : prog S E A) c s, match run_c p c s with
  | ROk _ c' _ | RFail _ c' _ | RIOErr _ c' _ => adv_some (c_rd c) (c_rd c')
  | _ => True
  end.
Proof.
  induction p as [x|e|w|k IH|n k IH|k IH|k IH|s' k IH]; intros c s; cbn [run_c]; try apply adv_some_refl; try exact I; try apply IH.
  - pose proof (c_byte_adv (Datatypes.S (c_fuel c)) c) as H.
    destruct (c_byte (Datatypes.S (c_fuel c)) c) as [b c'|e c'|]; try exact I; [|exact H].
    specialize (IH b c' s). destruct (run_c (k b) c' s); try exact I; eapply adv_some_trans; eassumption.
  - pose proof (c_take_adv (Datatypes.S (c_fuel c)) n [] c) as H.
    destruct (c_take (Datatypes.S (c_fuel c)) n [] c) as [l c'|e c'|]; try exact I; [|exact H].
    specialize (IH l c' s). destruct (run_c (k l) c' s); try exact I; eapply adv_some_trans; eassumption.
Qed.

(* ------------------------------------------------------------ the header *)
Local Open Scope N_scope.

(* the part of decodeHeader after the two reads: sz is the size byte, t the sz - 1 bytes after it *)
Definition hdr_pure (sz : N) (t : list N) : option err * header * N :=
  let h0 := mk_header sz 0 0 0 [0; 0; 0; 0] 0 in
  if negb (proto_ok (b_at t 0)) then (Some EProto, h0, 0) else
  let h1 := mk_header sz (b_at t 0) (le16 (firstn 2 (skipn 1 t))) (le32 (firstn 4 (skipn 3 t))) [0; 0; 0; 0] 0 in
  let dt := firstn 4 (skipn 7 t) in
  if negb (list_eqb dt fit_dtype) then (Some ENotFit, h1, 0) else
  let h2 := mk_header sz (h_proto h1) (h_profile h1) (h_dsize h1) dt 0 in
  let crc := crc_write (crc_write crc_new [sz]) t in
  if sz =? c_headerSizeNoCRC then (None, h2, crc) else
  let hc := le16 (firstn 2 (skipn 11 t)) in
  let h3 := mk_header sz (h_proto h1) (h_profile h1) (h_dsize h1) dt hc in
  if hc =? 0 then (None, h3, crc)
  else if negb (crc_sum16 crc =? 0) then (Some EHdrCRC, h3, crc)
  else (None, h3, crc).

(* decodeHeader over a byte list: error, header as far as filled in, checksum register, bytes consumed *)
Definition hdr_a (data : list N) (t : term) : option err * header * N * nat :=
  match data with
  | [] => (Some (match t with TEOF => EReadSizeEOF | TFault => EReadSize end), zero_header, 0, O)
  | sz :: rest =>
      let h0 := mk_header sz 0 0 0 [0; 0; 0; 0] 0 in
      if negb ((sz =? c_headerSizeCRC) || (sz =? c_headerSizeNoCRC)) then (Some EHeaderSize, h0, 0, 1%nat) else
      let n := (N.to_nat sz - 1)%nat in
      if Nat.leb n (length rest) then (hdr_pure sz (firstn n rest), (1 + n)%nat)
      else (Some EReadData, h0, 0, (1 + length rest)%nat)
  end.

Lemma hdr_pure_size sz t e h crc : hdr_pure sz t = (e, h, crc) -> h_size h = sz.
Proof.
  unfold hdr_pure.
  repeat match goal with |- context [if ?c then _ else _] => destruct c end; intros H; inversion H; reflexivity.
Qed.

Lemma sz_ok_nat sz : (sz =? c_headerSizeCRC) || (sz =? c_headerSizeNoCRC) = true -> (1 <= N.to_nat sz)%nat.
Proof.
  intros H. apply orb_true_iff in H. destruct H as [H|H]; apply N.eqb_eq in H; subst; cbv; lia.
Qed.

(* what the header stage consumed *)
Lemma hdr_a_used data t e h crc used : hdr_a data t = (e, h, crc, used) ->
  (used <= length data)%nat /\ (used <= Nat.max 1 (N.to_nat (h_size h)))%nat /\
  (e = None -> used = N.to_nat (h_size h) /\ (1 <= used)%nat).
Proof.
  unfold hdr_a. destruct data as [|sz rest].
  - intros H; inversion H; subst. cbn. repeat split; try lia; discriminate.
  - destruct (negb ((sz =? c_headerSizeCRC) || (sz =? c_headerSizeNoCRC))) eqn:Esz.
    + intros H; inversion H; subst. cbn [length h_size]. repeat split; try lia; discriminate.
    + apply negb_false_iff in Esz. pose proof (sz_ok_nat sz Esz) as Hsz.
      destruct (Nat.leb_spec (N.to_nat sz - 1) (length rest)) as [L|L].
      * destruct (hdr_pure sz (firstn (N.to_nat sz - 1) rest)) as [[e' h'] crc'] eqn:Ep.
        intros H; inversion H; subst. rewrite (hdr_pure_size _ _ _ _ _ Ep). cbn [length]. repeat split; lia.
      * intros H; inversion H; subst. cbn [length h_size]. repeat split; try lia; discriminate.
Qed.

Local Close Scope N_scope.

Lemma adv_shrink rd rd' a : adv rd rd' a -> length (rd_data rd) <= a -> adv rd rd' (length (rd_data rd)).
Proof.
  intros [Hd Ht He Hp Hs] Ha. constructor; try assumption.
  - rewrite Hd. rewrite !skipn_all2 by lia. reflexivity.
  - rewrite Hp. lia.
Qed.

Lemma decode_header_spec fuel rd : wf rd fuel ->
  exists rd1, decode_header fuel rd =
              Done (fst (fst (fst (hdr_a (rd_data rd) (rd_term rd)))), snd (fst (fst (hdr_a (rd_data rd) (rd_term rd)))),
                    snd (fst (hdr_a (rd_data rd) (rd_term rd))), rd1) /\
              adv rd rd1 (snd (hdr_a (rd_data rd) (rd_term rd))).
Proof.
  intros Hwf. unfold decode_header.
  destruct (io_read_full_spec fuel rd 1 Hwf) as (rd1 & E1 & A1). rewrite E1.
  unfold hdr_a. destruct (rd_data rd) as [|sz rest] eqn:Ed.
  - (* no size byte *)
    change (firstn 1 (@nil N)) with (@nil N). unfold rf_err. cbn [length Nat.leb].
    exists rd1. destruct (rd_term rd); cbn [fst snd]; (split; [reflexivity|]).
    + eapply adv_exact; [exact A1| |rewrite Ed; cbn; lia]. rewrite (adv_pos _ _ _ A1), Ed. cbn. lia.
    + eapply adv_exact; [exact A1| |rewrite Ed; cbn; lia]. rewrite (adv_pos _ _ _ A1), Ed. cbn. lia.
  - change (firstn 1 (sz :: rest)) with [sz]. change (rf_err 1 (sz :: rest) (rd_term rd)) with (@None rerr). cbn [hd].
    destruct (negb ((sz =? c_headerSizeCRC)%N || (sz =? c_headerSizeNoCRC)%N)) eqn:Esz.
    + exists rd1. cbn [fst snd]. split; [reflexivity|exact A1].
    + apply negb_false_iff in Esz. pose proof (sz_ok_nat sz Esz) as Hsz.
      assert (Hwf1 : wf rd1 fuel) by (eapply adv_wf; eassumption).
      destruct (io_read_full_spec fuel rd1 (N.to_nat sz - 1) Hwf1) as (rd2 & E2 & A2). rewrite E2.
      assert (Hd1 : rd_data rd1 = rest) by (rewrite (adv_data _ _ _ A1), Ed; reflexivity).
      rewrite Hd1, (adv_term _ _ _ A1). unfold rf_err.
      pose proof (adv_trans _ _ _ _ _ A1 A2) as A12.
      destruct (Nat.leb_spec (N.to_nat sz - 1) (length rest)) as [L|L].
      * exists rd2. split; [|cbn [snd]; exact A12].
        unfold hdr_pure. cbn [fst snd].
        repeat match goal with |- context [if ?c then _ else _] => destruct c end; reflexivity.
      * exists rd2. cbn [fst snd]. split; [reflexivity|].
        replace (1 + length rest) with (length (rd_data rd)) by (rewrite Ed; reflexivity).
        apply (adv_shrink rd rd2 (1 + (N.to_nat sz - 1))); [exact A12|]. rewrite Ed. cbn [length]. lia.
Qed.

(* ------------------------------------------------------------ the file checksum *)
Definition crc_a (rest : list N) (t : term) (crc : N) (f : file) : option err * file * nat :=
  match rf_err 2 rest t with
  | Some _ => (Some EFileCRCRead, f, length rest)
  | None =>
      let bs := firstn 2 rest in
      let f' := set_crc f (le16 bs) in
      (if negb (crc_sum16 (crc_write crc bs) =? 0)%N then Some EFileCRC else None, f', 2)
  end.

Lemma check_crc_spec fuel rd crc f : wf rd fuel ->
  exists rd', check_crc fuel rd crc f =
              Done (fst (fst (crc_a (rd_data rd) (rd_term rd) crc f)), snd (fst (crc_a (rd_data rd) (rd_term rd) crc f)), rd') /\
              adv rd rd' (snd (crc_a (rd_data rd) (rd_term rd) crc f)) /\
              (snd (crc_a (rd_data rd) (rd_term rd) crc f) <= length (rd_data rd)).
Proof.
  intros Hwf. unfold check_crc, crc_a.
  destruct (io_read_full_spec fuel rd 2 Hwf) as (rd' & E & A). rewrite E. exists rd'.
  unfold rf_err in *. destruct (Nat.leb_spec 2 (length (rd_data rd))) as [L|L].
  - cbn [fst snd]. destruct (negb _); (split; [reflexivity|split; [exact A|exact L]]).
  - cbn [fst snd]. split; [reflexivity|]. split; [|lia]. apply (adv_shrink rd rd' 2); [exact A|lia].
Qed.

Lemma crc_a_used rest t crc f : snd (crc_a rest t crc f) <= 2.
Proof.
  unfold crc_a, rf_err. destruct (Nat.leb_spec 2 (length rest)); cbn [snd]; lia.
Qed.

(* ------------------------------------------------------------ the buffered phase *)
Lemma adv_some_pos rd rd' : adv_some rd rd' -> rd_pos rd' <= rd_pos rd + length (rd_data rd).
Proof. intros [k [_ _ _ Hp _]]. lia. Qed.

Lemma adv_some_wf rd rd' fuel : adv_some rd rd' -> wf rd fuel -> wf rd' fuel.
Proof. intros [k H]. eapply adv_wf; eassumption. Qed.

Lemma buffered_phase {S E A} (p : prog S E A) rd1 limit crc fuel s : wf rd1 fuel ->
  match run_c p (mk_cst rd1 [] 0 limit crc fuel) s, run_a p (mk_ast (rd_data rd1) (rd_term rd1) 0 limit) s with
  | ROk x c' s', ROk y a' s'' =>
      x = y /\ s' = s'' /\ adv_some rd1 (c_rd c') /\
      rd_pos (c_rd c') <= rd_pos rd1 + Nat.min limit (length (rd_data rd1)) /\
      Nat.eqb (c_n c') (c_limit c') = Nat.eqb (a_n a') (a_limit a') /\
      (a_n a' = a_limit a' ->
       adv rd1 (c_rd c') limit /\ limit <= length (rd_data rd1) /\
       c_crc c' = crc_write crc (firstn limit (rd_data rd1)) /\
       a_rest a' = rd_data (c_rd c') /\ a_rest a' = skipn limit (rd_data rd1))
  | RFail e c' s', RFail e' a' s'' =>
      e = e' /\ s' = s'' /\ adv_some rd1 (c_rd c') /\
      rd_pos (c_rd c') <= rd_pos rd1 + Nat.min limit (length (rd_data rd1))
  | RIOErr e c' s', RIOErr e' a' s'' =>
      e = e' /\ s' = s'' /\ adv rd1 (c_rd c') (Nat.min limit (length (rd_data rd1)))
  | RPanic w, RPanic w' => w = w'
  | _, _ => False
  end.
Proof.
  intros Hwf.
  pose proof (run_sim (rd_data rd1) (rd_pos rd1) crc p _ _ s (Rel_start rd1 limit crc fuel Hwf)) as HS.
  pose proof (run_c_adv p (start_c rd1 limit crc fuel) s) as HA.
  pose proof (run_a_prefix p (rd_data rd1) (rd_term rd1) 0 limit s) as HP.
  pose proof (run_a_inv p (start_a rd1 limit) s) as HI.
  unfold start_c, start_a in *. unfold sim in HS.
  destruct (run_c p (mk_cst rd1 [] 0 limit crc fuel) s) as [x c' s'|e c' s'|e c' s'|w|];
    destruct (run_a p (mk_ast (rd_data rd1) (rd_term rd1) 0 limit) s) as [y a' s''|e' a' s''|e' a' s''|w'|];
    try contradiction; try exact HS; cbn [c_rd] in HA.
  - destruct HS as (-> & -> & HR). destruct HP as (P1 & P2 & P3 & P4 & P5 & P6).
    pose proof (adv_some_pos _ _ HA) as Hpos.
    destruct HR as [Hr Hall Hl Ht Hn Hli Hb Hf Hp Hc].
    rewrite Nat.sub_0_r in *.
    split; [reflexivity|]. split; [reflexivity|]. split; [exact HA|].
    split; [rewrite Hp; lia|]. split; [rewrite Hn, Hli; reflexivity|].
    intros H. rewrite Hli, P5 in *. assert (Hbuf : length (c_buf c') = 0) by lia.
    split; [|split; [lia|split; [|split]]].
    + destruct HA as [k Hk]. apply (adv_exact _ _ k); [exact Hk| |lia]. rewrite Hp. lia.
    + rewrite Hc, Hbuf. f_equal. f_equal. lia.
    + destruct (c_buf c'); [|discriminate]. exact Hr.
    + rewrite P4. f_equal. lia.
  - destruct HS as (-> & -> & HR). destruct HP as (P1 & P2 & P3 & P4 & P5 & P6).
    pose proof (adv_some_pos _ _ HA) as Hpos.
    destruct HR as [Hr Hall Hl Ht Hn Hli Hb Hf Hp Hc].
    split; [reflexivity|]. split; [reflexivity|]. split; [exact HA|]. rewrite Hp. lia.
  - destruct HS as (-> & -> & HE). destruct HI as [Hi _]. cbn [a_limit] in Hi.
    split; [reflexivity|]. split; [reflexivity|]. destruct HA as [k Hk].
    apply (adv_exact _ _ k); [exact Hk| |lia]. rewrite (e_pos_exact _ _ _ _ _ HE), Hi. reflexivity.
Qed.

(* ------------------------------------------------------------ decode over a byte list *)
Record ares := mk_ares {
  ar_err : option err; ar_hdr : header; ar_file : option file;
  ar_used : nat;        (* bytes taken from the input (an upper bound when ar_exact is false) *)
  ar_g : gstate; ar_quirks : list N;
  ar_exact : bool       (* false: the buffered phase stopped with read-ahead in the buffer *)
}.

Definition decode_a (o : dopts) (md : mode) (g : gstate) (data : list N) (t : term) : tout ares :=
  match hdr_a data t with
  | (Some e, h, _, used) => TDone (mk_ares (Some e) h None used g [] true)
  | (None, h, crc, used) =>
    let f0 := new_file h in
    let limit := N.to_nat (h_dsize h) in
    let rest := skipn used data in
    match md with
    | MHeaderOnly => TDone (mk_ares None h (Some f0) used g [] true)
    | MCrcOnly =>
        match cp_err limit rest t with
        | Some _ => TDone (mk_ares (Some EParseData) h (Some f0) (used + length rest) g [] true)
        | None =>
            let c := crc_a (skipn limit rest) t (crc_write crc (firstn limit rest)) f0 in
            TDone (mk_ares (fst (fst c)) h (Some (snd (fst c))) (used + limit + snd c) g [] true)
        end
    | _ =>
        let fid := match md with MFileIdOnly => true | _ => false end in
        match run_a (data_prog o fid (S limit)) (mk_ast rest t 0 limit) (init_dstate f0 g) with
        | ROutOfFuel => TOutOfFuel
        | RPanic w => TPanic w
        | RFail e x s =>
            TDone (mk_ares (Some e) h (Some (finalize_unknown o s)) (used + Nat.min limit (length rest)) (ds_g s) (ds_quirks s) false)
        | RIOErr e x s =>
            TDone (mk_ares (Some (EIO e)) h (Some (finalize_unknown o s)) (used + Nat.min limit (length rest)) (ds_g s) (ds_quirks s) true)
        | ROk _ x s =>
            if fid then TDone (mk_ares None h (Some (finalize_unknown o s)) (used + Nat.min limit (length rest)) (ds_g s) (ds_quirks s) false) else
            if negb (Nat.eqb (a_n x) (a_limit x)) then TPanic 7 else
            let c := crc_a (a_rest x) t (crc_write crc (firstn limit rest)) (ds_file s) in
            TDone (mk_ares (fst (fst c)) h (Some (finalize_unknown o (with_file s (snd (fst c)) (ds_g s))))
                           (used + limit + snd c) (ds_g s) (ds_quirks s) true)
        end
    end
  end.

Definition matches (rd : reader) (r : dres) (a : ares) : Prop :=
  dr_err r = ar_err a /\ dr_hdr r = ar_hdr a /\ dr_file r = ar_file a /\ dr_g r = ar_g a /\ dr_quirks r = ar_quirks a /\
  adv_some rd (dr_rd r) /\ rd_pos (dr_rd r) <= rd_pos rd + ar_used a /\
  (ar_exact a = true -> adv rd (dr_rd r) (ar_used a)) /\ ar_used a <= length (rd_data rd).

Definition tmatch (rd : reader) (x : tout dres) (y : tout ares) : Prop :=
  match x, y with
  | TDone r, TDone a => matches rd r a
  | TPanic w, TPanic w' => w = w'
  | _, _ => False
  end.

(* ------------------------------------------------------------ decode computes decode_a *)
Lemma adv_full rd rd' k : adv rd rd' k -> k <= length (rd_data rd) -> rd_pos rd' = rd_pos rd + k.
Proof. intros [_ _ _ Hp _] H. lia. Qed.

Lemma matches_exact rd r a :
  dr_err r = ar_err a -> dr_hdr r = ar_hdr a -> dr_file r = ar_file a -> dr_g r = ar_g a -> dr_quirks r = ar_quirks a ->
  adv rd (dr_rd r) (ar_used a) -> ar_used a <= length (rd_data rd) -> matches rd r a.
Proof.
  intros H1 H2 H3 H4 H5 HA HL. unfold matches.
  split; [exact H1|]. split; [exact H2|]. split; [exact H3|]. split; [exact H4|]. split; [exact H5|].
  split; [eexists; exact HA|]. split; [destruct (adv_pos_le _ _ _ HA); lia|]. split; [intros _; exact HA|exact HL].
Qed.

Lemma matches_inexact rd r a :
  dr_err r = ar_err a -> dr_hdr r = ar_hdr a -> dr_file r = ar_file a -> dr_g r = ar_g a -> dr_quirks r = ar_quirks a ->
  adv_some rd (dr_rd r) -> rd_pos (dr_rd r) <= rd_pos rd + ar_used a -> ar_exact a = false ->
  ar_used a <= length (rd_data rd) -> matches rd r a.
Proof.
  intros H1 H2 H3 H4 H5 HA HP HE HL. unfold matches.
  split; [exact H1|]. split; [exact H2|]. split; [exact H3|]. split; [exact H4|]. split; [exact H5|].
  split; [exact HA|]. split; [exact HP|]. split; [rewrite HE; discriminate|exact HL].
Qed.

Ltac fields := cbn [dr_err dr_hdr dr_file dr_g dr_quirks dr_rd ar_err ar_hdr ar_file ar_g ar_quirks ar_used ar_exact].

Theorem decode_abs o md g rd fuel : wf rd fuel ->
  tmatch rd (decode o md g rd fuel) (decode_a o md g (rd_data rd) (rd_term rd)).
Proof.
  intros Hwf. unfold decode, decode_a.
  destruct (decode_header_spec fuel rd Hwf) as (rd1 & EH & AH). rewrite EH. clear EH.
  destruct (hdr_a (rd_data rd) (rd_term rd)) as [[[e h] crc] used] eqn:Eh. cbn [fst snd] in *.
  destruct (hdr_a_used _ _ _ _ _ _ Eh) as (U1 & U2 & U3).
  pose proof (adv_full _ _ _ AH U1) as Hpos1.
  assert (Hwf1 : wf rd1 fuel) by (eapply adv_wf; eassumption).
  assert (Hd1 : rd_data rd1 = skipn used (rd_data rd)) by apply (adv_data _ _ _ AH).
  assert (Ht1 : rd_term rd1 = rd_term rd) by apply (adv_term _ _ _ AH).
  assert (Hlen1 : length (rd_data rd1) = length (rd_data rd) - used) by (rewrite Hd1; apply skipn_length).
  destruct e as [e|].
  { cbn [tmatch]. apply matches_exact; fields; try reflexivity; assumption. }
  set (limit := N.to_nat (h_dsize h)).
  assert (BP : forall fid,
    match run_c (data_prog o fid (S limit)) (mk_cst rd1 [] 0 limit crc fuel) (init_dstate (new_file h) g),
          run_a (data_prog o fid (S limit)) (mk_ast (skipn used (rd_data rd)) (rd_term rd) 0 limit) (init_dstate (new_file h) g) with
    | ROk x c' s', ROk y a' s'' =>
        x = y /\ s' = s'' /\ adv_some rd1 (c_rd c') /\
        rd_pos (c_rd c') <= rd_pos rd1 + Nat.min limit (length (rd_data rd1)) /\
        Nat.eqb (c_n c') (c_limit c') = Nat.eqb (a_n a') (a_limit a') /\
        (a_n a' = a_limit a' ->
         adv rd1 (c_rd c') limit /\ limit <= length (rd_data rd1) /\
         c_crc c' = crc_write crc (firstn limit (rd_data rd1)) /\
         a_rest a' = rd_data (c_rd c') /\ a_rest a' = skipn limit (rd_data rd1))
    | RFail e c' s', RFail e' a' s'' =>
        e = e' /\ s' = s'' /\ adv_some rd1 (c_rd c') /\
        rd_pos (c_rd c') <= rd_pos rd1 + Nat.min limit (length (rd_data rd1))
    | RIOErr e c' s', RIOErr e' a' s'' =>
        e = e' /\ s' = s'' /\ adv rd1 (c_rd c') (Nat.min limit (length (rd_data rd1)))
    | RPanic w, RPanic w' => w = w'
    | _, _ => False
    end).
  { intros fid. rewrite <- Hd1, <- Ht1. apply buffered_phase. exact Hwf1. }
  assert (INEX : forall c' : cst, adv_some rd1 (c_rd c') ->
            rd_pos (c_rd c') <= rd_pos rd1 + Nat.min limit (length (rd_data rd1)) ->
            adv_some rd (c_rd c') /\ rd_pos (c_rd c') <= rd_pos rd + (used + Nat.min limit (length (skipn used (rd_data rd)))) /\
            used + Nat.min limit (length (skipn used (rd_data rd))) <= length (rd_data rd)).
  { intros c' HA HP. split; [eapply adv_some_trans; [exists used; exact AH|exact HA]|].
    rewrite Hlen1 in HP. rewrite skipn_length. lia. }
  assert (IOE : forall c' : cst, adv rd1 (c_rd c') (Nat.min limit (length (rd_data rd1))) ->
            adv rd (c_rd c') (used + Nat.min limit (length (skipn used (rd_data rd)))) /\
            used + Nat.min limit (length (skipn used (rd_data rd))) <= length (rd_data rd)).
  { intros c' HA. pose proof (adv_trans _ _ _ _ _ AH HA) as A3. rewrite Hlen1 in A3. rewrite skipn_length. split; [exact A3|lia]. }
  destruct md.
  - (* MFull *)
    specialize (BP false). cbv zeta.
    destruct (run_c (data_prog o false (S limit)) (mk_cst rd1 [] 0 limit crc fuel) (init_dstate (new_file h) g)) as [x c' s'|e c' s'|e c' s'|w|];
      destruct (run_a (data_prog o false (S limit)) (mk_ast (skipn used (rd_data rd)) (rd_term rd) 0 limit) (init_dstate (new_file h) g)) as [y a' s''|e' a' s''|e' a' s''|w'|];
      try contradiction.
    + destruct BP as (-> & -> & HA & HP & HE & HX). rewrite HE.
      destruct (Nat.eqb_spec (a_n a') (a_limit a')) as [En|En]; cbn [negb]; [|reflexivity].
      destruct (HX En) as (X1 & X2 & X3 & X4 & X5).
      assert (Hwf2 : wf (c_rd c') fuel) by (eapply adv_wf; eassumption).
      destruct (check_crc_spec fuel (c_rd c') (c_crc c') (ds_file s'') Hwf2) as (rd3 & EC & AC & UC). rewrite EC. clear EC.
      rewrite <- X4, X3, (adv_term _ _ _ X1), Ht1, <- Hd1 in *.
      set (cc := crc_a (a_rest a') (rd_term rd) (crc_write crc (firstn limit (rd_data rd1))) (ds_file s'')) in *.
      pose proof (adv_trans _ _ _ _ _ (adv_trans _ _ _ _ _ AH X1) AC) as A3.
      assert (Hlen2 : length (a_rest a') = length (rd_data rd1) - limit) by (rewrite X5; apply skipn_length).
      cbn [tmatch]. apply matches_exact; fields; try reflexivity; [exact A3|lia].
    + destruct BP as (-> & -> & HA & HP). destruct (INEX c' HA HP) as (I1 & I2 & I3).
      cbn [tmatch]. apply matches_inexact; fields; try reflexivity; assumption.
    + destruct BP as (-> & -> & HA). destruct (IOE c' HA) as (I1 & I2).
      cbn [tmatch]. apply matches_exact; fields; try reflexivity; assumption.
    + cbn. exact BP.
  - (* MHeaderOnly *)
    cbn [tmatch]. apply matches_exact; fields; try reflexivity; assumption.
  - (* MFileIdOnly *)
    specialize (BP true). cbv zeta.
    destruct (run_c (data_prog o true (S limit)) (mk_cst rd1 [] 0 limit crc fuel) (init_dstate (new_file h) g)) as [x c' s'|e c' s'|e c' s'|w|];
      destruct (run_a (data_prog o true (S limit)) (mk_ast (skipn used (rd_data rd)) (rd_term rd) 0 limit) (init_dstate (new_file h) g)) as [y a' s''|e' a' s''|e' a' s''|w'|];
      try contradiction.
    + destruct BP as (-> & -> & HA & HP & _). destruct (INEX c' HA HP) as (I1 & I2 & I3).
      cbn [tmatch]. apply matches_inexact; fields; try reflexivity; assumption.
    + destruct BP as (-> & -> & HA & HP). destruct (INEX c' HA HP) as (I1 & I2 & I3).
      cbn [tmatch]. apply matches_inexact; fields; try reflexivity; assumption.
    + destruct BP as (-> & -> & HA). destruct (IOE c' HA) as (I1 & I2).
      cbn [tmatch]. apply matches_exact; fields; try reflexivity; assumption.
    + cbn. exact BP.
  - (* MCrcOnly *)
    destruct (io_copy_n_spec fuel rd1 limit Hwf1) as (rd2 & EC & A2). fold limit. rewrite EC. clear EC.
    rewrite Hd1, Ht1 in *. fold limit. unfold cp_err in *.
    destruct (Nat.leb_spec limit (length (skipn used (rd_data rd)))) as [L|L].
    + assert (Hwf2 : wf rd2 fuel) by (eapply adv_wf; eassumption).
      destruct (check_crc_spec fuel rd2 (crc_write crc (firstn limit (skipn used (rd_data rd)))) (new_file h) Hwf2) as (rd3 & EK & AC & UC).
      rewrite EK. clear EK. rewrite (adv_data _ _ _ A2), (adv_term _ _ _ A2), Hd1, Ht1 in *.
      pose proof (adv_trans _ _ _ _ _ (adv_trans _ _ _ _ _ AH A2) AC) as A3.
      rewrite !skipn_length in UC. rewrite skipn_length in L.
      cbn [tmatch]. apply matches_exact; fields; try reflexivity; [exact A3|lia].
    + assert (A2' : adv rd1 rd2 (length (rd_data rd1))) by (apply (adv_shrink rd1 rd2 limit); [exact A2|rewrite Hd1; lia]).
      pose proof (adv_trans _ _ _ _ _ AH A2') as A3. rewrite Hd1 in A3.
      cbn [tmatch]. apply matches_exact; fields; try reflexivity; [exact A3|rewrite skipn_length; lia].
Qed.

(* ------------------------------------------------------------ consequences for decode *)
Lemma crc_a_ok rest t crc f : fst (fst (crc_a rest t crc f)) = None -> snd (crc_a rest t crc f) = 2 /\ 2 <= length rest.
Proof.
  unfold crc_a, rf_err. destruct (Nat.leb_spec 2 (length rest)); cbn [fst snd]; [intros _; split; [reflexivity|assumption]|discriminate].
Qed.

(* what a run of decode_a consumed *)
Ltac fin := repeat split; intros; try lia; try discriminate; try congruence;
  try (match goal with H : _ \/ _ |- _ => destruct H; discriminate end).

Lemma decode_a_used o md g data t a : decode_a o md g data t = TDone a ->
  ar_used a <= Nat.max 1 (N.to_nat (h_size (ar_hdr a))) + N.to_nat (h_dsize (ar_hdr a)) + 2 /\
  (md = MHeaderOnly -> ar_used a <= Nat.max 1 (N.to_nat (h_size (ar_hdr a)))) /\
  (ar_err a = None -> md <> MFileIdOnly -> ar_exact a = true) /\
  (ar_err a = None -> md = MHeaderOnly -> ar_used a = N.to_nat (h_size (ar_hdr a))) /\
  (ar_err a = None -> md = MFull \/ md = MCrcOnly ->
   ar_used a = N.to_nat (h_size (ar_hdr a)) + N.to_nat (h_dsize (ar_hdr a)) + 2).
Proof.
  unfold decode_a. destruct (hdr_a data t) as [[[e h] crc] used] eqn:Eh.
  destruct (hdr_a_used _ _ _ _ _ _ Eh) as (U1 & U2 & U3).
  destruct e as [e|].
  { intros H; inversion H; subst; fields. fin. }
  destruct (U3 eq_refl) as [U4 U5]. set (limit := N.to_nat (h_dsize h)).
  destruct md.
  - destruct (run_a _ _ _) as [y a' s''|e' a' s''|e' a' s''|w'|]; try discriminate.
    + cbv zeta. destruct (negb (Nat.eqb (a_n a') (a_limit a'))); [discriminate|].
      intros H; inversion H; subst; clear H; fields.
      pose proof (crc_a_used (a_rest a') t (crc_write crc (firstn limit (skipn (N.to_nat (h_size h)) data))) (ds_file s'')) as HC.
      fold limit in HC |- *.
      split; [lia|]. split; [discriminate|]. split; [reflexivity|]. split; [discriminate|].
      intros He _. destruct (crc_a_ok _ _ _ _ He) as [-> _]. lia.
    + intros H; inversion H; subst; clear H; fields. fold limit. fin.
    + intros H; inversion H; subst; clear H; fields. fold limit. fin.
  - intros H; inversion H; subst; clear H; fields. fin.
  - destruct (run_a _ _ _) as [y a' s''|e' a' s''|e' a' s''|w'|]; try discriminate;
      intros H; inversion H; subst; clear H; fields; fold limit; fin.
  - unfold cp_err. fold limit. destruct (Nat.leb_spec limit (length (skipn used data))) as [L|L].
    + intros H; inversion H; subst; clear H; fields.
      pose proof (crc_a_used (skipn limit (skipn (N.to_nat (h_size h)) data)) t (crc_write crc (firstn limit (skipn (N.to_nat (h_size h)) data))) (new_file h)) as HC.
      fold limit in HC |- *.
      split; [lia|]. split; [discriminate|]. split; [reflexivity|]. split; [discriminate|].
      intros He _. destruct (crc_a_ok _ _ _ _ He) as [-> _]. lia.
    + intros H; inversion H; subst; clear H; fields. fold limit. rewrite skipn_length in *. fin.
Qed.

(* (b) a successful Decode / CheckIntegrity consumes exactly header size + data size + 2 bytes *)
Theorem decode_consumed_exact o md g rd fuel r : wf rd fuel -> md = MFull \/ md = MCrcOnly ->
  decode o md g rd fuel = TDone r -> dr_err r = None ->
  rd_pos (dr_rd r) = rd_pos rd + N.to_nat (h_size (dr_hdr r)) + N.to_nat (h_dsize (dr_hdr r)) + 2.
Proof.
  intros Hwf Hmd Hd He. pose proof (decode_abs o md g rd fuel Hwf) as HA. rewrite Hd in HA.
  destruct (decode_a o md g (rd_data rd) (rd_term rd)) as [a|w|] eqn:Ea; try contradiction.
  destruct HA as (M1 & M2 & M3 & M4 & M5 & M6 & M7 & M8 & M9).
  destruct (decode_a_used _ _ _ _ _ _ Ea) as (_ & _ & D3 & _ & D5).
  rewrite M1 in He. assert (Hmd' : md <> MFileIdOnly) by (destruct Hmd; subst; discriminate).
  rewrite (adv_full _ _ _ (M8 (D3 He Hmd')) M9), (D5 He Hmd), M2. lia.
Qed.

(* header-only calls consume exactly the header *)
Theorem decode_header_only_exact o g rd fuel r : wf rd fuel ->
  decode o MHeaderOnly g rd fuel = TDone r -> dr_err r = None ->
  rd_pos (dr_rd r) = rd_pos rd + N.to_nat (h_size (dr_hdr r)).
Proof.
  intros Hwf Hd He. pose proof (decode_abs o MHeaderOnly g rd fuel Hwf) as HA. rewrite Hd in HA.
  destruct (decode_a o MHeaderOnly g (rd_data rd) (rd_term rd)) as [a|w|] eqn:Ea; try contradiction.
  destruct HA as (M1 & M2 & M3 & M4 & M5 & M6 & M7 & M8 & M9).
  destruct (decode_a_used _ _ _ _ _ _ Ea) as (_ & _ & D3 & D4 & _).
  rewrite M1 in He.
  rewrite (adv_full _ _ _ (M8 (D3 He ltac:(discriminate))) M9), (D4 He eq_refl), M2. lia.
Qed.

(* (c) no mode, no outcome ever takes a byte beyond the frame the header announces (beyond the header for the
   header-only mode); the reader is never rewound; decode never runs out of fuel *)
Theorem decode_never_past_frame o md g rd fuel : wf rd fuel ->
  match decode o md g rd fuel with
  | TDone r =>
      rd_pos rd <= rd_pos (dr_rd r) /\
      rd_pos (dr_rd r) <= rd_pos rd + length (rd_data rd) /\
      rd_pos (dr_rd r) <= rd_pos rd + Nat.max 1 (N.to_nat (h_size (dr_hdr r))) + N.to_nat (h_dsize (dr_hdr r)) + 2 /\
      (md = MHeaderOnly -> rd_pos (dr_rd r) <= rd_pos rd + Nat.max 1 (N.to_nat (h_size (dr_hdr r)))) /\
      wf (dr_rd r) fuel /\ rd_term (dr_rd r) = rd_term rd /\ rd_ewd (dr_rd r) = rd_ewd rd
  | TPanic _ => True
  | TOutOfFuel => False
  end.
Proof.
  intros Hwf. pose proof (decode_abs o md g rd fuel Hwf) as HA.
  destruct (decode o md g rd fuel) as [r|w|]; destruct (decode_a o md g (rd_data rd) (rd_term rd)) as [a|w'|] eqn:Ea; try contradiction; try exact I.
  destruct HA as (M1 & M2 & M3 & M4 & M5 & [k M6] & M7 & M8 & M9).
  destruct (decode_a_used _ _ _ _ _ _ Ea) as (D1 & D2 & _). rewrite M2.
  split; [destruct (adv_pos_le _ _ _ M6); lia|]. split; [lia|]. split; [lia|]. split; [intros Hm; specialize (D2 Hm); lia|].
  split; [eapply adv_wf; eassumption|]. split; [apply (adv_term _ _ _ M6)|apply (adv_ewd _ _ _ M6)].
Qed.

(* (d) the whole decode does not depend on the chunk schedule, on data-with-EOF, on the fuel or on where the
   reader started: results agree field by field; the bytes consumed and the bytes left agree whenever the call
   succeeds outside the file_id-only mode (there, and after a decoder-level failure, the read-ahead of the
   4096-byte buffer depends on the chunking) *)
Definition same_result (p1 p2 : nat) (md : mode) (x y : tout dres) : Prop :=
  match x, y with
  | TDone r1, TDone r2 =>
      dr_err r1 = dr_err r2 /\ dr_hdr r1 = dr_hdr r2 /\ dr_file r1 = dr_file r2 /\ dr_g r1 = dr_g r2 /\ dr_quirks r1 = dr_quirks r2 /\
      (dr_err r1 = None -> md <> MFileIdOnly ->
       rd_pos (dr_rd r1) - p1 = rd_pos (dr_rd r2) - p2 /\ rd_data (dr_rd r1) = rd_data (dr_rd r2))
  | TPanic w1, TPanic w2 => w1 = w2
  | _, _ => False
  end.

Theorem decode_schedule_independent o md g data t sched1 sched2 ewd1 ewd2 pos1 pos2 fuel1 fuel2 :
  length data + length sched1 < fuel1 -> length data + length sched2 < fuel2 ->
  same_result pos1 pos2 md (decode o md g (mk_reader data sched1 t ewd1 pos1) fuel1)
                           (decode o md g (mk_reader data sched2 t ewd2 pos2) fuel2).
Proof.
  intros H1 H2.
  pose proof (decode_abs o md g (mk_reader data sched1 t ewd1 pos1) fuel1 H1) as A1.
  pose proof (decode_abs o md g (mk_reader data sched2 t ewd2 pos2) fuel2 H2) as A2.
  cbn [rd_data rd_term] in A1, A2. unfold same_result.
  destruct (decode o md g (mk_reader data sched1 t ewd1 pos1) fuel1) as [r1|w1|];
    destruct (decode_a o md g data t) as [a|w|] eqn:Ea; try contradiction;
    destruct (decode o md g (mk_reader data sched2 t ewd2 pos2) fuel2) as [r2|w2|]; try contradiction; [|congruence].
  destruct A1 as (M1 & M2 & M3 & M4 & M5 & M6 & M7 & M8 & M9).
  destruct A2 as (N1 & N2 & N3 & N4 & N5 & N6 & N7 & N8 & N9).
  destruct (decode_a_used _ _ _ _ _ _ Ea) as (_ & _ & D3 & _).
  repeat (split; [congruence|]).
  intros He Hm. rewrite M1 in He. specialize (D3 He Hm). cbn [rd_data] in M9.
  pose proof (adv_full _ _ _ (M8 D3) M9) as P1. pose proof (adv_full _ _ _ (N8 D3) N9) as P2. cbn [rd_pos] in P1, P2.
  split; [lia|]. rewrite (adv_data _ _ _ (M8 D3)), (adv_data _ _ _ (N8 D3)). reflexivity.
Qed.

(* ------------------------------------------------------------ prefix determinacy of decode_a *)
Lemma firstn_eq_le {A} (l l' : list A) m k : firstn m l' = firstn m l -> k <= m -> firstn k l' = firstn k l.
Proof.
  intros H Hk. rewrite <- (Nat.min_l k m Hk), <- !firstn_firstn, H. reflexivity.
Qed.

Lemma hdr_a_ext data t h crc used : hdr_a data t = (None, h, crc, used) ->
  forall data' t', firstn used data' = firstn used data -> used <= length data' -> hdr_a data' t' = (None, h, crc, used).
Proof.
  unfold hdr_a. destruct data as [|sz rest]; [discriminate|].
  destruct (negb ((sz =? c_headerSizeCRC)%N || (sz =? c_headerSizeNoCRC)%N)) eqn:Esz; [discriminate|].
  destruct (Nat.leb_spec (N.to_nat sz - 1) (length rest)) as [L|L]; [|discriminate].
  intros H data' t' Hf Hl. injection H as Hp Hu. subst used.
  destruct data' as [|sz' rest']; [cbn in Hl; lia|].
  cbn [firstn Nat.add] in Hf. injection Hf as Hsz Hrest. subst sz'. rewrite Esz.
  cbn [length] in Hl.
  destruct (Nat.leb_spec (N.to_nat sz - 1) (length rest')) as [L'|L']; [|lia].
  rewrite Hrest, Hp. reflexivity.
Qed.

Lemma crc_a_ext rest t crc f : fst (fst (crc_a rest t crc f)) = None ->
  forall rest' t', firstn 2 rest' = firstn 2 rest -> 2 <= length rest' -> crc_a rest' t' crc f = crc_a rest t crc f.
Proof.
  unfold crc_a, rf_err. destruct (Nat.leb_spec 2 (length rest)) as [L|L]; [|discriminate].
  intros _ rest' t' Hf Hl. destruct (Nat.leb_spec 2 (length rest')); [|lia]. rewrite Hf. reflexivity.
Qed.

(* a successful decode (outside the file_id-only mode) is determined by the bytes it consumed: whatever follows
   them, and whatever the reader would answer at the end, the result is the same *)
Theorem decode_a_ext o md g data t a : decode_a o md g data t = TDone a -> ar_err a = None -> md <> MFileIdOnly ->
  forall data' t', firstn (ar_used a) data' = firstn (ar_used a) data -> ar_used a <= length data' ->
  decode_a o md g data' t' = TDone a.
Proof.
  intros Hd He Hm data' t' Hf Hl. revert Hd. unfold decode_a.
  destruct (hdr_a data t) as [[[e h] crc] used] eqn:Eh.
  destruct (hdr_a_used _ _ _ _ _ _ Eh) as (U1 & U2 & U3).
  destruct e as [e|]; [intros H; inversion H; subst; discriminate|].
  set (limit := N.to_nat (h_dsize h)).
  destruct md; try congruence.
  - (* MFull *)
    pose proof (run_a_prefix (data_prog o false (S limit)) (skipn used data) t 0 limit (init_dstate (new_file h) g)) as HP.
    pose proof (run_a_ext_ok (data_prog o false (S limit)) (skipn used data) t 0 limit (init_dstate (new_file h) g)) as HX.
    destruct (run_a (data_prog o false (S limit)) (mk_ast (skipn used data) t 0 limit) (init_dstate (new_file h) g)) as [y x s|e' x s|e' x s|w|];
      try discriminate; try (intros H; inversion H; subst; discriminate).
    cbv zeta. destruct (Nat.eqb_spec (a_n x) (a_limit x)) as [En|En]; cbn [negb]; [|discriminate].
    intros H. inversion H; subst a; clear H. cbn [ar_err ar_used] in *.
    destruct HP as (P1 & P2 & P3 & P4 & P5 & P6). rewrite Nat.sub_0_r in *. rewrite P5 in En.
    destruct (crc_a_ok _ _ _ _ He) as [C1 C2]. rewrite C1 in *. rewrite P4, skipn_length, skipn_length in C2. rewrite En in *.
    assert (Hh : hdr_a data' t' = (None, h, crc, used)).
    { apply (hdr_a_ext data t); [exact Eh| |lia]. apply (firstn_eq_le _ _ (used + limit + 2)); [exact Hf|lia]. }
    rewrite Hh. fold limit.
    destruct (firstn_eq_split data data' used (limit + 2)) as [F1 F2]; [rewrite Nat.add_assoc; exact Hf|lia|lia|].
    destruct (firstn_eq_split (skipn used data) (skipn used data') limit 2) as [F3 F4]; [exact F2|rewrite skipn_length; lia|rewrite skipn_length; lia|].
    rewrite (HX y x s eq_refl (skipn used data') t'); rewrite ?Nat.sub_0_r, ?En; [|exact F3|rewrite skipn_length; lia].
    cbn [a_n a_limit a_rest]. rewrite Nat.eqb_refl. cbn [negb].
    rewrite F3. rewrite (crc_a_ext (a_rest x) t _ _ He (skipn limit (skipn used data')) t');
      [rewrite C1; reflexivity|rewrite P4; exact F4|rewrite !skipn_length; lia].
  - (* MHeaderOnly *)
    intros H. inversion H; subst a; clear H. cbn [ar_used] in *.
    rewrite (hdr_a_ext data t _ _ _ Eh data' t' Hf Hl). reflexivity.
  - (* MCrcOnly *)
    unfold cp_err. fold limit. destruct (Nat.leb_spec limit (length (skipn used data))) as [L|L];
      [|intros H; inversion H; subst; discriminate].
    intros H. inversion H; subst a; clear H. cbn [ar_err ar_used] in *.
    destruct (crc_a_ok _ _ _ _ He) as [C1 C2]. rewrite C1 in *. rewrite !skipn_length in C2. rewrite !skipn_length in L.
    assert (Hh : hdr_a data' t' = (None, h, crc, used)).
    { apply (hdr_a_ext data t); [exact Eh| |lia]. apply (firstn_eq_le _ _ (used + limit + 2)); [exact Hf|lia]. }
    rewrite Hh. fold limit.
    destruct (firstn_eq_split data data' used (limit + 2)) as [F1 F2]; [rewrite Nat.add_assoc; exact Hf|lia|lia|].
    destruct (firstn_eq_split (skipn used data) (skipn used data') limit 2) as [F3 F4]; [exact F2|rewrite skipn_length; lia|rewrite skipn_length; lia|].
    destruct (Nat.leb_spec limit (length (skipn used data'))) as [L'|L']; [|rewrite skipn_length in L'; lia].
    rewrite F3. rewrite (crc_a_ext _ t _ _ He (skipn limit (skipn used data')) t'); [rewrite C1; reflexivity|exact F4|rewrite !skipn_length; lia].
Qed.

(* ------------------------------------------------------------ DecodeChained over a byte list *)
Record cares := mk_cares {
  ca_err : option err; ca_files : list file; ca_used : nat; ca_g : gstate; ca_quirks : list N;
  ca_exact : bool      (* the position after the last decode is determined *)
}.

Fixpoint chained_a (o : dopts) (g : gstate) (data : list N) (t : term) (i files : nat) (acc : list file) (q : list N) (used0 : nat)
  : tout cares :=
  match files with
  | O => TOutOfFuel
  | S k =>
      match decode_a o MFull g data t with
      | TOutOfFuel => TOutOfFuel
      | TPanic w => TPanic w
      | TDone r =>
          match ar_err r with
          | Some e =>
              match e, i with
              | EReadSizeEOF, S _ => TDone (mk_cares None acc (used0 + ar_used r) (ar_g r) (q ++ ar_quirks r) (ar_exact r))
              | _, _ =>
                  let acc' := match ar_file r with Some f => acc ++ [f] | None => acc end in
                  TDone (mk_cares (Some e) acc' (used0 + ar_used r) (ar_g r) (q ++ ar_quirks r) (ar_exact r))
              end
          | None =>
              let acc' := match ar_file r with Some f => acc ++ [f] | None => acc end in
              chained_a o (ar_g r) (skipn (ar_used r) data) t (S i) k acc' (q ++ ar_quirks r) (used0 + ar_used r)
          end
      end
  end.

Definition cmatch (rd : reader) (used0 : nat) (x : tout cres) (y : tout cares) : Prop :=
  match x, y with
  | TDone cr, TDone ca =>
      cr_err cr = ca_err ca /\ cr_files cr = ca_files ca /\ cr_g cr = ca_g ca /\ cr_quirks cr = ca_quirks ca /\
      rd_pos rd <= rd_pos (cr_rd cr) /\
      rd_pos (cr_rd cr) + used0 <= rd_pos rd + ca_used ca /\
      (ca_exact ca = true -> rd_pos (cr_rd cr) + used0 = rd_pos rd + ca_used ca)
  | TPanic w, TPanic w' => w = w'
  | TOutOfFuel, TOutOfFuel => True
  | _, _ => False
  end.

Theorem decode_chained_abs o fuel : forall k g rd i acc q used0, wf rd fuel ->
  cmatch rd used0 (decode_chained o g rd fuel i k acc q) (chained_a o g (rd_data rd) (rd_term rd) i k acc q used0).
Proof.
  induction k as [|k IH]; intros g rd i acc q used0 Hwf; cbn [decode_chained chained_a]; [exact I|].
  pose proof (decode_abs o MFull g rd fuel Hwf) as HA.
  destruct (decode o MFull g rd fuel) as [r|w|]; destruct (decode_a o MFull g (rd_data rd) (rd_term rd)) as [a|w'|] eqn:Ea;
    try contradiction; [|exact HA].
  destruct HA as (M1 & M2 & M3 & M4 & M5 & M6 & M7 & M8 & M9).
  destruct (decode_a_used _ _ _ _ _ _ Ea) as (_ & _ & D3 & _).
  rewrite M1, M3, M4, M5.
  assert (Hpos : rd_pos rd <= rd_pos (dr_rd r)) by (destruct M6 as [n M6]; destruct (adv_pos_le _ _ _ M6); lia).
  destruct (ar_err a) as [e|] eqn:Ee.
  - assert (FIN : forall (ce : option err) (fs : list file),
              cmatch rd used0 (TDone (mk_cres ce fs (dr_rd r) (ar_g a) (q ++ ar_quirks a)))
                              (TDone (mk_cares ce fs (used0 + ar_used a) (ar_g a) (q ++ ar_quirks a) (ar_exact a)))).
    { intros ce fs. cbn. repeat split; try lia. intros Hx. rewrite (adv_full _ _ _ (M8 Hx) M9). lia. }
    destruct e; destruct i; apply FIN.
  - specialize (D3 eq_refl ltac:(discriminate)). pose proof (M8 D3) as A.
    assert (Hwf' : wf (dr_rd r) fuel) by (eapply adv_wf; eassumption).
    specialize (IH (ar_g a) (dr_rd r) (S i) (match ar_file a with Some f => acc ++ [f] | None => acc end) (q ++ ar_quirks a) (used0 + ar_used a) Hwf').
    rewrite (adv_data _ _ _ A), (adv_term _ _ _ A) in IH.
    pose proof (adv_full _ _ _ A M9) as P.
    unfold cmatch in *.
    destruct (decode_chained o (ar_g a) (dr_rd r) fuel (S i) k _ _) as [cr|w|];
      destruct (chained_a o (ar_g a) (skipn (ar_used a) (rd_data rd)) (rd_term rd) (S i) k _ _ _) as [ca|w'|]; try contradiction; try exact IH.
    destruct IH as (I1 & I2 & I3 & I4 & I5 & I6 & I7). repeat split; try assumption; try lia.
    intros Hx. specialize (I7 Hx). lia.
Qed.

(* ------------------------------------------------------------ independence of chained files *)
(* a file decoded alone: one read returning everything, clean EOF after it *)
Definition solo (bs : list N) : reader := mk_reader bs [] TEOF false 0.
Definition solo_fuel (bs : list N) : nat := S (length bs).

Lemma solo_wf bs : wf (solo bs) (solo_fuel bs).
Proof. unfold wf, solo, solo_fuel. cbn. lia. Qed.

(* [chain_ok o g bss fs g' q]: decoding the files bss one after the other, each alone, starting with the
   package-level accumulator state g and handing the state left by one decode to the next, succeeds on each,
   consumes each completely, returns the Files fs, ends in state g' and raises the quirk tags q *)
Inductive chain_ok (o : dopts) : gstate -> list (list N) -> list file -> gstate -> list N -> Prop :=
| chain_nil g : chain_ok o g [] [] g []
| chain_cons g bs r f rest fs g' q :
    decode o MFull g (solo bs) (solo_fuel bs) = TDone r -> dr_err r = None -> dr_file r = Some f ->
    rd_data (dr_rd r) = [] ->
    chain_ok o (dr_g r) rest fs g' q ->
    chain_ok o g (bs :: rest) (f :: fs) g' (dr_quirks r ++ q).

(* what one link of the chain says about decode_a *)
Lemma solo_step o md g bs r : decode o md g (solo bs) (solo_fuel bs) = TDone r -> dr_err r = None -> md <> MFileIdOnly ->
  rd_data (dr_rd r) = [] ->
  exists a, decode_a o md g bs TEOF = TDone a /\ ar_err a = None /\ ar_used a = length bs /\
            ar_file a = dr_file r /\ ar_g a = dr_g r /\ ar_quirks a = dr_quirks r /\ ar_hdr a = dr_hdr r.
Proof.
  intros Hd He Hm Hnil. pose proof (decode_abs o md g (solo bs) (solo_fuel bs) (solo_wf bs)) as HA.
  rewrite Hd in HA. cbn [solo rd_data rd_term] in HA.
  destruct (decode_a o md g bs TEOF) as [a|w|] eqn:Ea; try contradiction.
  destruct HA as (M1 & M2 & M3 & M4 & M5 & M6 & M7 & M8 & M9).
  destruct (decode_a_used _ _ _ _ _ _ Ea) as (_ & _ & D3 & _).
  rewrite M1 in He. specialize (M8 (D3 He Hm)). unfold solo in M9. cbn [rd_data] in M9.
  exists a. repeat split; try congruence.
  pose proof (adv_data _ _ _ M8) as Hdata. unfold solo in Hdata. cbn [rd_data] in Hdata. rewrite Hnil in Hdata.
  assert (length (skipn (ar_used a) bs) = 0) by (rewrite <- Hdata; reflexivity). rewrite skipn_length in H. lia.
Qed.

Lemma chain_a o g bss fs g' q : chain_ok o g bss fs g' q ->
  forall i k acc q0 u0, (bss = [] -> i <> 0) -> length bss < k ->
  chained_a o g (concat bss) TEOF i k acc q0 u0 =
  TDone (mk_cares None (acc ++ fs) (u0 + length (concat bss)) g' (q0 ++ q) true).
Proof.
  induction 1 as [g|g bs r f rest fs g' q Hd He Hf Hnil Hc IH]; intros i k acc q0 u0 Hi Hk.
  - destruct k as [|k]; [cbn in Hk; lia|]. destruct i as [|i]; [exfalso; apply Hi; reflexivity|].
    cbn. rewrite !app_nil_r, Nat.add_0_r. reflexivity.
  - destruct k as [|k]; [cbn in Hk; lia|]. cbn [length] in Hk.
    destruct (solo_step o MFull g bs r Hd He ltac:(discriminate) Hnil) as (a & Ea & A1 & A2 & A3 & A4 & A5 & A6).
    cbn [concat chained_a].
    rewrite (decode_a_ext o MFull g bs TEOF a Ea A1 ltac:(discriminate) (bs ++ concat rest) TEOF);
      [|rewrite A2, firstn_app, Nat.sub_diag; cbn [firstn]; rewrite app_nil_r; reflexivity
       |rewrite A2, app_length; lia].
    rewrite A1, A3, Hf, A4, A5, A2.
    rewrite skipn_app, Nat.sub_diag, skipn_all. cbn [skipn app].
    rewrite (IH (S i) k (acc ++ [f]) (q0 ++ dr_quirks r) (u0 + length bs)); [|discriminate|lia].
    rewrite <- !app_assoc, app_length. cbn [app]. f_equal. f_equal. lia.
Qed.

Lemma chain_ok_lengths o g bss fs g' q : chain_ok o g bss fs g' q -> length bss <= length (concat bss) /\ length fs = length bss.
Proof.
  induction 1 as [g|g bs r f rest fs g' q Hd He Hf Hnil Hc IH]; [cbn; lia|].
  destruct (solo_step o MFull g bs r Hd He ltac:(discriminate) Hnil) as (a & Ea & A1 & A2 & _).
  destruct (decode_a_used _ _ _ _ _ _ Ea) as (_ & _ & _ & _ & D5).
  specialize (D5 A1 (or_introl eq_refl)). cbn [concat length]. rewrite app_length. lia.
Qed.

(* (e) DecodeChained over a concatenation of files that decode alone returns one File per input, each the File of
   the solo decode (in the accumulator state left by the files before it), whatever the chunking *)
Theorem chained_concat o g bss fs g' q : chain_ok o g bss fs g' q -> bss <> [] ->
  forall rd fuel, rd_data rd = concat bss -> rd_term rd = TEOF -> wf rd fuel ->
  exists cr, entry_DecodeChained o g rd fuel = TDone cr /\ cr_err cr = None /\ cr_files cr = fs /\ cr_g cr = g' /\
             cr_quirks cr = q /\ rd_pos (cr_rd cr) = rd_pos rd + length (concat bss).
Proof.
  intros Hc Hne rd fuel Hd Ht Hwf. unfold entry_DecodeChained.
  pose proof (decode_chained_abs o fuel (S (length (rd_data rd))) g rd 0 [] [] 0 Hwf) as HA.
  rewrite Hd, Ht in HA. destruct (chain_ok_lengths _ _ _ _ _ _ Hc) as [HL _].
  rewrite (chain_a o g bss fs g' q Hc 0 (S (length (concat bss))) [] [] 0) in HA; [|intros; contradiction|lia].
  rewrite Hd. destruct (decode_chained o g rd fuel 0 (S (length (concat bss))) [] []) as [cr|w|]; try contradiction.
  destruct HA as (C1 & C2 & C3 & C4 & C5 & C6 & C7). cbn in *. exists cr. repeat split; try assumption.
  specialize (C7 eq_refl). lia.
Qed.

(* the header reported does not depend on the mode: DecodeHeader, DecodeHeaderAndFileID, CheckIntegrity and Decode
   report the same header (and fail alike in the header stage) on the same bytes *)
Lemma decode_a_hdr o md g data t a : decode_a o md g data t = TDone a ->
  ar_hdr a = snd (fst (fst (hdr_a data t))) /\
  (forall e, fst (fst (fst (hdr_a data t))) = Some e -> ar_err a = Some e).
Proof.
  unfold decode_a. destruct (hdr_a data t) as [[[e h] crc] used]. cbn [fst snd].
  destruct e as [e|]; [intros H; inversion H; subst; fields; split; [reflexivity|intros e' E; congruence]|].
  destruct md; try (destruct (run_a _ _ _); try discriminate; cbv zeta; try destruct (negb _); try discriminate);
    try (destruct (cp_err _ _ _));
    intros H; inversion H; subst; fields; (split; [reflexivity|discriminate]).
Qed.

Theorem header_agree o1 o2 md1 md2 g1 g2 rd1 rd2 fuel1 fuel2 r1 r2 : wf rd1 fuel1 -> wf rd2 fuel2 ->
  rd_data rd1 = rd_data rd2 -> rd_term rd1 = rd_term rd2 ->
  decode o1 md1 g1 rd1 fuel1 = TDone r1 -> decode o2 md2 g2 rd2 fuel2 = TDone r2 ->
  dr_hdr r1 = dr_hdr r2.
Proof.
  intros W1 W2 Hd Ht D1 D2.
  pose proof (decode_abs o1 md1 g1 rd1 fuel1 W1) as A1. pose proof (decode_abs o2 md2 g2 rd2 fuel2 W2) as A2.
  rewrite D1 in A1. rewrite D2 in A2. rewrite Hd, Ht in A1.
  destruct (decode_a o1 md1 g1 (rd_data rd2) (rd_term rd2)) as [a1|w|] eqn:E1; try contradiction.
  destruct (decode_a o2 md2 g2 (rd_data rd2) (rd_term rd2)) as [a2|w|] eqn:E2; try contradiction.
  destruct A1 as (_ & M2 & _). destruct A2 as (_ & N2 & _).
  destruct (decode_a_hdr _ _ _ _ _ _ E1) as [H1 _]. destruct (decode_a_hdr _ _ _ _ _ _ E2) as [H2 _]. congruence.
Qed.

(* a tiny concrete file: a 12-byte header announcing no data, followed by its checksum *)
Definition tiny_file : list N := [12; 16; 100; 0; 0; 0; 0; 0; 46; 70; 73; 84]%N.

(* ------------------------------------------------------------ the entry points by name *)
Corollary Decode_consumed_exact o g rd fuel r : wf rd fuel -> entry_Decode o g rd fuel = TDone r -> dr_err r = None ->
  rd_pos (dr_rd r) = rd_pos rd + N.to_nat (h_size (dr_hdr r)) + N.to_nat (h_dsize (dr_hdr r)) + 2.
Proof. intros W D E. exact (decode_consumed_exact o MFull g rd fuel r W (or_introl eq_refl) D E). Qed.

Corollary CheckIntegrity_consumed_exact g rd fuel r : wf rd fuel -> entry_CheckIntegrity false g rd fuel = TDone r -> dr_err r = None ->
  rd_pos (dr_rd r) = rd_pos rd + N.to_nat (h_size (dr_hdr r)) + N.to_nat (h_dsize (dr_hdr r)) + 2.
Proof. intros W D E. exact (decode_consumed_exact no_opts MCrcOnly g rd fuel r W (or_intror eq_refl) D E). Qed.

Corollary DecodeHeader_consumed_exact g rd fuel r : wf rd fuel -> entry_DecodeHeader g rd fuel = TDone r -> dr_err r = None ->
  rd_pos (dr_rd r) = rd_pos rd + N.to_nat (h_size (dr_hdr r)).
Proof. intros W D E. exact (decode_header_only_exact no_opts g rd fuel r W D E). Qed.

(* DecodeChained does not depend on the chunk schedule either *)
Corollary chained_schedule_independent o g data t sched1 sched2 ewd1 ewd2 pos1 pos2 fuel1 fuel2 :
  length data + length sched1 < fuel1 -> length data + length sched2 < fuel2 ->
  match entry_DecodeChained o g (mk_reader data sched1 t ewd1 pos1) fuel1,
        entry_DecodeChained o g (mk_reader data sched2 t ewd2 pos2) fuel2 with
  | TDone c1, TDone c2 => cr_err c1 = cr_err c2 /\ cr_files c1 = cr_files c2 /\ cr_g c1 = cr_g c2 /\ cr_quirks c1 = cr_quirks c2
  | TPanic w1, TPanic w2 => w1 = w2
  | TOutOfFuel, TOutOfFuel => True
  | _, _ => False
  end.
Proof.
  intros H1 H2. unfold entry_DecodeChained. cbn [rd_data].
  pose proof (decode_chained_abs o fuel1 (S (length data)) g (mk_reader data sched1 t ewd1 pos1) 0 [] [] 0 H1) as A1.
  pose proof (decode_chained_abs o fuel2 (S (length data)) g (mk_reader data sched2 t ewd2 pos2) 0 [] [] 0 H2) as A2.
  cbn [rd_data rd_term] in A1, A2. unfold cmatch in *.
  destruct (decode_chained o g (mk_reader data sched1 t ewd1 pos1) fuel1 0 (S (length data)) [] []) as [c1|w1|];
    destruct (chained_a o g data t 0 (S (length data)) [] [] 0) as [ca|w|]; try contradiction;
    destruct (decode_chained o g (mk_reader data sched2 t ewd2 pos2) fuel2 0 (S (length data)) [] []) as [c2|w2|]; try contradiction;
    try exact I; [|congruence].
  destruct A1 as (X1 & X2 & X3 & X4 & _). destruct A2 as (Y1 & Y2 & Y3 & Y4 & _). repeat split; congruence.
Qed.
