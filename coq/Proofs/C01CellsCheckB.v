(* C01: evaluation of the cell check (Proofs/C01Cells.v) over the native array
   descriptors, the time and coordinate descriptors, and the definitions of
   fields the profile does not list. *)
From Coq Require Import NArith List Bool.
From FitV Require Import Proofs.Util Proofs.C01Cells.
Local Open Scope N_scope.

Lemma plane_native_array : plane_ok 0 true = true.
Proof. vm_compute. reflexivity. Qed.

Lemma plane_time_utc : plane_ok 1 false = true.
Proof. vm_compute. reflexivity. Qed.
Lemma plane_time_local : plane_ok 2 false = true.
Proof. vm_compute. reflexivity. Qed.
Lemma plane_lat : plane_ok 3 false = true.
Proof. vm_compute. reflexivity. Qed.
Lemma plane_lng : plane_ok 4 false = true.
Proof. vm_compute. reflexivity. Qed.

Lemma nodesc_ok_true : nodesc_ok_on (Util.range 256 0) = true.
Proof. vm_compute. reflexivity. Qed.
