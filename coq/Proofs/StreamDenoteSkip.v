(* Corollaries of the reference semantics (Spec/FitSyntax.v) that the properties
   C02 -- unknown content is skipped -- and C12 -- compressed timestamps -- need.
   Everything here is about [denote_from] / [denote_data] / [denote_fields] only;
   the decoder model is related to them by the stream theorem. *)
From Coq Require Import NArith ZArith List Bool Lia Arith.
From Coq Require Import ZifyN ZifyNat ZifyBool.
From FitV Require Import Model.Values Model.Bytes Model.Base Model.Profile Spec.FitSyntax Gen.Consts
  Proofs.DecodeLemmas Proofs.StreamDenoteDefs Proofs.StreamDenoteData.
Import ListNotations.
Local Open Scope N_scope.
Ltac Zify.zify_post_hook ::= Z.div_mod_to_equations.

(* ------------------------------------------------------------ list helpers *)

Lemma firstn_app_len {A} (a b : list A) n : List.length a = n -> firstn n (a ++ b) = a.
Proof.
  intros <-. induction a as [|x a IH]; [reflexivity|].
  cbn [List.length app firstn]. now rewrite IH.
Qed.

Lemma skipn_app_len {A} (a b : list A) n : List.length a = n -> skipn n (a ++ b) = b.
Proof.
  intros <-. induction a as [|x a IH]; [reflexivity|].
  cbn [List.length app skipn]. exact IH.
Qed.

Lemma nth_error_set_at_other {A} (x : A) : forall l i j, i <> j -> nth_error (set_at j x l) i = nth_error l i.
Proof.
  induction l as [|a l IH]; intros i j Hij; [destruct j; reflexivity|].
  destruct j as [|j]; destruct i as [|i]; cbn [set_at nth_error]; try reflexivity; try congruence.
  apply IH. congruence.
Qed.

Lemma nth_error_set_at_same {A} (x : A) : forall l i, (i < List.length l)%nat -> nth_error (set_at i x l) i = Some x.
Proof.
  induction l as [|a l IH]; intros i Hi; cbn [List.length] in Hi; [lia|].
  destruct i as [|i]; cbn [set_at nth_error]; [reflexivity|]. apply IH. lia.
Qed.

Lemma set_at_length {A} (x : A) : forall l i, List.length (set_at i x l) = List.length l.
Proof.
  induction l as [|a l IH]; intros i; [destruct i; reflexivity|].
  destruct i as [|i]; cbn [set_at List.length]; [reflexivity|]. now rewrite IH.
Qed.

(* ------------------------------------------------------------ states equal up to the unknown-message counters *)

Definition same_core (a b : sstate) : Prop :=
  ss_env a = ss_env b /\ ss_ref a = ss_ref b /\ ss_msgs a = ss_msgs b /\ ss_unkf a = ss_unkf b.

Lemma same_core_refl a : same_core a a.
Proof. unfold same_core. auto. Qed.

Lemma same_core_sym a b : same_core a b -> same_core b a.
Proof. unfold same_core. intros (H1 & H2 & H3 & H4). auto. Qed.

Lemma same_core_trans a b c : same_core a b -> same_core b c -> same_core a c.
Proof.
  unfold same_core. intros (H1 & H2 & H3 & H4) (K1 & K2 & K3 & K4).
  repeat split; etransitivity; eassumption.
Qed.

(* ------------------------------------------------------------ A. unknown messages *)

(* A1: a plain data record of an unknown message only bumps its counter *)
Theorem unknown_data_skipped : forall s l pay dev d s',
  lookup_def (ss_env s) l = Some d -> known_msg (sd_gmn d) = false ->
  denote_data s l None pay dev = Some s' ->
  s' = mk_sstate (ss_env s) (ss_ref s) (ss_msgs s) (count1 (sd_gmn d) (ss_unkm s)) (ss_unkf s).
Proof.
  intros s l pay dev d s' Hl Hk Hd. unfold denote_data in Hd. rewrite Hl in Hd.
  destruct (negb _ || negb _); [discriminate|]. rewrite Hk in Hd.
  injection Hd as <-. reflexivity.
Qed.

(* A1c: a compressed one also advances the reference by the rule *)
Theorem unknown_comp_skipped : forall s l off pay dev d s',
  lookup_def (ss_env s) l = Some d -> known_msg (sd_gmn d) = false ->
  denote_data s l (Some off) pay dev = Some s' ->
  s' = mk_sstate (ss_env s) (match ss_ref s with Some r => Some (roll r off) | None => None end)
         (ss_msgs s) (count1 (sd_gmn d) (ss_unkm s)) (ss_unkf s).
Proof.
  intros s l off pay dev d s' Hl Hk Hd. unfold denote_data in Hd. rewrite Hl in Hd.
  destruct (negb _ || negb _); [discriminate|]. rewrite Hk in Hd.
  injection Hd as <-. destruct (ss_ref s) as [r|]; reflexivity.
Qed.

(* A2: the unknown-message counters never influence anything else *)
Lemma denote_data_same_core : forall a b l off pay dev a',
  same_core a b -> denote_data a l off pay dev = Some a' ->
  exists b', denote_data b l off pay dev = Some b' /\ same_core a' b'.
Proof.
  intros [env ref msgs ua uf] [env' ref' msgs' ub uf'] l off pay dev a'.
  unfold same_core. cbn [ss_env ss_ref ss_msgs ss_unkf]. intros (<- & <- & <- & <-).
  unfold denote_data. cbn [ss_env ss_ref ss_msgs ss_unkm ss_unkf].
  destruct (lookup_def env l) as [d|]; [|discriminate].
  destruct (negb _ || negb _); [discriminate|].
  destruct (known_msg (sd_gmn d)).
  - destruct (mesg_all_invalid (sd_gmn d)) as [m0|]; [|discriminate].
    destruct off as [o|]; destruct ref as [r|]; cbv beta iota zeta;
      match goal with |- context [denote_fields ?x1 ?x2 ?x3 ?x4 ?x5 ?x6 ?x7] =>
        destruct (denote_fields x1 x2 x3 x4 x5 x6 x7) as [[m2 ref2] unl] end;
      intros Ha; injection Ha as <-; eexists; (split; [reflexivity|]);
      cbn [ss_env ss_ref ss_msgs ss_unkf]; repeat split.
  - intros Ha; injection Ha as <-. eexists. split; [reflexivity|].
    cbn [ss_env ss_ref ss_msgs ss_unkf]. repeat split.
Qed.

Lemma denote_record_same_core : forall r a b a',
  same_core a b -> denote_record a r = Some a' ->
  exists b', denote_record b r = Some b' /\ same_core a' b'.
Proof.
  intros [l be gmn fds devflag devs | l pay dev | l off pay dev] a b a' Hab Ha; cbn [denote_record] in *.
  - destruct ((16 <=? l) || (gmn =? c_MesgNumInvalid) || negb (forallb (compat gmn) fds)); [discriminate|].
    injection Ha as <-. eexists. split; [reflexivity|].
    destruct Hab as (H1 & H2 & H3 & H4). unfold same_core. cbn [ss_env ss_ref ss_msgs ss_unkf].
    rewrite H1, H2, H3, H4. repeat split.
  - eapply denote_data_same_core; eassumption.
  - destruct (4 <=? l); [discriminate|]. eapply denote_data_same_core; eassumption.
Qed.

Theorem denote_from_same_core : forall rs a b a',
  same_core a b -> denote_from a rs = Some a' ->
  exists b', denote_from b rs = Some b' /\ same_core a' b'.
Proof.
  induction rs as [|r rs IH]; intros a b a' Hab Ha; cbn [denote_from] in *.
  - injection Ha as <-. exists b. split; [reflexivity|exact Hab].
  - destruct (denote_record a r) as [a1|] eqn:Ea; [|discriminate].
    destruct (denote_record_same_core r a b a1 Hab Ea) as (b1 & Eb & Hab1).
    rewrite Eb. eapply IH; eassumption.
Qed.

(* A3: a data record of an unknown message can be deleted from the stream *)
Lemma denote_from_app : forall rs1 rs2 s,
  denote_from s (rs1 ++ rs2) =
  match denote_from s rs1 with Some s' => denote_from s' rs2 | None => None end.
Proof.
  induction rs1 as [|r rs1 IH]; intros rs2 s; cbn [app denote_from]; [reflexivity|].
  destruct (denote_record s r) as [s1|]; [apply IH|reflexivity].
Qed.

Theorem unknown_record_deletable : forall rs1 l pay dev rs2 s sm d s1,
  denote_from s rs1 = Some sm -> lookup_def (ss_env sm) l = Some d -> known_msg (sd_gmn d) = false ->
  denote_from s (rs1 ++ RData l pay dev :: rs2) = Some s1 ->
  exists s2, denote_from s (rs1 ++ rs2) = Some s2 /\ same_core s1 s2.
Proof.
  intros rs1 l pay dev rs2 s sm d s1 Hsm Hl Hk H1.
  rewrite denote_from_app, Hsm in H1. rewrite denote_from_app, Hsm.
  cbn [denote_from denote_record] in H1.
  destruct (denote_data sm l None pay dev) as [sm'|] eqn:Ed; [|discriminate].
  pose proof (unknown_data_skipped sm l pay dev d sm' Hl Hk Ed) as Esm'.
  apply (denote_from_same_core rs2 sm' sm s1); [|exact H1].
  rewrite Esm'. unfold same_core. cbn [ss_env ss_ref ss_msgs ss_unkf]. repeat split.
Qed.

(* the surviving stream is well-formed exactly when the original one is, too: the converse direction *)
Theorem unknown_record_insertable : forall rs1 l pay dev rs2 s sm d s2,
  denote_from s rs1 = Some sm -> lookup_def (ss_env sm) l = Some d -> known_msg (sd_gmn d) = false ->
  List.length pay = payload_size d -> List.length dev = sd_devsize d ->
  denote_from s (rs1 ++ rs2) = Some s2 ->
  exists s1, denote_from s (rs1 ++ RData l pay dev :: rs2) = Some s1 /\ same_core s1 s2.
Proof.
  intros rs1 l pay dev rs2 s sm d s2 Hsm Hl Hk Hp Hd H2.
  rewrite denote_from_app, Hsm in H2. rewrite denote_from_app, Hsm.
  cbn [denote_from denote_record].
  assert (Ed : denote_data sm l None pay dev =
               Some (mk_sstate (ss_env sm) (ss_ref sm) (ss_msgs sm) (count1 (sd_gmn d) (ss_unkm sm)) (ss_unkf sm))).
  { unfold denote_data. rewrite Hl, Hp, Hd, !Nat.eqb_refl. cbn [negb orb]. rewrite Hk. reflexivity. }
  rewrite Ed.
  destruct (denote_from_same_core rs2 sm (mk_sstate (ss_env sm) (ss_ref sm) (ss_msgs sm)
              (count1 (sd_gmn d) (ss_unkm sm)) (ss_unkf sm)) s2) as (s1 & E1 & Hc); [|exact H2|].
  - unfold same_core. cbn [ss_env ss_ref ss_msgs ss_unkf]. repeat split.
  - exists s1. split; [exact E1|]. apply same_core_sym. exact Hc.
Qed.

(* ------------------------------------------------------------ B. unlisted fields *)

Lemma denote_fields_unl_irrelevant : forall be gmn fds pay m ref unl unl',
  fst (denote_fields be gmn fds pay m ref unl) = fst (denote_fields be gmn fds pay m ref unl').
Proof.
  intros be gmn. induction fds as [|f r IH]; intros pay m ref unl unl'; cbn [denote_fields]; [reflexivity|].
  destruct (get_field gmn (sf_num f)) as [p|]; apply IH.
Qed.

Lemma unlisted_field_skipped_pair : forall be gmn f f2 b p2, get_field gmn (sf_num f) = None ->
  List.length b = N.to_nat (sf_size f) ->
  forall f1 p1 m ref unl, List.length p1 = psize f1 ->
  fst (denote_fields be gmn (f1 ++ f :: f2) (p1 ++ b ++ p2) m ref unl) =
  fst (denote_fields be gmn (f1 ++ f2) (p1 ++ p2) m ref unl).
Proof.
  intros be gmn f f2 b p2 Hg Hb. induction f1 as [|a f1 IH]; intros p1 m ref unl Hp1.
  - cbn [psize fold_right] in Hp1. destruct p1; [|discriminate]. cbn [app denote_fields]. rewrite Hg.
    rewrite (skipn_app_len b p2 _ Hb). apply denote_fields_unl_irrelevant.
  - cbn [psize fold_right] in Hp1. fold (psize f1) in Hp1.
    set (sz := N.to_nat (sf_size a)) in *.
    assert (Hpa : List.length (firstn sz p1) = sz) by (rewrite firstn_length; lia).
    assert (Hpb : List.length (skipn sz p1) = psize f1) by (rewrite skipn_length; lia).
    rewrite <- (firstn_skipn sz p1). rewrite <- !app_assoc.
    cbn [app denote_fields]. fold sz.
    rewrite !(firstn_app_len (firstn sz p1) _ sz Hpa), !(skipn_app_len (firstn sz p1) _ sz Hpa).
    destruct (get_field gmn (sf_num a)) as [p|]; apply IH; exact Hpb.
Qed.

Theorem unlisted_field_skipped : forall be gmn f1 f f2 p1 b p2 m ref unl,
  get_field gmn (sf_num f) = None -> List.length p1 = psize f1 -> List.length b = N.to_nat (sf_size f) ->
  let r := denote_fields be gmn (f1 ++ f :: f2) (p1 ++ b ++ p2) m ref unl in
  let r' := denote_fields be gmn (f1 ++ f2) (p1 ++ p2) m ref unl in
  fst (fst r) = fst (fst r') /\ snd (fst r) = snd (fst r').
Proof.
  intros be gmn f1 f f2 p1 b p2 m ref unl Hg Hp1 Hb r r'. subst r r'.
  rewrite (unlisted_field_skipped_pair be gmn f f2 b p2 Hg Hb f1 p1 m ref unl Hp1). split; reflexivity.
Qed.

(* ------------------------------------------------------------ C. developer bytes *)

Theorem dev_bytes_ignored : forall s l off pay dev dev',
  List.length dev = List.length dev' -> denote_data s l off pay dev = denote_data s l off pay dev'.
Proof. intros s l off pay dev dev' H. unfold denote_data. rewrite H. reflexivity. Qed.

(* ------------------------------------------------------------ D. compressed timestamps (C12) *)

(* without an explicit timestamp field the field loop leaves the reference alone *)
Lemma denote_fields_ref_no_ts : forall be gmn fds pay m ref unl,
  (forall f, In f fds -> sf_num f <> c_fieldNumTimeStamp) ->
  snd (fst (denote_fields be gmn fds pay m ref unl)) = ref.
Proof.
  intros be gmn. induction fds as [|f r IH]; intros pay m ref unl Hno; cbn [denote_fields]; [reflexivity|].
  assert (Hf : (sf_num f =? c_fieldNumTimeStamp) = false) by (apply N.eqb_neq, Hno; left; reflexivity).
  assert (Hr : forall g, In g r -> sf_num g <> c_fieldNumTimeStamp) by (intros g Hg; apply Hno; right; exact Hg).
  destruct (get_field gmn (sf_num f)) as [p|]; [|apply IH; exact Hr].
  rewrite Hf. cbn [andb]. apply IH; exact Hr.
Qed.

(* the field loop only writes the struct indices of the listed fields of its field list *)
Lemma denote_fields_keeps_index : forall be gmn i fds pay m ref unl,
  (forall f q, In f fds -> get_field gmn (sf_num f) = Some q -> pf_sindex q <> i) ->
  nth_error (m_fields (fst (fst (denote_fields be gmn fds pay m ref unl)))) i = nth_error (m_fields m) i.
Proof.
  intros be gmn i. induction fds as [|f r IH]; intros pay m ref unl Hno; cbn [denote_fields]; [reflexivity|].
  assert (Hr : forall g q, In g r -> get_field gmn (sf_num g) = Some q -> pf_sindex q <> i)
    by (intros g q Hg; apply Hno; right; exact Hg).
  destruct (get_field gmn (sf_num f)) as [p|] eqn:Eg; [|apply IH; exact Hr].
  rewrite IH by exact Hr.
  destruct (denote_field _ _ _ _ _ _) as [x|]; [|reflexivity].
  cbn [m_fields]. apply nth_error_set_at_other.
  intros E. apply (Hno f p (or_introl eq_refl) Eg). symmetry. exact E.
Qed.

(* D1: with no explicit timestamp in the record, the reference after a compressed record is the rule *)
Theorem compressed_ref_rule : forall s l off pay dev s' d r,
  lookup_def (ss_env s) l = Some d -> ss_ref s = Some r ->
  (forall f, In f (sd_fds d) -> sf_num f <> c_fieldNumTimeStamp) ->
  denote_data s l (Some off) pay dev = Some s' ->
  ss_ref s' = Some (roll r off).
Proof.
  intros s l off pay dev s' d r Hl Hr Hno Hd. unfold denote_data in Hd. rewrite Hl, Hr in Hd.
  destruct (negb _ || negb _); [discriminate|].
  destruct (known_msg (sd_gmn d)).
  - destruct (mesg_all_invalid (sd_gmn d)) as [m0|]; [|discriminate].
    cbv beta iota zeta in Hd.
    match type of Hd with context [denote_fields ?x1 ?x2 ?x3 ?x4 ?x5 ?x6 ?x7] =>
      pose proof (denote_fields_ref_no_ts x1 x2 x3 x4 x5 x6 x7 Hno) as Href;
      destruct (denote_fields x1 x2 x3 x4 x5 x6 x7) as [[m2 ref2] unl] end.
    cbn [fst snd] in Href. injection Hd as <-. cbn [ss_ref]. exact Href.
  - injection Hd as <-. reflexivity.
Qed.

(* D2: and the message carries that instant in its timestamp field *)
Theorem compressed_stamp : forall s l off pay dev s' d r p m0,
  lookup_def (ss_env s) l = Some d -> ss_ref s = Some r ->
  known_msg (sd_gmn d) = true -> get_field (sd_gmn d) c_fieldNumTimeStamp = Some p ->
  (forall f q, In f (sd_fds d) -> get_field (sd_gmn d) (sf_num f) = Some q -> pf_sindex q <> pf_sindex p) ->
  mesg_all_invalid (sd_gmn d) = Some m0 -> (pf_sindex p < List.length (m_fields m0))%nat ->
  denote_data s l (Some off) pay dev = Some s' ->
  exists m, ss_msgs s' = ss_msgs s ++ [m] /\
            nth_error (m_fields m) (pf_sindex p) = Some (time_of (roll r off)).
Proof.
  intros s l off pay dev s' d r p m0 Hl Hr Hk Hp Hno Hm0 Hlt Hd.
  unfold denote_data in Hd. rewrite Hl, Hr, Hk, Hm0, Hp in Hd.
  destruct (negb _ || negb _); [discriminate|].
  cbv beta iota zeta in Hd.
  match type of Hd with context [denote_fields ?x1 ?x2 ?x3 ?x4 ?x5 ?x6 ?x7] =>
    pose proof (denote_fields_keeps_index x1 x2 (pf_sindex p) x3 x4 x5 x6 x7 Hno) as Hidx;
    destruct (denote_fields x1 x2 x3 x4 x5 x6 x7) as [[m2 ref2] unl] end.
  cbn [fst m_fields] in Hidx. injection Hd as <-. cbn [ss_msgs].
  exists m2. split; [reflexivity|]. rewrite Hidx. apply nth_error_set_at_same. exact Hlt.
Qed.

(* D3: the rule, for [roll] *)
Theorem roll_rule : forall r off, off < 32 -> r + 32 < 2 ^ 32 ->
  roll r off mod 32 = off /\ r <= roll r off < r + 32.
Proof.
  intros r off Ho Hr. unfold roll.
  pose proof (rollover_rule r off Ho) as H. cbv zeta in H.
  rewrite (N.mod_small (r + _)) by lia. exact H.
Qed.

(* D4: before any timestamp, compressed records are decoded as plain ones *)
Theorem no_reference_unstamped : forall s l off pay dev,
  ss_ref s = None -> denote_data s l (Some off) pay dev = denote_data s l None pay dev.
Proof. intros s l off pay dev Hr. unfold denote_data. rewrite Hr. reflexivity. Qed.

Print Assumptions unknown_record_deletable.
Print Assumptions unlisted_field_skipped.
Print Assumptions compressed_ref_rule.
Print Assumptions compressed_stamp.
