(* C18 at the message level: what one expandComponents call does to each named field, and the running
   Distance sum over a message sequence stored by a container that holds records. *)
From Coq Require Import NArith ZArith List Bool String Lia Arith.
From Coq Require Import ZifyN ZifyNat ZifyBool.
From FitV Require Import Proofs.Util Model.Values Model.Reflect Model.Profile Model.Components Model.Route
  Spec.RouteSpec Spec.ComponentSpec Proofs.ComponentProofs Proofs.RouteProofs Proofs.C18Defs Gen.Consts.
Import ListNotations.
Local Open Scope string_scope.
Local Open Scope N_scope.
Ltac Zify.zify_post_hook ::= Z.div_mod_to_equations.

(* ================================================================== A. field names *)

(* the name is a struct field of message number n, inside the layout *)
Definition fok (n : N) (name : string) : Prop :=
  exists i, sindex_of n name = Some i /\ (i < List.length (msg_layout n))%nat.

Definition fokb (n : N) (name : string) : bool :=
  match sindex_of n name with Some i => Nat.ltb i (List.length (msg_layout n)) | None => false end.

Fixpoint nodup_nat (l : list nat) : bool :=
  match l with [] => true | x :: r => negb (existsb (Nat.eqb x) r) && nodup_nat r end.

(* all names exist, lie inside the layout, and have pairwise distinct indices *)
Definition names_ok (n : N) (names : list string) : bool :=
  forallb (fokb n) names &&
  nodup_nat (map (fun s => match sindex_of n s with Some i => i | None => O end) names).

Lemma fokb_fok n s : fokb n s = true -> fok n s.
Proof.
  unfold fokb, fok. destruct (sindex_of n s) as [i|]; [|discriminate].
  intros H. exists i. split; [reflexivity|]. now apply Nat.ltb_lt.
Qed.

Lemma names_ok_fok n l s : names_ok n l = true -> In s l -> fok n s.
Proof.
  unfold names_ok. intros H Hin. apply andb_prop in H. destruct H as [H _].
  rewrite forallb_forall in H. apply fokb_fok. now apply H.
Qed.

Lemma nodup_nat_spec {A} (f : A -> nat) : forall l a b, nodup_nat (map f l) = true -> In a l -> In b l -> f a = f b -> a = b.
Proof.
  induction l as [|x r IH]; intros a b H Ha Hb E; [contradiction|].
  cbn [map nodup_nat] in H. apply andb_prop in H. destruct H as [Hx Hr].
  apply negb_true_iff in Hx.
  assert (Hnot : forall c, In c r -> f x <> f c).
  { intros c Hc Ec. assert (existsb (Nat.eqb (f x)) (map f r) = true) as Hex.
    { apply existsb_exists. exists (f c). split; [now apply in_map|]. now apply Nat.eqb_eq. }
    congruence. }
  destruct Ha as [<-|Ha]; destruct Hb as [<-|Hb]; auto.
  - exfalso. now apply (Hnot b).
  - exfalso. apply (Hnot a Ha). now symmetry.
Qed.

Lemma names_ok_ne n l a b : names_ok n l = true -> In a l -> In b l -> a <> b -> sindex_of n a <> sindex_of n b.
Proof.
  intros H Ha Hb Hne E. pose proof (names_ok_fok n l a H Ha) as (i & Hi & _).
  unfold names_ok in H. apply andb_prop in H. destruct H as [_ H].
  apply Hne. apply (nodup_nat_spec _ l a b H Ha Hb). now rewrite E.
Qed.

Definition record_names : list string :=
  ["Altitude"; "EnhancedAltitude"; "Speed"; "EnhancedSpeed"; "CompressedSpeedDistance"; "Distance";
   "Cycles"; "TotalCycles"; "CompressedAccumulatedPower"; "AccumulatedPower"].
Definition session_lap_names : list string :=
  ["AvgSpeed"; "EnhancedAvgSpeed"; "MaxSpeed"; "EnhancedMaxSpeed"; "AvgAltitude"; "EnhancedAvgAltitude";
   "MaxAltitude"; "EnhancedMaxAltitude"; "MinAltitude"; "EnhancedMinAltitude"].
Definition segment_lap_names : list string :=
  ["AvgAltitude"; "EnhancedAvgAltitude"; "MaxAltitude"; "EnhancedMaxAltitude"; "MinAltitude"; "EnhancedMinAltitude"].
Definition event_names : list string :=
  ["Data16"; "Data"; "Event"; "Score"; "OpponentScore"; "RearGearNum"; "RearGear"; "FrontGearNum"; "FrontGear"].

Lemma record_names_ok : names_ok c_MesgNumRecord record_names = true.
Proof. vm_compute. reflexivity. Qed.
Lemma session_names_ok : names_ok c_MesgNumSession session_lap_names = true.
Proof. vm_compute. reflexivity. Qed.
Lemma lap_names_ok : names_ok c_MesgNumLap session_lap_names = true.
Proof. vm_compute. reflexivity. Qed.
Lemma segment_lap_names_ok : names_ok c_MesgNumSegmentLap segment_lap_names = true.
Proof. vm_compute. reflexivity. Qed.
Lemma event_names_ok : names_ok c_MesgNumEvent event_names = true.
Proof. vm_compute. reflexivity. Qed.

(* the facts in the form the lemmas below consume, for a message whose number is known *)
Lemma msg_names_fok m n l s : m_num m = n -> names_ok n l = true -> In s l -> fok (m_num m) s.
Proof. intros ->. apply names_ok_fok. Qed.
Lemma msg_names_ne m n l a b : m_num m = n -> names_ok n l = true -> In a l -> In b l -> a <> b ->
  sindex_of (m_num m) a <> sindex_of (m_num m) b.
Proof. intros ->. apply names_ok_ne. Qed.

(* ================================================================== field algebra by name *)

Lemma set_fld_shape m a v : msg_shape m -> msg_shape (set_fld m a v).
Proof. unfold msg_shape. intros H. now rewrite set_fld_length, set_fld_num. Qed.
Lemma widen16_shape m s d : msg_shape m -> msg_shape (widen16 m s d).
Proof. unfold msg_shape. intros H. now rewrite widen16_length, widen16_num. Qed.

Lemma fld_set_eq m a v : msg_shape m -> fok (m_num m) a -> fld (set_fld m a v) a = v.
Proof.
  intros Hs (i & Hi & Hl). apply (fld_set_same m a v i Hi). unfold msg_shape in Hs. now rewrite Hs.
Qed.

Lemma fld_set_ne m a b v : sindex_of (m_num m) a <> sindex_of (m_num m) b -> fld (set_fld m a v) b = fld m b.
Proof.
  intros Hne. destruct (sindex_of (m_num m) a) as [i|] eqn:Ea.
  - destruct (sindex_of (m_num m) b) as [j|] eqn:Eb.
    + apply (fld_set_other m a b v i j Ea Eb). congruence.
    + unfold fld. now rewrite set_fld_num, Eb.
  - unfold set_fld. now rewrite Ea.
Qed.

Lemma widen16_ne m s d b : sindex_of (m_num m) d <> sindex_of (m_num m) b -> fld (widen16 m s d) b = fld m b.
Proof. intros Hne. unfold widen16. destruct (_ =? _); [reflexivity|]. now apply fld_set_ne. Qed.

Lemma widen16_eq m s d : msg_shape m -> fok (m_num m) d -> uval (fld m s) < 65536 ->
  uval (fld (widen16 m s d) d) = spec_enhanced (uval (fld m s)) (uval (fld m d)).
Proof.
  intros Hs (j & Hj & Hl) Hv. apply (widen16_dst m s d j Hj); [|exact Hv]. unfold msg_shape in Hs. now rewrite Hs.
Qed.

(* side conditions: the message number is rewritten to the constant, the rest is a closed computation *)
Ltac norm_num :=
  rewrite ?expand_power_num, ?expand_cycles_num, ?expand_csd_num, ?widen16_num, ?set_fld_num.
Ltac names Hn :=
  norm_num; rewrite Hn;
  lazymatch goal with
  | |- fok _ _ => apply fokb_fok; vm_compute; reflexivity
  | |- _ <> _ => vm_compute; discriminate
  end.
Ltac shapes := repeat (apply set_fld_shape || apply widen16_shape); assumption.

Lemma land_small16 x : x < 65536 -> N.land x 0xFFFF = x.
Proof. intros H. change 0xFFFF with (N.ones 16). rewrite N.land_ones. now apply N.mod_small. Qed.

(* ================================================================== B2. session / lap / segment_lap *)

Lemma expand_session_lap_num m : m_num (expand_session_lap m) = m_num m.
Proof. unfold expand_session_lap. now rewrite !widen16_num. Qed.
Lemma expand_session_lap_shape m : msg_shape m -> msg_shape (expand_session_lap m).
Proof. intros H. unfold expand_session_lap. shapes. Qed.
Lemma expand_segment_lap_num m : m_num (expand_segment_lap m) = m_num m.
Proof. unfold expand_segment_lap. now rewrite !widen16_num. Qed.
Lemma expand_segment_lap_shape m : msg_shape m -> msg_shape (expand_segment_lap m).
Proof. intros H. unfold expand_segment_lap. shapes. Qed.

(* one (source, destination) pair of the widen16 chain: the later steps write other destinations, the earlier
   ones neither this source nor this destination *)
Ltac chain Hn Hs Hv :=
  cbv zeta;
  repeat (rewrite widen16_ne by names Hn);
  rewrite widen16_eq; [ | shapes | names Hn | repeat (rewrite widen16_ne by names Hn); exact Hv ];
  repeat (rewrite widen16_ne by names Hn); reflexivity.

Definition session_lap_pairs : list (string * string) :=
  [("AvgSpeed", "EnhancedAvgSpeed"); ("MaxSpeed", "EnhancedMaxSpeed"); ("AvgAltitude", "EnhancedAvgAltitude");
   ("MaxAltitude", "EnhancedMaxAltitude"); ("MinAltitude", "EnhancedMinAltitude")].
Definition segment_lap_pairs : list (string * string) :=
  [("AvgAltitude", "EnhancedAvgAltitude"); ("MaxAltitude", "EnhancedMaxAltitude"); ("MinAltitude", "EnhancedMinAltitude")].

Theorem session_lap_enhanced : forall m src dst,
  m_num m = c_MesgNumSession \/ m_num m = c_MesgNumLap -> msg_shape m ->
  In (src, dst) session_lap_pairs -> uval (fld m src) < 65536 ->
  uval (fld (expand_session_lap m) dst) = spec_enhanced (uval (fld m src)) (uval (fld m dst)).
Proof.
  intros m src dst Hn Hs Hin Hv. unfold expand_session_lap.
  cbn [session_lap_pairs In] in Hin.
  destruct Hn as [Hn|Hn];
    repeat (destruct Hin as [Hin|Hin]; [inversion Hin; subst src dst; clear Hin; chain Hn Hs Hv|]); contradiction.
Qed.

Theorem segment_lap_enhanced : forall m src dst,
  m_num m = c_MesgNumSegmentLap -> msg_shape m ->
  In (src, dst) segment_lap_pairs -> uval (fld m src) < 65536 ->
  uval (fld (expand_segment_lap m) dst) = spec_enhanced (uval (fld m src)) (uval (fld m dst)).
Proof.
  intros m src dst Hn Hs Hin Hv. unfold expand_segment_lap.
  cbn [segment_lap_pairs In] in Hin.
  repeat (destruct Hin as [Hin|Hin]; [inversion Hin; subst src dst; clear Hin; chain Hn Hs Hv|]); contradiction.
Qed.

(* ================================================================== B3. event *)

(* the first statement of the generated body: data16 -> data *)
Definition event_data_step (m : msg) : msg :=
  let d16 := uval (fld m "Data16") in
  if d16 =? 0xFFFF then m else set_fld m "Data" (VU (N.land d16 0xFFFF)).
(* the rest: data -> score / opponent_score, or the four gear bytes *)
Definition event_tail (m : msg) : msg :=
  let d := uval (fld m "Data") in
  if d =? 0xFFFFFFFF then m else
  let ev := uval (fld m "Event") in
  if ev =? c_EventSportPoint then
    let m := set_fld m "Score" (VU (N.land d 0xFFFF)) in
    set_fld m "OpponentScore" (VU (N.land (N.shiftr d 16) 0xFFFF))
  else if (ev =? c_EventFrontGearChange) || (ev =? c_EventRearGearChange) then
    let m := set_fld m "RearGearNum" (VU (N.land d 0xFF)) in
    let m := set_fld m "RearGear" (VU (N.land (N.shiftr d 8) 0xFF)) in
    let m := set_fld m "FrontGearNum" (VU (N.land (N.shiftr d 16) 0xFF)) in
    set_fld m "FrontGear" (VU (N.land (N.shiftr d 24) 0xFF))
  else m.
Lemma expand_event_steps m : expand_event m = event_tail (event_data_step m).
Proof. unfold expand_event, event_tail, event_data_step. cbv zeta. reflexivity. Qed.

(* the value of Data the later statements read *)
Definition event_data (m : msg) : N :=
  let d16 := uval (fld m "Data16") in
  if d16 =? 0xFFFF then uval (fld m "Data") else N.land d16 0xFFFF.

Lemma event_data_step_num m : m_num (event_data_step m) = m_num m.
Proof. unfold event_data_step. cbv zeta. destruct (_ =? _); [reflexivity|apply set_fld_num]. Qed.
Lemma event_data_step_shape m : msg_shape m -> msg_shape (event_data_step m).
Proof. intros H. unfold event_data_step. cbv zeta. destruct (_ =? _); [assumption|now apply set_fld_shape]. Qed.
Lemma event_tail_num m : m_num (event_tail m) = m_num m.
Proof.
  unfold event_tail. cbv zeta.
  repeat match goal with |- context [if ?c then _ else _] => destruct c end; rewrite ?set_fld_num; reflexivity.
Qed.
Lemma event_tail_shape m : msg_shape m -> msg_shape (event_tail m).
Proof.
  intros H. unfold event_tail. cbv zeta.
  repeat match goal with |- context [if ?c then _ else _] => destruct c end; shapes.
Qed.
Lemma expand_event_num m : m_num (expand_event m) = m_num m.
Proof. now rewrite expand_event_steps, event_tail_num, event_data_step_num. Qed.
Lemma expand_event_shape m : msg_shape m -> msg_shape (expand_event m).
Proof. intros H. rewrite expand_event_steps. now apply event_tail_shape, event_data_step_shape. Qed.

Lemma event_data_step_data m : m_num m = c_MesgNumEvent -> msg_shape m ->
  fld (event_data_step m) "Data" =
    if uval (fld m "Data16") =? 0xFFFF then fld m "Data" else VU (N.land (uval (fld m "Data16")) 0xFFFF).
Proof.
  intros Hn Hs. unfold event_data_step. cbv zeta. destruct (_ =? _); [reflexivity|].
  apply fld_set_eq; [assumption|names Hn].
Qed.
Lemma event_data_step_uval m : m_num m = c_MesgNumEvent -> msg_shape m ->
  uval (fld (event_data_step m) "Data") = event_data m.
Proof.
  intros Hn Hs. rewrite (event_data_step_data m Hn Hs). unfold event_data. cbv zeta.
  destruct (_ =? _); reflexivity.
Qed.
Lemma event_data_step_event m : m_num m = c_MesgNumEvent -> fld (event_data_step m) "Event" = fld m "Event".
Proof.
  intros Hn. unfold event_data_step. cbv zeta. destruct (_ =? _); [reflexivity|].
  apply fld_set_ne. names Hn.
Qed.

Lemma event_tail_data m : m_num m = c_MesgNumEvent -> fld (event_tail m) "Data" = fld m "Data".
Proof.
  intros Hn. unfold event_tail. cbv zeta.
  repeat match goal with |- context [if ?c then _ else _] => destruct c end;
    repeat (rewrite fld_set_ne by names Hn); reflexivity.
Qed.

(* Data after the whole expansion: data16 when valid, else what the message carried *)
Theorem event_data_field : forall m, m_num m = c_MesgNumEvent -> msg_shape m ->
  fld (expand_event m) "Data" =
    if uval (fld m "Data16") =? 0xFFFF then fld m "Data" else VU (N.land (uval (fld m "Data16")) 0xFFFF).
Proof.
  intros m Hn Hs. rewrite expand_event_steps, event_tail_data by (now rewrite event_data_step_num).
  now apply event_data_step_data.
Qed.
Corollary event_data_from_data16 : forall m, m_num m = c_MesgNumEvent -> msg_shape m ->
  uval (fld m "Data16") <> 0xFFFF -> uval (fld m "Data16") < 65536 ->
  fld (expand_event m) "Data" = VU (uval (fld m "Data16")).
Proof.
  intros m Hn Hs Hne Hlt. rewrite (event_data_field m Hn Hs).
  rewrite (proj2 (N.eqb_neq _ _) Hne). now rewrite land_small16.
Qed.
Lemma event_data_bound m : uval (fld m "Data") < 2 ^ 32 -> event_data m < 2 ^ 32.
Proof.
  intros H. unfold event_data. cbv zeta. destruct (_ =? _); [assumption|].
  change 0xFFFF with (N.ones 16). rewrite N.land_ones.
  assert (uval (fld m "Data16") mod 2 ^ 16 < 2 ^ 16) by (apply N.mod_lt; discriminate).
  change (2 ^ 16) with 65536 in *. change (2 ^ 32) with 4294967296. lia.
Qed.

Lemma event_tail_sport m : m_num m = c_MesgNumEvent -> msg_shape m ->
  uval (fld m "Event") = c_EventSportPoint -> uval (fld m "Data") <> 0xFFFFFFFF -> uval (fld m "Data") < 2 ^ 32 ->
  fld (event_tail m) "Score" = VU (spec_score (uval (fld m "Data"))) /\
  fld (event_tail m) "OpponentScore" = VU (spec_opponent_score (uval (fld m "Data"))).
Proof.
  intros Hn Hs Hev Hd Hlt. unfold event_tail. cbv zeta.
  rewrite (proj2 (N.eqb_neq _ _) Hd), Hev, N.eqb_refl.
  destruct (event_bit_slices _ Hlt) as (E1 & E2 & _).
  split.
  - rewrite fld_set_ne by names Hn. rewrite fld_set_eq; [now rewrite E1|shapes|names Hn].
  - rewrite fld_set_eq; [now rewrite E2|shapes|names Hn].
Qed.

Lemma event_tail_gear m : m_num m = c_MesgNumEvent -> msg_shape m ->
  uval (fld m "Event") = c_EventFrontGearChange \/ uval (fld m "Event") = c_EventRearGearChange ->
  uval (fld m "Data") <> 0xFFFFFFFF -> uval (fld m "Data") < 2 ^ 32 ->
  fld (event_tail m) "RearGearNum" = VU (spec_gear_byte (uval (fld m "Data")) 0) /\
  fld (event_tail m) "RearGear" = VU (spec_gear_byte (uval (fld m "Data")) 1) /\
  fld (event_tail m) "FrontGearNum" = VU (spec_gear_byte (uval (fld m "Data")) 2) /\
  fld (event_tail m) "FrontGear" = VU (spec_gear_byte (uval (fld m "Data")) 3).
Proof.
  intros Hn Hs Hev Hd Hlt. unfold event_tail. cbv zeta.
  rewrite (proj2 (N.eqb_neq _ _) Hd).
  destruct (event_bit_slices _ Hlt) as (_ & _ & E0 & E1 & E2 & E3).
  assert (Hc : (uval (fld m "Event") =? c_EventSportPoint) = false /\
               (uval (fld m "Event") =? c_EventFrontGearChange) || (uval (fld m "Event") =? c_EventRearGearChange) = true).
  { destruct Hev as [-> | ->]; split; reflexivity. }
  destruct Hc as [Hc1 Hc2]. rewrite Hc1, Hc2.
  repeat split.
  - repeat (rewrite fld_set_ne by names Hn). rewrite fld_set_eq; [now rewrite E0|shapes|names Hn].
  - repeat (rewrite fld_set_ne by names Hn). rewrite fld_set_eq; [now rewrite E1|shapes|names Hn].
  - repeat (rewrite fld_set_ne by names Hn). rewrite fld_set_eq; [now rewrite E2|shapes|names Hn].
  - rewrite fld_set_eq; [now rewrite E3|shapes|names Hn].
Qed.

(* sport_point: score and opponent_score are the two 16-bit halves of the resulting data *)
Theorem event_sport_point : forall m, m_num m = c_MesgNumEvent -> msg_shape m ->
  uval (fld m "Event") = c_EventSportPoint -> uval (fld m "Data") < 2 ^ 32 -> event_data m <> 0xFFFFFFFF ->
  fld (expand_event m) "Score" = VU (spec_score (event_data m)) /\
  fld (expand_event m) "OpponentScore" = VU (spec_opponent_score (event_data m)).
Proof.
  intros m Hn Hs Hev Hlt Hd. rewrite expand_event_steps, <- (event_data_step_uval m Hn Hs).
  apply event_tail_sport.
  - now rewrite event_data_step_num.
  - now apply event_data_step_shape.
  - now rewrite event_data_step_event.
  - now rewrite event_data_step_uval.
  - rewrite event_data_step_uval by assumption. now apply event_data_bound.
Qed.

(* front / rear gear change: the four bytes of the resulting data *)
Theorem event_gear_change : forall m, m_num m = c_MesgNumEvent -> msg_shape m ->
  uval (fld m "Event") = c_EventFrontGearChange \/ uval (fld m "Event") = c_EventRearGearChange ->
  uval (fld m "Data") < 2 ^ 32 -> event_data m <> 0xFFFFFFFF ->
  fld (expand_event m) "RearGearNum" = VU (spec_gear_byte (event_data m) 0) /\
  fld (expand_event m) "RearGear" = VU (spec_gear_byte (event_data m) 1) /\
  fld (expand_event m) "FrontGearNum" = VU (spec_gear_byte (event_data m) 2) /\
  fld (expand_event m) "FrontGear" = VU (spec_gear_byte (event_data m) 3).
Proof.
  intros m Hn Hs Hev Hlt Hd. rewrite expand_event_steps, <- (event_data_step_uval m Hn Hs).
  apply event_tail_gear.
  - now rewrite event_data_step_num.
  - now apply event_data_step_shape.
  - now rewrite event_data_step_event.
  - now rewrite event_data_step_uval.
  - rewrite event_data_step_uval by assumption. now apply event_data_bound.
Qed.

(* invalid resulting data, or any other event: nothing beyond Data is written *)
Theorem event_otherwise : forall m,
  event_data m = 0xFFFFFFFF \/
  (uval (fld m "Event") <> c_EventSportPoint /\ uval (fld m "Event") <> c_EventFrontGearChange /\
   uval (fld m "Event") <> c_EventRearGearChange) ->
  m_num m = c_MesgNumEvent -> msg_shape m ->
  expand_event m = event_data_step m.
Proof.
  intros m H Hn Hs. rewrite expand_event_steps. unfold event_tail. cbv zeta.
  rewrite (event_data_step_uval m Hn Hs), (event_data_step_event m Hn).
  destruct H as [-> | (H1 & H2 & H3)]; [reflexivity|].
  destruct (_ =? 0xFFFFFFFF); [reflexivity|].
  now rewrite (proj2 (N.eqb_neq _ _) H1), (proj2 (N.eqb_neq _ _) H2), (proj2 (N.eqb_neq _ _) H3).
Qed.

(* ================================================================== B1 / B4. record *)

(* the three accumulated components, after the two widen16 steps *)
Definition record_tail (g : gstate) (m : msg) : msg * gstate :=
  let r1 := expand_csd g m in
  let r2 := expand_cycles (snd r1) (fst r1) in
  expand_power (snd r2) (fst r2).
Lemma expand_record_steps g m :
  expand_record g m = record_tail g (widen16 (widen16 m "Altitude" "EnhancedAltitude") "Speed" "EnhancedSpeed").
Proof. unfold expand_record, record_tail. cbv zeta. reflexivity. Qed.

Lemma expand_csd_eq g m : expand_csd g m =
  if csd_valid m then
    (set_fld (set_fld m "Speed" (VU (N.lor (nth 0 (csd_bytes m) 0) (N.shiftl (N.land (nth 1 (csd_bytes m) 0) 0x0F) 8))))
       "Distance"
       (VU (fst (accumulate (get_acc (g_dist g) (new_accum 12))
                   (model_csd_distance_raw (nth 1 (csd_bytes m) 0) (nth 2 (csd_bytes m) 0))))),
     mk_gstate (Some (snd (accumulate (get_acc (g_dist g) (new_accum 12))
                             (model_csd_distance_raw (nth 1 (csd_bytes m) 0) (nth 2 (csd_bytes m) 0)))))
       (g_cycles g) (g_power g))
  else (m, g).
Proof. unfold expand_csd, csd_valid, csd_bytes, model_csd_distance_raw. cbv zeta. reflexivity. Qed.

Lemma csd_bytes_same m m' : fld m' "CompressedSpeedDistance" = fld m "CompressedSpeedDistance" -> csd_bytes m' = csd_bytes m.
Proof. intros H. unfold csd_bytes. now rewrite H. Qed.
Lemma csd_valid_same m m' : fld m' "CompressedSpeedDistance" = fld m "CompressedSpeedDistance" -> csd_valid m' = csd_valid m.
Proof. intros H. unfold csd_valid. now rewrite (csd_bytes_same m m' H). Qed.

Lemma expand_csd_shape g m : msg_shape m -> msg_shape (fst (expand_csd g m)).
Proof. intros H. rewrite expand_csd_eq. destruct (csd_valid m); cbn [fst]; shapes. Qed.
Lemma expand_cycles_shape g m : msg_shape m -> msg_shape (fst (expand_cycles g m)).
Proof. intros H. unfold expand_cycles. cbv zeta. destruct (_ =? _); cbn [fst]; shapes. Qed.
Lemma expand_power_shape g m : msg_shape m -> msg_shape (fst (expand_power g m)).
Proof. intros H. unfold expand_power. cbv zeta. destruct (_ =? _); cbn [fst]; shapes. Qed.
Lemma record_tail_num g m : m_num (fst (record_tail g m)) = m_num m.
Proof. unfold record_tail. cbv zeta. now rewrite expand_power_num, expand_cycles_num, expand_csd_num. Qed.
Lemma record_tail_shape g m : msg_shape m -> msg_shape (fst (record_tail g m)).
Proof. intros H. unfold record_tail. cbv zeta. now apply expand_power_shape, expand_cycles_shape, expand_csd_shape. Qed.
Lemma expand_record_shape g m : msg_shape m -> msg_shape (fst (expand_record g m)).
Proof. intros H. rewrite expand_record_steps. apply record_tail_shape. shapes. Qed.

(* frames: each accumulated component writes only its own destination(s) and its own accumulator *)
Lemma expand_csd_frame g m b :
  sindex_of (m_num m) "Speed" <> sindex_of (m_num m) b -> sindex_of (m_num m) "Distance" <> sindex_of (m_num m) b ->
  fld (fst (expand_csd g m)) b = fld m b.
Proof.
  intros H1 H2. rewrite expand_csd_eq. destruct (csd_valid m); cbn [fst]; [|reflexivity].
  rewrite fld_set_ne by (now rewrite set_fld_num). now apply fld_set_ne.
Qed.
Lemma expand_cycles_frame g m b : sindex_of (m_num m) "TotalCycles" <> sindex_of (m_num m) b ->
  fld (fst (expand_cycles g m)) b = fld m b.
Proof. intros H. unfold expand_cycles. cbv zeta. destruct (_ =? _); cbn [fst]; [reflexivity|now apply fld_set_ne]. Qed.
Lemma expand_power_frame g m b : sindex_of (m_num m) "AccumulatedPower" <> sindex_of (m_num m) b ->
  fld (fst (expand_power g m)) b = fld m b.
Proof. intros H. unfold expand_power. cbv zeta. destruct (_ =? _); cbn [fst]; [reflexivity|now apply fld_set_ne]. Qed.
Lemma expand_cycles_dist g m : g_dist (snd (expand_cycles g m)) = g_dist g.
Proof. unfold expand_cycles. cbv zeta. destruct (_ =? _); reflexivity. Qed.
Lemma expand_power_dist g m : g_dist (snd (expand_power g m)) = g_dist g.
Proof. unfold expand_power. cbv zeta. destruct (_ =? _); reflexivity. Qed.

Lemma record_tail_frame g m b : m_num m = c_MesgNumRecord ->
  sindex_of c_MesgNumRecord "Speed" <> sindex_of c_MesgNumRecord b ->
  sindex_of c_MesgNumRecord "Distance" <> sindex_of c_MesgNumRecord b ->
  sindex_of c_MesgNumRecord "TotalCycles" <> sindex_of c_MesgNumRecord b ->
  sindex_of c_MesgNumRecord "AccumulatedPower" <> sindex_of c_MesgNumRecord b ->
  fld (fst (record_tail g m)) b = fld m b.
Proof.
  intros Hn H1 H2 H3 H4. unfold record_tail. cbv zeta.
  rewrite expand_power_frame by (norm_num; now rewrite Hn).
  rewrite expand_cycles_frame by (norm_num; now rewrite Hn).
  apply expand_csd_frame; now rewrite Hn.
Qed.
Lemma record_tail_dist g m : g_dist (snd (record_tail g m)) = g_dist (snd (expand_csd g m)).
Proof. unfold record_tail. cbv zeta. now rewrite expand_power_dist, expand_cycles_dist. Qed.

(* the two widen16 steps leave every field but the two Enhanced destinations alone *)
Lemma record_head_frame m b : m_num m = c_MesgNumRecord ->
  sindex_of c_MesgNumRecord "EnhancedAltitude" <> sindex_of c_MesgNumRecord b ->
  sindex_of c_MesgNumRecord "EnhancedSpeed" <> sindex_of c_MesgNumRecord b ->
  fld (widen16 (widen16 m "Altitude" "EnhancedAltitude") "Speed" "EnhancedSpeed") b = fld m b.
Proof.
  intros Hn H1 H2. rewrite widen16_ne by (norm_num; now rewrite Hn). apply widen16_ne. now rewrite Hn.
Qed.
Lemma record_head_csd_bytes m : m_num m = c_MesgNumRecord ->
  csd_bytes (widen16 (widen16 m "Altitude" "EnhancedAltitude") "Speed" "EnhancedSpeed") = csd_bytes m.
Proof. intros Hn. apply csd_bytes_same. apply record_head_frame; [assumption|vm_compute; discriminate..]. Qed.
Lemma record_head_csd_valid m : m_num m = c_MesgNumRecord ->
  csd_valid (widen16 (widen16 m "Altitude" "EnhancedAltitude") "Speed" "EnhancedSpeed") = csd_valid m.
Proof. intros Hn. apply csd_valid_same. apply record_head_frame; [assumption|vm_compute; discriminate..]. Qed.

(* B1: the two Enhanced fields of a record; EnhancedSpeed is widened from the Speed the record carries *)
Theorem record_enhanced_speed : forall g m, m_num m = c_MesgNumRecord -> msg_shape m ->
  uval (fld m "Speed") < 65536 ->
  uval (fld (fst (expand_record g m)) "EnhancedSpeed") =
    spec_enhanced (uval (fld m "Speed")) (uval (fld m "EnhancedSpeed")).
Proof.
  intros g m Hn Hs Hv. rewrite expand_record_steps.
  rewrite record_tail_frame by (norm_num; try assumption; vm_compute; discriminate).
  set (m1 := widen16 m "Altitude" "EnhancedAltitude").
  assert (Hn1 : m_num m1 = c_MesgNumRecord) by (unfold m1; now rewrite widen16_num).
  assert (Hs1 : msg_shape m1) by (unfold m1; shapes).
  assert (E1 : fld m1 "Speed" = fld m "Speed") by (unfold m1; apply widen16_ne; names Hn).
  assert (E2 : fld m1 "EnhancedSpeed" = fld m "EnhancedSpeed") by (unfold m1; apply widen16_ne; names Hn).
  rewrite widen16_eq; [now rewrite E1, E2|assumption|names Hn1|now rewrite E1].
Qed.
Theorem record_enhanced_altitude : forall g m, m_num m = c_MesgNumRecord -> msg_shape m ->
  uval (fld m "Altitude") < 65536 ->
  uval (fld (fst (expand_record g m)) "EnhancedAltitude") =
    spec_enhanced (uval (fld m "Altitude")) (uval (fld m "EnhancedAltitude")).
Proof.
  intros g m Hn Hs Hv. rewrite expand_record_steps.
  rewrite record_tail_frame by (norm_num; try assumption; vm_compute; discriminate).
  rewrite widen16_ne by names Hn.
  apply widen16_eq; [assumption|names Hn|assumption].
Qed.

(* B4: compressed_speed_distance *)
Theorem record_csd_valid : forall g m b0 b1 b2, m_num m = c_MesgNumRecord -> msg_shape m ->
  csd_bytes m = [b0; b1; b2] -> csd_valid m = true ->
  fld (fst (expand_record g m)) "Distance" =
    VU (fst (accumulate (get_acc (g_dist g) (new_accum 12)) (model_csd_distance_raw b1 b2))) /\
  (b0 < 256 -> b1 < 256 -> fld (fst (expand_record g m)) "Speed" = VU (spec_csd_speed b0 b1)) /\
  g_dist (snd (expand_record g m)) =
    Some (snd (accumulate (get_acc (g_dist g) (new_accum 12)) (model_csd_distance_raw b1 b2))).
Proof.
  intros g m b0 b1 b2 Hn Hs Hb Hv. rewrite expand_record_steps.
  set (m2 := widen16 (widen16 m "Altitude" "EnhancedAltitude") "Speed" "EnhancedSpeed").
  assert (Hn2 : m_num m2 = c_MesgNumRecord) by (unfold m2; now rewrite !widen16_num).
  assert (Hs2 : msg_shape m2) by (unfold m2; shapes).
  assert (Hb2 : csd_bytes m2 = [b0; b1; b2]) by (unfold m2; now rewrite record_head_csd_bytes).
  assert (Hv2 : csd_valid m2 = true) by (unfold m2; now rewrite record_head_csd_valid).
  assert (Ecsd := expand_csd_eq g m2). rewrite Hv2, Hb2 in Ecsd. cbn [nth] in Ecsd.
  repeat split.
  - unfold record_tail. cbv zeta.
    rewrite expand_power_frame by names Hn2. rewrite expand_cycles_frame by names Hn2.
    rewrite Ecsd. cbn [fst]. apply fld_set_eq; [shapes|names Hn2].
  - intros H0 H1. unfold record_tail. cbv zeta.
    rewrite expand_power_frame by names Hn2. rewrite expand_cycles_frame by names Hn2.
    rewrite Ecsd. cbn [fst]. rewrite fld_set_ne by names Hn2.
    rewrite fld_set_eq; [|shapes|names Hn2]. now rewrite csd_speed_spec.
  - rewrite record_tail_dist, Ecsd. reflexivity.
Qed.

Theorem record_csd_invalid : forall g m, m_num m = c_MesgNumRecord -> csd_valid m = false ->
  fld (fst (expand_record g m)) "Distance" = fld m "Distance" /\
  fld (fst (expand_record g m)) "Speed" = fld m "Speed" /\
  g_dist (snd (expand_record g m)) = g_dist g.
Proof.
  intros g m Hn Hv. rewrite expand_record_steps.
  set (m2 := widen16 (widen16 m "Altitude" "EnhancedAltitude") "Speed" "EnhancedSpeed").
  assert (Hn2 : m_num m2 = c_MesgNumRecord) by (unfold m2; now rewrite !widen16_num).
  assert (Hv2 : csd_valid m2 = false) by (unfold m2; now rewrite record_head_csd_valid).
  assert (Ecsd := expand_csd_eq g m2). rewrite Hv2 in Ecsd.
  repeat split.
  - unfold record_tail. cbv zeta.
    rewrite expand_power_frame by names Hn2. rewrite expand_cycles_frame by names Hn2.
    rewrite Ecsd. cbn [fst]. unfold m2. apply record_head_frame; [assumption|vm_compute; discriminate..].
  - unfold record_tail. cbv zeta.
    rewrite expand_power_frame by names Hn2. rewrite expand_cycles_frame by names Hn2.
    rewrite Ecsd. cbn [fst]. unfold m2. apply record_head_frame; [assumption|vm_compute; discriminate..].
  - rewrite record_tail_dist, Ecsd. reflexivity.
Qed.

(* the all-0xFF source and a source of another length are the invalid ones *)
Lemma csd_all_ff_invalid m : csd_bytes m = [0xFF; 0xFF; 0xFF] -> csd_valid m = false.
Proof. intros H. unfold csd_valid. rewrite H. reflexivity. Qed.
Lemma csd_missing_invalid m : List.length (csd_bytes m) <> 3%nat -> csd_valid m = false.
Proof. intros H. unfold csd_valid. apply Nat.eqb_neq in H. now rewrite H. Qed.

(* ================================================================== preservation by expand_components and stored *)

Lemma expand_components_shape g m m' g' : msg_shape m -> expand_components g m = Some (m', g') -> msg_shape m'.
Proof.
  intros Hs. unfold expand_components. cbv zeta.
  repeat match goal with |- context [if ?c then _ else _] => destruct c end; intros H; try discriminate;
    inversion H as [H1]; try subst m'; clear H.
  - now apply expand_session_lap_shape.
  - replace m' with (fst (expand_record g m)) by (now rewrite H1). now apply expand_record_shape.
  - now apply expand_event_shape.
  - now apply expand_segment_lap_shape.
  - unfold expand_segment_point. shapes.
Qed.

(* C2: only a record moves the accumulators *)
Lemma expand_components_nonrecord g m m' g' : is_record m = false -> expand_components g m = Some (m', g') -> g' = g.
Proof.
  unfold is_record. intros Hr. unfold expand_components. cbv zeta. rewrite Hr.
  repeat match goal with |- context [if ?c then _ else _] => destruct c end; intros H; try discriminate;
    inversion H; reflexivity.
Qed.

Lemma stored_num ft g m m' g' : stored ft g m = Some (m', g') -> m_num m' = m_num m.
Proof.
  unfold stored. destruct (find_slot ft (m_num m)) as [[i multi]|].
  - destruct (Nat.ltb i NCOMMON); [intros H; injection H as H1 H2; now subst|].
    destruct (expands (m_num m)); [apply expand_components_num|intros H; injection H as H1 H2; now subst].
  - intros H; injection H as H1 H2; now subst.
Qed.
Lemma stored_shape ft g m m' g' : msg_shape m -> stored ft g m = Some (m', g') -> msg_shape m'.
Proof.
  intros Hs. unfold stored. destruct (find_slot ft (m_num m)) as [[i multi]|].
  - destruct (Nat.ltb i NCOMMON); [intros H; injection H as H1 H2; now subst|].
    destruct (expands (m_num m)); [now apply expand_components_shape|intros H; injection H as H1 H2; now subst].
  - intros H; injection H as H1 H2; now subst.
Qed.
Lemma stored_total ft g m : exists m' g', stored ft g m = Some (m', g').
Proof.
  unfold stored. destruct (find_slot ft (m_num m)) as [[i multi]|]; [|eauto].
  destruct (Nat.ltb i NCOMMON); [eauto|]. destruct (expands (m_num m)) eqn:Ee; [|eauto].
  pose proof (expands_modelled g m Ee) as Hne.
  destruct (expand_components g m) as [[m' g']|]; [eauto|contradiction].
Qed.
Lemma stored_nonrecord ft g m m' g' : is_record m = false -> stored ft g m = Some (m', g') -> g' = g /\ is_record m' = false.
Proof.
  intros Hr H. split.
  - revert H. unfold stored. destruct (find_slot ft (m_num m)) as [[i multi]|].
    + destruct (Nat.ltb i NCOMMON); [intros H; injection H as H1 H2; now subst|].
      destruct (expands (m_num m)); [now apply expand_components_nonrecord|intros H; injection H as H1 H2; now subst].
    + intros H; injection H as H1 H2; now subst.
  - unfold is_record in *. now rewrite (stored_num ft g m m' g' H).
Qed.

(* a file type whose container proper holds the record messages *)
Definition holds_records (ft : N) : Prop :=
  exists i multi, find_slot ft c_MesgNumRecord = Some (i, multi) /\ (NCOMMON <= i)%nat.

Lemma is_record_num m : is_record m = true -> m_num m = c_MesgNumRecord.
Proof. unfold is_record. apply N.eqb_eq. Qed.

Lemma stored_record ft g m : holds_records ft -> is_record m = true -> stored ft g m = Some (expand_record g m).
Proof.
  intros (i & multi & Hf & Hi) Hr. apply is_record_num in Hr. unfold stored. rewrite Hr, Hf.
  destruct (Nat.ltb_spec i NCOMMON) as [Hlt|_]; [lia|].
  change (expands c_MesgNumRecord) with true. cbv iota.
  unfold expand_components. cbv zeta. rewrite Hr. reflexivity.
Qed.

(* ================================================================== C. the running Distance over a message sequence *)

Definition msgs_ok (ms : list msg) : Prop :=
  Forall (fun m => msg_shape m /\ (is_record m = true -> Forall (fun b => b < 256) (csd_bytes m))) ms.
Lemma msgs_ok_shape ms : msgs_ok ms -> Forall msg_shape ms.
Proof. unfold msgs_ok. apply Forall_impl. now intros m [H _]. Qed.

(* the raw 12-bit distance the generated code feeds the accumulator, and the property's own formula *)
Definition raw_of (m : msg) : N :=
  match csd_bytes m with [_; b1; b2] => model_csd_distance_raw b1 b2 | _ => 0 end.
Definition spec_raw_of (m : msg) : N :=
  match csd_bytes m with [_; b1; b2] => spec_csd_distance_raw b1 b2 | _ => 0 end.
(* the Distance accumulator the next record will use *)
Definition dist_acc (g : gstate) : accum := get_acc (g_dist g) (new_accum 12).

Lemma run_accum_cons a v r : run_accum a (v :: r) = fst (accumulate a v) :: run_accum (snd (accumulate a v)) r.
Proof. cbn [run_accum]. destruct (accumulate a v); reflexivity. Qed.

(* C1 *)
Theorem stored_run_total ft : forall ms g, exists sm gl, stored_run ft g ms = Some (sm, gl).
Proof.
  induction ms as [|m r IH]; intros g; cbn [stored_run]; [eauto|].
  destruct (stored_total ft g m) as (m' & g' & E). rewrite E.
  destruct (IH g') as (sm & gl & E'). rewrite E'. eauto.
Qed.
Theorem stored_run_nums ft : forall ms g sm gl, stored_run ft g ms = Some (sm, gl) ->
  map m_num sm = map m_num ms /\ List.length sm = List.length ms.
Proof.
  induction ms as [|m r IH]; intros g sm gl H; cbn [stored_run] in H.
  - injection H as H1 H2. subst. now split.
  - destruct (stored ft g m) as [[m' g']|] eqn:E; [|discriminate].
    destruct (stored_run ft g' r) as [[l gl']|] eqn:E'; [|discriminate].
    injection H as <- <-. destruct (IH g' l gl' E') as [I1 I2].
    cbn [map List.length]. now rewrite I1, I2, (stored_num ft g m m' g' E).
Qed.
Theorem stored_run_shape ft : forall ms g sm gl, Forall msg_shape ms -> stored_run ft g ms = Some (sm, gl) ->
  Forall msg_shape sm.
Proof.
  induction ms as [|m r IH]; intros g sm gl Hs H; cbn [stored_run] in H.
  - injection H as H1 H2. subst. constructor.
  - destruct (stored ft g m) as [[m' g']|] eqn:E; [|discriminate].
    destruct (stored_run ft g' r) as [[l gl']|] eqn:E'; [|discriminate].
    injection H as <- <-. inversion Hs as [|? ? Hm Hr]; subst.
    constructor; [now apply (stored_shape ft g m m' g')|now apply (IH g' l gl')].
Qed.
(* the stored records correspond position-wise to the records of the stream *)
Lemma records_correspond : forall sm ms, map m_num sm = map m_num ms ->
  map m_num (filter is_record sm) = map m_num (filter is_record ms).
Proof.
  induction sm as [|a sm IH]; intros [|b ms] H; cbn [map] in H; try discriminate; [reflexivity|].
  injection H as H1 H2. cbn [filter].
  assert (Er : is_record a = is_record b) by (unfold is_record; now rewrite H1). rewrite Er.
  destruct (is_record b); cbn [map]; [rewrite H1; f_equal|]; now apply IH.
Qed.

(* one stored message, the three cases *)
Lemma stored_record_valid ft g m : holds_records ft -> msg_shape m -> is_record m = true -> csd_valid m = true ->
  exists m' g', stored ft g m = Some (m', g') /\ is_record m' = true /\
    distance_of m' = fst (accumulate (dist_acc g) (raw_of m)) /\
    dist_acc g' = snd (accumulate (dist_acc g) (raw_of m)).
Proof.
  intros Hft Hs Hr Hv. exists (fst (expand_record g m)), (snd (expand_record g m)).
  split; [rewrite (stored_record ft g m Hft Hr); now destruct (expand_record g m)|].
  pose proof (is_record_num m Hr) as Hn.
  split; [unfold is_record; now rewrite expand_record_num|].
  assert (Hl : List.length (csd_bytes m) = 3%nat).
  { unfold csd_valid in Hv. apply andb_prop in Hv. now apply Nat.eqb_eq. }
  destruct (csd_bytes m) as [|b0 [|b1 [|b2 [|x l]]]] eqn:Eb; try discriminate.
  destruct (record_csd_valid g m b0 b1 b2 Hn Hs Eb Hv) as (Hd & _ & Hg).
  unfold distance_of, dist_acc, raw_of. rewrite Hd, Hg, Eb. split; reflexivity.
Qed.
Lemma stored_record_invalid ft g m : holds_records ft -> is_record m = true -> csd_valid m = false ->
  exists m' g', stored ft g m = Some (m', g') /\ is_record m' = true /\
    distance_of m' = distance_of m /\ g_dist g' = g_dist g.
Proof.
  intros Hft Hr Hv. exists (fst (expand_record g m)), (snd (expand_record g m)).
  split; [rewrite (stored_record ft g m Hft Hr); now destruct (expand_record g m)|].
  pose proof (is_record_num m Hr) as Hn.
  split; [unfold is_record; now rewrite expand_record_num|].
  destruct (record_csd_invalid g m Hn Hv) as (Hd & _ & Hg).
  unfold distance_of. rewrite Hd, Hg. split; reflexivity.
Qed.

(* the Distance every stored record must show, threading the accumulator: the accumulated value when the source is
   valid; what the record carried when it is not (and the accumulator does not move) *)
Fixpoint expect_dist (a : accum) (ms : list msg) : list N :=
  match ms with
  | [] => []
  | m :: r =>
      if is_record m then
        if csd_valid m then fst (accumulate a (raw_of m)) :: expect_dist (snd (accumulate a (raw_of m))) r
        else distance_of m :: expect_dist a r
      else expect_dist a r
  end.
Fixpoint expect_state (a : accum) (ms : list msg) : accum :=
  match ms with
  | [] => a
  | m :: r => if is_record m && csd_valid m then expect_state (snd (accumulate a (raw_of m))) r else expect_state a r
  end.

(* C3b, the general form: valid and invalid sources interleaved with messages of any other type *)
Theorem stream_distance_general ft : holds_records ft -> forall ms g sm gl,
  Forall msg_shape ms -> stored_run ft g ms = Some (sm, gl) ->
  map distance_of (filter is_record sm) = expect_dist (dist_acc g) ms /\
  dist_acc gl = expect_state (dist_acc g) ms.
Proof.
  intros Hft. induction ms as [|m r IH]; intros g sm gl Hs H; cbn [stored_run] in H.
  - injection H as H1 H2. subst. now split.
  - inversion Hs as [|? ? Hm Hr]; subst.
    destruct (stored ft g m) as [[m' g']|] eqn:E; [|discriminate].
    destruct (stored_run ft g' r) as [[l gl']|] eqn:E'; [|discriminate].
    injection H as <- <-. destruct (IH g' l gl' Hr E') as [I1 I2].
    cbn [expect_dist expect_state filter].
    destruct (is_record m) eqn:Er.
    + destruct (csd_valid m) eqn:Ev; cbn [andb].
      * destruct (stored_record_valid ft g m Hft Hm Er Ev) as (m1 & g1 & E1 & R1 & D1 & A1).
        rewrite E in E1. injection E1 as <- <-. rewrite R1. cbn [map].
        now rewrite D1, I1, I2, A1.
      * destruct (stored_record_invalid ft g m Hft Er Ev) as (m1 & g1 & E1 & R1 & D1 & A1).
        rewrite E in E1. injection E1 as <- <-. rewrite R1. cbn [map].
        unfold dist_acc in *. now rewrite D1, I1, I2, A1.
    + destruct (stored_nonrecord ft g m m' g' Er E) as [-> R1]. rewrite R1. cbn [andb]. now split.
Qed.

(* C3a: every record carries a valid source *)
Lemma expect_dist_all_valid : forall ms a, Forall (fun m => is_record m = true -> csd_valid m = true) ms ->
  expect_dist a ms = run_accum a (map raw_of (filter is_record ms)).
Proof.
  induction ms as [|m r IH]; intros a Hv; [reflexivity|].
  inversion Hv as [|? ? Hm Hr]; subst. cbn [expect_dist filter].
  destruct (is_record m) eqn:Er; [|now apply IH].
  rewrite (Hm eq_refl). cbn [map]. rewrite run_accum_cons. f_equal. now apply IH.
Qed.

Theorem stream_distance_from : forall ft g ms sm gl, holds_records ft -> msgs_ok ms ->
  Forall (fun m => is_record m = true -> csd_valid m = true) ms ->
  stored_run ft g ms = Some (sm, gl) ->
  map distance_of (filter is_record sm) = run_accum (dist_acc g) (map raw_of (filter is_record ms)).
Proof.
  intros ft g ms sm gl Hft Hok Hv H.
  destruct (stream_distance_general ft Hft ms g sm gl (msgs_ok_shape ms Hok) H) as [E _].
  rewrite E. now apply expect_dist_all_valid.
Qed.

(* the Distance values at the positions whose source was valid *)
Fixpoint pick_valid (recs : list msg) (xs : list N) : list N :=
  match recs, xs with
  | m :: r, x :: xs' => if csd_valid m then x :: pick_valid r xs' else pick_valid r xs'
  | _, _ => []
  end.
Fixpoint leave_invalid (recs : list msg) (xs : list N) : list N :=
  match recs, xs with
  | m :: r, x :: xs' => if csd_valid m then leave_invalid r xs' else x :: leave_invalid r xs'
  | _, _ => []
  end.

Lemma expect_dist_pick : forall ms a,
  pick_valid (filter is_record ms) (expect_dist a ms) =
    run_accum a (map raw_of (filter csd_valid (filter is_record ms))) /\
  leave_invalid (filter is_record ms) (expect_dist a ms) =
    map distance_of (filter (fun m => negb (csd_valid m)) (filter is_record ms)).
Proof.
  induction ms as [|m r IH]; intros a; [now split|].
  cbn [expect_dist filter]. destruct (is_record m) eqn:Er; [|apply IH].
  cbn [filter]. destruct (csd_valid m) eqn:Ev; cbn [pick_valid leave_invalid negb map]; rewrite Ev.
  - rewrite run_accum_cons. destruct (IH (snd (accumulate a (raw_of m)))) as [I1 I2]. split; [now f_equal|assumption].
  - destruct (IH a) as [I1 I2]. split; [assumption|now f_equal].
Qed.

(* C3b in positional form: the stored records whose source was valid show the running sum of the valid sources;
   the others show the Distance they carried *)
Theorem stream_distance_mixed : forall ft g ms sm gl, holds_records ft -> msgs_ok ms ->
  stored_run ft g ms = Some (sm, gl) ->
  List.length (filter is_record sm) = List.length (filter is_record ms) /\
  pick_valid (filter is_record ms) (map distance_of (filter is_record sm)) =
    run_accum (dist_acc g) (map raw_of (filter csd_valid (filter is_record ms))) /\
  leave_invalid (filter is_record ms) (map distance_of (filter is_record sm)) =
    map distance_of (filter (fun m => negb (csd_valid m)) (filter is_record ms)).
Proof.
  intros ft g ms sm gl Hft Hok H.
  destruct (stream_distance_general ft Hft ms g sm gl (msgs_ok_shape ms Hok) H) as [E _].
  split.
  - destruct (stored_run_nums ft ms g sm gl H) as [Hn _].
    rewrite <- (map_length m_num (filter is_record sm)), <- (map_length m_num (filter is_record ms)).
    now rewrite (records_correspond sm ms Hn).
  - rewrite E. apply expect_dist_pick.
Qed.

(* the accumulator the next file of the same process starts from *)
Fixpoint run_accum_state (a : accum) (vals : list N) : accum :=
  match vals with [] => a | v :: r => run_accum_state (snd (accumulate a v)) r end.
Lemma expect_state_run : forall ms a,
  expect_state a ms = run_accum_state a (map raw_of (filter csd_valid (filter is_record ms))).
Proof.
  induction ms as [|m r IH]; intros a; [reflexivity|].
  cbn [expect_state filter]. destruct (is_record m); cbn [andb filter]; [|apply IH].
  destruct (csd_valid m); cbn [map run_accum_state]; apply IH.
Qed.
Theorem stream_final_state : forall ft g ms sm gl, holds_records ft -> msgs_ok ms ->
  stored_run ft g ms = Some (sm, gl) ->
  dist_acc gl = run_accum_state (dist_acc g) (map raw_of (filter csd_valid (filter is_record ms))).
Proof.
  intros ft g ms sm gl Hft Hok H.
  destruct (stream_distance_general ft Hft ms g sm gl (msgs_ok_shape ms Hok) H) as [_ E].
  rewrite E. apply expect_state_run.
Qed.

(* ================================================================== C4. from the fresh state: the property's formula *)

Lemma lor_lt_pow2 a b n : a < 2 ^ n -> b < 2 ^ n -> N.lor a b < 2 ^ n.
Proof.
  intros Ha Hb.
  destruct (N.eq_dec (N.lor a b) 0) as [E|NE]; [rewrite E; apply N.neq_0_lt_0, N.pow_nonzero; discriminate|].
  apply N.log2_lt_pow2; [lia|]. rewrite N.log2_lor.
  destruct (N.eq_dec a 0) as [Ea|Na]; destruct (N.eq_dec b 0) as [Eb|Nb].
  - exfalso. apply NE. now rewrite Ea, Eb.
  - rewrite Ea. change (N.log2 0) with 0. rewrite N.max_r by apply N.le_0_l. apply N.log2_lt_pow2; lia.
  - rewrite Eb. change (N.log2 0) with 0. rewrite N.max_l by apply N.le_0_l. apply N.log2_lt_pow2; lia.
  - apply N.max_lub_lt; apply N.log2_lt_pow2; lia.
Qed.

(* the raw value fits the 12 bits the accumulator is created with (it even fits 8: finding csd_high_nibble) *)
Lemma model_csd_distance_raw_bound b1 b2 : b1 < 256 -> model_csd_distance_raw b1 b2 < 4096.
Proof.
  intros H1. unfold model_csd_distance_raw.
  assert (H : N.lor (N.shiftr b1 4) (N.shiftl b2 4 mod 256) < 2 ^ 8).
  { apply lor_lt_pow2.
    - pose proof (shiftr_le b1 4) as Hle. change (2 ^ 8) with 256. lia.
    - change (2 ^ 8) with 256. apply N.mod_lt. discriminate. }
  change (2 ^ 8) with 256 in H. lia.
Qed.

Lemma raw_of_bound m : Forall (fun b => b < 256) (csd_bytes m) -> raw_of m < 2 ^ 32.
Proof.
  intros H. unfold raw_of. change (2 ^ 32) with 4294967296.
  destruct (csd_bytes m) as [|b0 [|b1 [|b2 [|x l]]]]; try lia.
  inversion H as [|? ? _ H']; subst. inversion H' as [|? ? H1 _]; subst.
  pose proof (model_csd_distance_raw_bound b1 b2 H1). lia.
Qed.

Lemma raws_bound : forall ms (p : msg -> bool), msgs_ok ms ->
  Forall (fun v => v < 2 ^ 32) (map raw_of (filter p (filter is_record ms))).
Proof.
  induction ms as [|m r IH]; intros p Hok; [constructor|].
  inversion Hok as [|? ? [_ Hm] Hr]; subst. cbn [filter].
  destruct (is_record m) eqn:Er; [|now apply IH]. cbn [filter].
  destruct (p m); [|now apply IH]. cbn [map]. constructor; [|now apply IH].
  apply raw_of_bound. now apply Hm.
Qed.
Lemma filter_true {A} (l : list A) : filter (fun _ => true) l = l.
Proof. induction l as [|a l IH]; [reflexivity|]. cbn [filter]. now rewrite IH. Qed.

Lemma dist_acc_fresh g : g_dist g = None -> dist_acc g = new_accum 12.
Proof. intros H. unfold dist_acc. now rewrite H. Qed.

Theorem stream_distance_fresh : forall ft g ms sm gl, holds_records ft -> msgs_ok ms ->
  Forall (fun m => is_record m = true -> csd_valid m = true) ms ->
  g_dist g = None -> stored_run ft g ms = Some (sm, gl) ->
  map distance_of (filter is_record sm) = spec_accumulate 12 (map raw_of (filter is_record ms)).
Proof.
  intros ft g ms sm gl Hft Hok Hv Hg H.
  rewrite (stream_distance_from ft g ms sm gl Hft Hok Hv H), (dist_acc_fresh g Hg).
  apply fresh_accumulator_spec; [lia|].
  rewrite <- (filter_true (filter is_record ms)). now apply raws_bound.
Qed.

(* with valid and invalid sources interleaved: the valid positions carry the spec's running sum of the valid sources *)
Theorem stream_distance_fresh_mixed : forall ft g ms sm gl, holds_records ft -> msgs_ok ms ->
  g_dist g = None -> stored_run ft g ms = Some (sm, gl) ->
  pick_valid (filter is_record ms) (map distance_of (filter is_record sm)) =
    spec_accumulate 12 (map raw_of (filter csd_valid (filter is_record ms))).
Proof.
  intros ft g ms sm gl Hft Hok Hg H.
  destruct (stream_distance_mixed ft g ms sm gl Hft Hok H) as (_ & E & _).
  rewrite E, (dist_acc_fresh g Hg). apply fresh_accumulator_spec; [lia|]. now apply raws_bound.
Qed.

(* where no distance exceeds 8 bits worth of the 12 (high nibble of the third byte clear), the raw value is the
   property's own b1 / 16 + 16 * b2 *)
Lemma raw_of_spec m : Forall (fun b => b < 256) (csd_bytes m) -> nth 2 (csd_bytes m) 0 < 16 -> raw_of m = spec_raw_of m.
Proof.
  intros H H2. unfold raw_of, spec_raw_of.
  destruct (csd_bytes m) as [|b0 [|b1 [|b2 [|x l]]]]; try reflexivity.
  inversion H as [|? ? _ H']; subst. inversion H' as [|? ? H1 _]; subst.
  cbn [nth] in H2. now apply csd_distance_partial.
Qed.
Lemma raws_spec : forall ms (p : msg -> bool), msgs_ok ms ->
  Forall (fun m => is_record m = true -> nth 2 (csd_bytes m) 0 < 16) ms ->
  map raw_of (filter p (filter is_record ms)) = map spec_raw_of (filter p (filter is_record ms)).
Proof.
  induction ms as [|m r IH]; intros p Hok Hb; [reflexivity|].
  inversion Hok as [|? ? [_ Hm] Hr]; subst. inversion Hb as [|? ? Hb1 Hb2]; subst. cbn [filter].
  destruct (is_record m) eqn:Er; [|now apply IH]. cbn [filter].
  destruct (p m); [|now apply IH]. cbn [map]. f_equal; [|now apply IH].
  apply raw_of_spec; auto.
Qed.

Corollary stream_distance_fresh_spec : forall ft g ms sm gl, holds_records ft -> msgs_ok ms ->
  Forall (fun m => is_record m = true -> csd_valid m = true) ms ->
  Forall (fun m => is_record m = true -> nth 2 (csd_bytes m) 0 < 16) ms ->
  g_dist g = None -> stored_run ft g ms = Some (sm, gl) ->
  map distance_of (filter is_record sm) = spec_accumulate 12 (map spec_raw_of (filter is_record ms)).
Proof.
  intros ft g ms sm gl Hft Hok Hv Hb Hg H.
  rewrite (stream_distance_fresh ft g ms sm gl Hft Hok Hv Hg H).
  rewrite <- (filter_true (filter is_record ms)). now rewrite (raws_spec ms _ Hok Hb).
Qed.

(* ================================================================== C5. an arbitrary starting state refutes it *)

Lemma activity_holds_records : holds_records 4.
Proof. unfold holds_records. eexists. eexists. split; [vm_compute; reflexivity|]. vm_compute. lia. Qed.

(* a record carrying only compressed_speed_distance = 00 b1 00 *)
Definition csd_record (b1 : N) : list msg :=
  match mesg_all_invalid c_MesgNumRecord with
  | Some m => [set_fld m "CompressedSpeedDistance" (VList [VU 0; VU b1; VU 0])]
  | None => []
  end.

(* finding accum_per_process: the accumulator outlives the file.  A first activity file with one record of raw
   distance 2 leaves the state g; a second file with one record of raw distance 1, decoded in the same process,
   stores Distance 4097 where the property (sum from 0 at the start of the file) says 1. *)
Theorem stream_distance_stale_state_refuted : exists ft prev sm0 g ms sm gl,
  holds_records ft /\ msgs_ok prev /\ msgs_ok ms /\
  Forall (fun m => is_record m = true -> csd_valid m = true) ms /\
  stored_run ft g_init prev = Some (sm0, g) /\ g_dist g <> None /\
  stored_run ft g ms = Some (sm, gl) /\
  map distance_of (filter is_record sm) <> spec_accumulate 12 (map raw_of (filter is_record ms)).
Proof.
  exists 4, (csd_record 32). eexists. eexists. exists (csd_record 16). eexists. eexists.
  split; [exact activity_holds_records|].
  split; [vm_compute; repeat constructor|].
  split; [vm_compute; repeat constructor|].
  split; [vm_compute; repeat constructor|].
  split; [vm_compute; reflexivity|].
  split; [vm_compute; discriminate|].
  split; [vm_compute; reflexivity|].
  vm_compute. discriminate.
Qed.

Print Assumptions record_csd_valid.
Print Assumptions record_csd_invalid.
Print Assumptions record_enhanced_speed.
Print Assumptions session_lap_enhanced.
Print Assumptions event_sport_point.
Print Assumptions event_gear_change.
Print Assumptions stream_distance_general.
Print Assumptions stream_distance_from.
Print Assumptions stream_distance_mixed.
Print Assumptions stream_distance_fresh.
Print Assumptions stream_distance_fresh_mixed.
Print Assumptions stream_distance_fresh_spec.
Print Assumptions stream_distance_stale_state_refuted.
