(* C01: the raw read stages (io.ReadFull, io.CopyN) always finish when the
   fuel exceeds |data| + |schedule|, the reader only ever shrinks, and the five
   entry points are total: TDone for every byte string, chunk schedule,
   terminal condition and accumulator state. *)
From Coq Require Import NArith ZArith List Bool Arith Lia.
From FitV Require Import Proofs.Util Model.Values Model.Bytes Model.Crc Model.IO Model.Header Model.Components
  Model.Route Model.Decode Proofs.IOSim Proofs.C01Hoare Proofs.C01Fields Proofs.C01Records.
Import ListNotations.

Definition rmeasure (r : reader) : nat := length (rd_data r) + length (rd_sched r).
Definition reader_ok (r : reader) : Prop := Forall isbyte (rd_data r).

(* the reader after some reads: nothing was added to it *)
Definition rd_le (r' r : reader) : Prop :=
  rmeasure r' <= rmeasure r /\ length (rd_data r') <= length (rd_data r) /\ (reader_ok r -> reader_ok r').
Lemma rd_le_refl r : rd_le r r.
Proof. repeat split; auto. Qed.
Lemma rd_le_trans r1 r2 r3 : rd_le r1 r2 -> rd_le r2 r3 -> rd_le r1 r3.
Proof. intros (A & B & C) (D & E & F). repeat split; try lia. auto. Qed.

Lemma rd_read_spec r k bs e r' : rd_read r k = (bs, e, r') ->
  rd_le r' r /\ length (rd_data r') + length bs = length (rd_data r) /\
  (e = None -> 1 <= k -> rmeasure r' < rmeasure r).
Proof.
  unfold rd_read. destruct (rd_data r) as [|b0 rest0] eqn:Ed.
  - intros H; inversion H; subst. split; [apply rd_le_refl|]. rewrite Ed. split; [reflexivity|discriminate].
  - set (cap := match rd_sched r with [] => k | c :: _ => Nat.min c k end).
    intros H; inversion H; subst; clear H. unfold rd_le, rmeasure, reader_ok. cbn [rd_data rd_sched]. rewrite Ed.
    assert (Htl : length (tl (rd_sched r)) <= length (rd_sched r)) by (destruct (rd_sched r); cbn; lia).
    rewrite skipn_length, firstn_length.
    repeat split; try lia.
    + now apply Forall_skipn.
    + intros _ Hk. unfold cap. destruct (rd_sched r) as [|c t]; cbn [tl length] in *; lia.
Qed.

(* io.ReadFull finishes *)
Lemma io_read_full_done : forall fuel r n acc, rmeasure r < fuel ->
  exists acc' e r', io_read_full fuel r n acc = Done (acc', e, r') /\ rd_le r' r /\
    length (rd_data r') + length acc' = length (rd_data r) + length acc /\ (e = None -> n <= length acc').
Proof.
  induction fuel as [|f IH]; intros r n acc Hf; [lia|].
  cbn [io_read_full]. destruct (Nat.leb_spec n (length acc)) as [L|G].
  - exists acc, None, r. split; [reflexivity|]. split; [apply rd_le_refl|]. split; [reflexivity|auto].
  - destruct (rd_read r (n - length acc)) as [[bs e] r'] eqn:Er.
    destruct (rd_read_spec _ _ _ _ _ Er) as (Hle & Hlen & Hdec).
    destruct e as [t|].
    + destruct (Nat.leb_spec n (length (acc ++ bs))) as [L2|G2].
      * eexists _, _, _. split; [reflexivity|]. rewrite app_length in *. split; [exact Hle|]. split; [lia|intros _; lia].
      * eexists _, _, _. split; [reflexivity|]. rewrite app_length in *. split; [exact Hle|]. split; [lia|discriminate].
    + specialize (Hdec eq_refl ltac:(lia)).
      destruct (IH r' n (acc ++ bs) ltac:(lia)) as (acc' & e' & r'' & -> & Hle2 & Hlen2 & Hn).
      eexists _, _, _. split; [reflexivity|]. rewrite app_length in *.
      split; [eapply rd_le_trans; eassumption|]. split; [lia|exact Hn].
Qed.

Lemma COPYBUF_pos : 1 <= COPYBUF.
Proof. apply Nat.leb_le. vm_compute. reflexivity. Qed.

(* io.CopyN finishes *)
Lemma io_copy_n_done : forall fuel r n acc, rmeasure r < fuel ->
  exists acc' e r', io_copy_n fuel r n acc = Done (acc', e, r') /\ rd_le r' r.
Proof.
  induction fuel as [|f IH]; intros r n acc Hf; [lia|].
  cbn [io_copy_n]. destruct (Nat.leb_spec n (length acc)) as [L|G].
  - exists acc, None, r. split; [reflexivity|apply rd_le_refl].
  - pose proof COPYBUF_pos as Hc. generalize dependent COPYBUF. intros CB Hc.
    destruct (rd_read r (Nat.min CB (n - length acc))) as [[bs e] r'] eqn:Er.
    destruct (rd_read_spec _ _ _ _ _ Er) as (Hle & Hlen & Hdec).
    destruct e as [t|].
    + destruct (Nat.leb n (length (acc ++ bs))); eexists _, _, _; (split; [reflexivity|assumption]).
    + specialize (Hdec eq_refl ltac:(lia)).
      destruct (IH r' n (acc ++ bs) ltac:(lia)) as (acc' & e' & r'' & Hcp & Hle2).
      exists acc', e', r''. split; [exact Hcp|]. eapply rd_le_trans; eassumption.
Qed.

(* ---- the buffered interpreter only ever shrinks the reader *)
Lemma fill_rd_le c :
  match fill c with
  | COk _ c' | CErr _ c' => rd_le (c_rd c') (c_rd c)
  | CFuel => True
  end.
Proof.
  unfold fill. destruct (c_fuel c) as [|f]; [exact I|].
  destruct (Nat.eqb (c_n c) (c_limit c)); [apply rd_le_refl|].
  destruct (rd_read (c_rd c) (Nat.min BUFSZ (c_limit c - c_n c))) as [[bs e] rd'] eqn:Er.
  destruct (rd_read_spec _ _ _ _ _ Er) as (Hle & _ & _).
  destruct bs; [destruct e|]; exact Hle.
Qed.

Lemma c_byte_rd_le : forall iters c,
  match c_byte iters c with
  | COk _ c' | CErr _ c' => rd_le (c_rd c') (c_rd c)
  | CFuel => True
  end.
Proof.
  induction iters as [|it IH]; intros c; cbn [c_byte]; destruct (c_buf c) as [|b r]; try exact I; try apply rd_le_refl.
  pose proof (fill_rd_le c) as Hf. destruct (fill c) as [u c2|e c2|]; try exact I; [|exact Hf].
  specialize (IH c2). destruct (c_byte it c2); try exact I; eapply rd_le_trans; eassumption.
Qed.

Lemma c_take_rd_le : forall iters k acc c,
  match c_take iters k acc c with
  | COk _ c' | CErr _ c' => rd_le (c_rd c') (c_rd c)
  | CFuel => True
  end.
Proof.
  induction iters as [|it IH]; intros k acc c; cbn [c_take].
  - destruct (Nat.eqb _ 0); [apply rd_le_refl|exact I].
  - destruct (Nat.eqb _ 0); [apply rd_le_refl|].
    set (c1 := mk_cst (c_rd c) _ _ _ _ _).
    pose proof (fill_rd_le c1) as Hf. destruct (fill c1) as [u c2|e c2|]; try exact I; [|exact Hf].
    specialize (IH (k - Nat.min k (length (c_buf c))) (acc ++ firstn (Nat.min k (length (c_buf c))) (c_buf c)) c2).
    destruct (c_take it _ _ c2); try exact I; eapply rd_le_trans; try eassumption; exact Hf.
Qed.

Lemma run_c_rd_le {S E A} : forall (p : prog S E A) c s,
  match run_c p c s with
  | ROk _ c' _ | RFail _ c' _ | RIOErr _ c' _ => rd_le (c_rd c') (c_rd c)
  | _ => True
  end.
Proof.
  induction p as [a|e|w|k IH|n k IH|k IH|k IH|s' k IH]; intros c s; cbn [run_c]; try apply rd_le_refl; try exact I; try apply IH.
  - pose proof (c_byte_rd_le (Datatypes.S (c_fuel c)) c) as Hb.
    destruct (c_byte (Datatypes.S (c_fuel c)) c) as [b c'|e c'|]; try exact I; [|exact Hb].
    specialize (IH b c' s). destruct (run_c (k b) c' s); try exact I; eapply rd_le_trans; eassumption.
  - pose proof (c_take_rd_le (Datatypes.S (c_fuel c)) n [] c) as Hb.
    destruct (c_take (Datatypes.S (c_fuel c)) n [] c) as [l c'|e c'|]; try exact I; [|exact Hb].
    specialize (IH l c' s). destruct (run_c (k l) c' s); try exact I; eapply rd_le_trans; eassumption.
Qed.

(* ---- decodeHeader and checkCRC finish *)
Lemma decode_header_done fuel rd : rmeasure rd < fuel ->
  exists oe h crc rd1, decode_header fuel rd = Done (oe, h, crc, rd1) /\ rd_le rd1 rd /\
    (oe = None -> length (rd_data rd1) < length (rd_data rd)).
Proof.
  intros Hf. unfold decode_header.
  destruct (io_read_full_done fuel rd 1 [] Hf) as (bs & e & rd1 & -> & Hle1 & Hlen1 & Hn1).
  destruct e as [e|].
  - eexists _, _, _, _. split; [reflexivity|]. split; [assumption|discriminate].
  - specialize (Hn1 eq_refl). cbn [length] in *.
    destruct (negb _).
    + eexists _, _, _, _. split; [reflexivity|]. split; [assumption|discriminate].
    + assert (Hf1 : rmeasure rd1 < fuel) by (destruct Hle1 as (A & _); lia).
      destruct (io_read_full_done fuel rd1 (N.to_nat (hd 0%N bs) - 1) [] Hf1) as (t & e2 & rd2 & -> & Hle2 & Hlen2 & _).
      assert (Hle : rd_le rd2 rd) by (eapply rd_le_trans; eassumption).
      assert (Hlt : length (rd_data rd2) < length (rd_data rd)) by (destruct Hle2 as (_ & B & _); lia).
      destruct e2 as [e2|]; [eexists _, _, _, _; split; [reflexivity|]; split; [assumption|discriminate]|].
      repeat match goal with
             | |- context [if ?c then _ else _] => destruct c
             end; eexists _, _, _, _; (split; [reflexivity|]; split; [assumption|]; intros; assumption || discriminate).
Qed.

Lemma check_crc_done fuel rd crc f : rmeasure rd < fuel ->
  exists e f' rd', check_crc fuel rd crc f = Done (e, f', rd') /\ rd_le rd' rd.
Proof.
  intros Hf. unfold check_crc.
  destruct (io_read_full_done fuel rd 2 [] Hf) as (bs & e & rd1 & -> & Hle1 & _ & _).
  destruct e as [e|]; [eexists _, _, _; split; [reflexivity|assumption]|].
  destruct (negb _); eexists _, _, _; (split; [reflexivity|assumption]).
Qed.

(* ---- func (d) decode: total in all four modes *)
Theorem decode_done o md g rd fuel : reader_ok rd -> rmeasure rd < fuel ->
  exists r, decode o md g rd fuel = TDone r /\ rd_le (dr_rd r) rd /\
            (dr_err r = None -> length (rd_data (dr_rd r)) < length (rd_data rd)).
Proof.
  intros Hok Hf. unfold decode.
  destruct (decode_header_done fuel rd Hf) as (oe & h & crc & rd1 & -> & Hle1 & Hlt1).
  destruct oe as [e|].
  { eexists. split; [reflexivity|]. cbn. split; [assumption|discriminate]. }
  specialize (Hlt1 eq_refl).
  assert (Hf1 : rmeasure rd1 < fuel) by (destruct Hle1 as (A & _); lia).
  assert (Hok1 : reader_ok rd1) by (destruct Hle1 as (_ & _ & C); auto).
  assert (Hbuffered : forall fid,
    exists r, match run_c (data_prog o fid (S (N.to_nat (h_dsize h)))) (mk_cst rd1 [] 0 (N.to_nat (h_dsize h)) crc fuel)
                          (init_dstate (new_file h) g) with
     | ROutOfFuel => TOutOfFuel
     | RPanic w => TPanic w
     | RFail e c s => TDone (mk_dres (Some e) h (Some (finalize_unknown o s)) (c_rd c) (ds_g s) (ds_quirks s))
     | RIOErr e c s => TDone (mk_dres (Some (EIO e)) h (Some (finalize_unknown o s)) (c_rd c) (ds_g s) (ds_quirks s))
     | ROk _ c s =>
         if fid then TDone (mk_dres None h (Some (finalize_unknown o s)) (c_rd c) (ds_g s) (ds_quirks s)) else
         if negb (Nat.eqb (c_n c) (c_limit c)) then TPanic 7 else
         match check_crc fuel (c_rd c) (c_crc c) (ds_file s) with
         | OutOfFuel => TOutOfFuel
         | Done (e, f, rd3) =>
             TDone (mk_dres e h (Some (finalize_unknown o (with_file s f (ds_g s)))) rd3 (ds_g s) (ds_quirks s))
         end
     end = TDone r /\ rd_le (dr_rd r) rd1).
  { intros fid.
    set (limit := N.to_nat (h_dsize h)).
    pose proof (run_sim (rd_data rd1) (rd_pos rd1) crc (data_prog o fid (S limit)) _ _ (init_dstate (new_file h) g)
                  (Rel_start rd1 limit crc fuel Hf1)) as Hsim.
    assert (HA : AInv (start_a rd1 limit)) by (split; [exact Hok1|cbn; lia]).
    pose proof (data_prog_np o fid (start_a rd1 limit) (new_file h) g HA eq_refl) as Hnp.
    change (a_limit (start_a rd1 limit)) with limit in Hnp.
    pose proof (run_c_rd_le (data_prog o fid (S limit)) (start_c rd1 limit crc fuel) (init_dstate (new_file h) g)) as Hrd.
    unfold np in Hnp. unfold sim in Hsim. change (mk_cst rd1 [] 0 limit crc fuel) with (start_c rd1 limit crc fuel).
    destruct (run_c (data_prog o fid (S limit)) (start_c rd1 limit crc fuel) (init_dstate (new_file h) g))
      as [u c' s'|e c' s'|e c' s'|w|];
      destruct (run_a (data_prog o fid (S limit)) (start_a rd1 limit) (init_dstate (new_file h) g))
      as [u2 a' s2|e2 a' s2|e2 a' s2|w2|]; try contradiction.
    - destruct Hsim as (_ & _ & HR). destruct fid.
      + eexists. split; [reflexivity|exact Hrd].
      + specialize (Hnp eq_refl).
        rewrite <- (r_n _ _ _ _ _ HR), <- (r_limit _ _ _ _ _ HR), Hnp, Nat.eqb_refl. cbn [negb].
        assert (Hf2 : rmeasure (c_rd c') < fuel) by (destruct Hrd as (A & _); cbn [c_rd start_c] in A; lia).
        destruct (check_crc_done fuel (c_rd c') (c_crc c') (ds_file s') Hf2) as (e & f' & rd3 & -> & Hle3).
        eexists. split; [reflexivity|]. cbn [dr_rd]. eapply rd_le_trans; [exact Hle3|exact Hrd].
    - eexists. split; [reflexivity|exact Hrd].
    - eexists. split; [reflexivity|exact Hrd]. }
  destruct md.
  - (* MFull *)
    destruct (Hbuffered false) as (r & Hr & Hle). exists r. split; [exact Hr|].
    assert (Hle' : rd_le (dr_rd r) rd) by (eapply rd_le_trans; eassumption).
    split; [assumption|]. intros _. destruct Hle as (_ & B & _). lia.
  - (* MHeaderOnly *)
    eexists. split; [reflexivity|]. cbn. split; [assumption|intros; assumption].
  - (* MFileIdOnly *)
    destruct (Hbuffered true) as (r & Hr & Hle). exists r. split; [exact Hr|].
    assert (Hle' : rd_le (dr_rd r) rd) by (eapply rd_le_trans; eassumption).
    split; [assumption|]. intros _. destruct Hle as (_ & B & _). lia.
  - (* MCrcOnly *)
    destruct (io_copy_n_done fuel rd1 (N.to_nat (h_dsize h)) [] Hf1) as (bs & e & rd2 & -> & Hle2).
    assert (Hle2' : rd_le rd2 rd) by (eapply rd_le_trans; eassumption).
    destruct e as [e|].
    + eexists. split; [reflexivity|]. cbn. split; [assumption|discriminate].
    + assert (Hf2 : rmeasure rd2 < fuel) by (destruct Hle2 as (A & _); lia).
      destruct (check_crc_done fuel rd2 (crc_write crc bs) (new_file h) Hf2) as (e & f' & rd3 & -> & Hle3).
      eexists. split; [reflexivity|]. cbn [dr_rd dr_err].
      assert (Hle3' : rd_le rd3 rd) by (eapply rd_le_trans; eassumption).
      split; [assumption|]. intros _. destruct Hle3 as (_ & B & _). destruct Hle2 as (_ & B2 & _). lia.
Qed.

(* ---- DecodeChained: every successfully decoded file consumes input, so the
   chain fuel S |data| is never exhausted *)
Lemma decode_chained_done o : forall files g rd fuel i acc q,
  reader_ok rd -> rmeasure rd < fuel -> length (rd_data rd) < files ->
  exists r, decode_chained o g rd fuel i files acc q = TDone r.
Proof.
  induction files as [|k IH]; intros g rd fuel i acc q Hok Hf Hlen; [lia|].
  cbn [decode_chained].
  destruct (decode_done o MFull g rd fuel Hok Hf) as (r & -> & Hle & Hlt).
  destruct (dr_err r) as [e|].
  - destruct e; destruct i; eexists; reflexivity.
  - specialize (Hlt eq_refl). destruct Hle as (A & B & C).
    apply IH; [auto|lia|lia].
Qed.

(* ---- the five entry points *)
Theorem decode_total_Decode : forall o g rd fuel, reader_ok rd -> rmeasure rd < fuel ->
  exists r, entry_Decode o g rd fuel = TDone r.
Proof. intros o g rd fuel Hok Hf. destruct (decode_done o MFull g rd fuel Hok Hf) as (r & H & _). eauto. Qed.

Theorem decode_total_CheckIntegrity : forall header_only g rd fuel, reader_ok rd -> rmeasure rd < fuel ->
  exists r, entry_CheckIntegrity header_only g rd fuel = TDone r.
Proof.
  intros ho g rd fuel Hok Hf. unfold entry_CheckIntegrity.
  destruct (decode_done no_opts (if ho then MHeaderOnly else MCrcOnly) g rd fuel Hok Hf) as (r & H & _). eauto.
Qed.

Theorem decode_total_DecodeHeader : forall g rd fuel, reader_ok rd -> rmeasure rd < fuel ->
  exists r, entry_DecodeHeader g rd fuel = TDone r.
Proof. intros g rd fuel Hok Hf. destruct (decode_done no_opts MHeaderOnly g rd fuel Hok Hf) as (r & H & _). eauto. Qed.

Theorem decode_total_DecodeHeaderAndFileID : forall g rd fuel, reader_ok rd -> rmeasure rd < fuel ->
  exists r, entry_DecodeHeaderAndFileID g rd fuel = TDone r.
Proof. intros g rd fuel Hok Hf. destruct (decode_done no_opts MFileIdOnly g rd fuel Hok Hf) as (r & H & _). eauto. Qed.

Theorem decode_total_DecodeChained : forall o g rd fuel, reader_ok rd -> rmeasure rd < fuel ->
  exists r, entry_DecodeChained o g rd fuel = TDone r.
Proof.
  intros o g rd fuel Hok Hf. unfold entry_DecodeChained. apply decode_chained_done; [assumption|assumption|lia].
Qed.

(* all five at once *)
Theorem decode_total : forall o (header_only : bool) g rd fuel,
  Forall (fun b => (b < 256)%N) (rd_data rd) -> length (rd_data rd) + length (rd_sched rd) < fuel ->
  (exists r, entry_Decode o g rd fuel = TDone r) /\
  (exists r, entry_DecodeChained o g rd fuel = TDone r) /\
  (exists r, entry_CheckIntegrity header_only g rd fuel = TDone r) /\
  (exists r, entry_DecodeHeader g rd fuel = TDone r) /\
  (exists r, entry_DecodeHeaderAndFileID g rd fuel = TDone r).
Proof.
  intros o ho g rd fuel Hok Hf.
  split; [now apply decode_total_Decode|].
  split; [now apply decode_total_DecodeChained|].
  split; [now apply decode_total_CheckIntegrity|].
  split; [now apply decode_total_DecodeHeader|now apply decode_total_DecodeHeaderAndFileID].
Qed.
