(* Relational reasoning about decoder programs (Model/IO.v [prog]): two
   programs that read the same input and keep their decoder states in a
   relation R produce related results under the concrete interpreter run_c
   (and the abstract one).  Generic in the state type and in R. *)
From Coq Require Import NArith List Bool.
From FitV Require Import Model.IO.
Import ListNotations.

Inductive psim {S E A} (R : S -> S -> Prop) (Q : A -> A -> Prop) : prog S E A -> prog S E A -> Prop :=
| ps_ret a1 a2 : Q a1 a2 -> psim R Q (Ret a1) (Ret a2)
| ps_fail e : psim R Q (Fail e) (Fail e)
| ps_panic w : psim R Q (Panic w) (Panic w)
| ps_byte k1 k2 : (forall b, psim R Q (k1 b) (k2 b)) -> psim R Q (ReadByte k1) (ReadByte k2)
| ps_full n k1 k2 : (forall l, psim R Q (k1 l) (k2 l)) -> psim R Q (ReadFull n k1) (ReadFull n k2)
| ps_more k1 k2 : (forall b, psim R Q (k1 b) (k2 b)) -> psim R Q (More k1) (More k2)
| ps_get k1 k2 : (forall s1 s2, R s1 s2 -> psim R Q (k1 s1) (k2 s2)) -> psim R Q (Get k1) (Get k2)
| ps_put s1 s2 k1 k2 : R s1 s2 -> psim R Q k1 k2 -> psim R Q (Put s1 k1) (Put s2 k2).

Lemma psim_bind {S E A B} (R : S -> S -> Prop) (Q1 : A -> A -> Prop) (Q2 : B -> B -> Prop)
  (p1 p2 : prog S E A) (f1 f2 : A -> prog S E B) :
  psim R Q1 p1 p2 -> (forall a1 a2, Q1 a1 a2 -> psim R Q2 (f1 a1) (f2 a2)) ->
  psim R Q2 (bind p1 f1) (bind p2 f2).
Proof.
  intros H Hf. induction H; simpl.
  - apply Hf; assumption.
  - constructor.
  - constructor.
  - constructor; intro; auto.
  - constructor; intro; auto.
  - constructor; intro; auto.
  - constructor; intros; auto.
  - constructor; auto.
Qed.

(* same intermediate value on both sides *)
Lemma psim_bind_eq {S E A B} (R : S -> S -> Prop) (Q2 : B -> B -> Prop)
  (p1 p2 : prog S E A) (f1 f2 : A -> prog S E B) :
  psim R eq p1 p2 -> (forall a, psim R Q2 (f1 a) (f2 a)) -> psim R Q2 (bind p1 f1) (bind p2 f2).
Proof. intros H Hf. eapply psim_bind; [exact H|]. intros a1 a2 <-. apply Hf. Qed.

Definition rsim {X S E A} (R : S -> S -> Prop) (Q : A -> A -> Prop) (r1 r2 : result X S E A) : Prop :=
  match r1, r2 with
  | ROk a1 x1 s1, ROk a2 x2 s2 => Q a1 a2 /\ x1 = x2 /\ R s1 s2
  | RFail e1 x1 s1, RFail e2 x2 s2 => e1 = e2 /\ x1 = x2 /\ R s1 s2
  | RIOErr e1 x1 s1, RIOErr e2 x2 s2 => e1 = e2 /\ x1 = x2 /\ R s1 s2
  | RPanic w1, RPanic w2 => w1 = w2
  | ROutOfFuel, ROutOfFuel => True
  | _, _ => False
  end.

Theorem run_c_psim {S E A} (R : S -> S -> Prop) (Q : A -> A -> Prop) (p1 p2 : prog S E A) :
  psim R Q p1 p2 -> forall c s1 s2, R s1 s2 -> rsim R Q (run_c p1 c s1) (run_c p2 c s2).
Proof.
  induction 1; intros c t1 t2 HR; cbn [run_c rsim].
  - auto.
  - auto.
  - auto.
  - destruct (c_byte (Datatypes.S (c_fuel c)) c); simpl; auto.
  - destruct (c_take (Datatypes.S (c_fuel c)) n [] c); simpl; auto.
  - auto.
  - auto.
  - auto.
Qed.

Theorem run_a_psim {S E A} (R : S -> S -> Prop) (Q : A -> A -> Prop) (p1 p2 : prog S E A) :
  psim R Q p1 p2 -> forall x s1 s2, R s1 s2 -> rsim R Q (run_a p1 x s1) (run_a p2 x s2).
Proof.
  induction 1; intros x t1 t2 HR; cbn [run_a rsim].
  - auto.
  - auto.
  - auto.
  - destruct (a_take 1 x) as [[l x']|e]; simpl; auto.
  - destruct (a_take n x) as [[l x']|e]; simpl; auto.
  - auto.
  - auto.
  - auto.
Qed.

(* a program that never looks at the state is related to itself for every R *)
Inductive stateless {S E A} : prog S E A -> Prop :=
| sl_ret a : stateless (Ret a)
| sl_fail e : stateless (Fail e)
| sl_panic w : stateless (Panic w)
| sl_byte k : (forall b, stateless (k b)) -> stateless (ReadByte k)
| sl_full n k : (forall l, stateless (k l)) -> stateless (ReadFull n k)
| sl_more k : (forall b, stateless (k b)) -> stateless (More k).

Lemma stateless_bind {S E A B} (p : prog S E A) (f : A -> prog S E B) :
  stateless p -> (forall a, stateless (f a)) -> stateless (bind p f).
Proof. induction 1; simpl; intros; try constructor; auto. Qed.

Lemma stateless_psim {S E A} (R : S -> S -> Prop) (p : prog S E A) : stateless p -> psim R eq p p.
Proof. induction 1; constructor; auto. Qed.
