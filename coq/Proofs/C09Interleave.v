(* C09: concurrent calls over the interleaving semantics of Model/Shared.v. *)
From Coq Require Import NArith ZArith List Bool Lia.
From FitV Require Import Model.Values Model.IO Model.Header Model.Components Model.Route Model.Decode Model.Shared
  Proofs.C08History.
Import ListNotations.
Local Open Scope N_scope.

Definition done_thread (c : call) : thread := mk_thread [] g_init (Some (fresh c)).
Definition tinv (c : call) (t : thread) : Prop := t = spawn c \/ t = done_thread c.

Lemma exec_quiet c t g i : no_accumulated_sourceb c = true -> tinv c t ->
  fst (exec_step t g) = done_thread c /\ snd (exec_step t g) = g /\ step_event i t = [].
Proof.
  intros H [->| ->].
  - unfold spawn, call_steps, exec_step, step_event. rewrite H. cbn. repeat split.
  - unfold done_thread, exec_step, step_event. cbn. repeat split.
Qed.

Lemma F2_upd {A B} (P : A -> B -> Prop) : forall i x l1 l2 a, Forall2 P l1 l2 -> nth_error l1 i = Some a -> P a x ->
  Forall2 P l1 (upd i x l2).
Proof.
  intros i x l1 l2 a H. revert i. induction H; intros i Hn Hp.
  - destruct i; discriminate Hn.
  - destruct i; simpl in *.
    + injection Hn as ->. constructor; assumption.
    + constructor; [assumption|apply IHForall2; assumption].
Qed.

Lemma F2_nth_error {A B} (P : A -> B -> Prop) : forall l1 l2 i b, Forall2 P l1 l2 -> nth_error l2 i = Some b ->
  exists a, nth_error l1 i = Some a /\ P a b.
Proof.
  intros l1 l2 i b H. revert i. induction H; intros i Hn.
  - destruct i; discriminate Hn.
  - destruct i; simpl in *.
    + injection Hn as ->. eauto.
    + apply IHForall2; assumption.
Qed.

Lemma F2_length {A B} (P : A -> B -> Prop) l1 l2 : Forall2 P l1 l2 -> List.length l1 = List.length l2.
Proof. induction 1; simpl; congruence. Qed.

Lemma nth_error_upd_eq {A} : forall i (x : A) l, (i < List.length l)%nat -> nth_error (upd i x l) i = Some x.
Proof.
  induction i; intros x l H; destruct l; simpl in *; try lia; [reflexivity|apply IHi; lia].
Qed.
Lemma nth_error_upd_neq {A} : forall i j (x : A) l, i <> j -> nth_error (upd i x l) j = nth_error l j.
Proof.
  induction i; intros j x l H; destruct l, j; simpl; try reflexivity; try congruence. apply IHi. congruence.
Qed.

(* while every call is free of accumulated sources, no step touches the shared
   accumulators, no access event is recorded, and a thread that has run has
   returned the result of the fresh call *)
Lemma interleave_quiet cs : Forall (fun c => no_accumulated_sourceb c = true) cs ->
  forall sched ts g tr, Forall2 tinv cs ts ->
  let x := interleave sched ts g tr in
  Forall2 tinv cs (fst (fst x)) /\ snd (fst x) = g /\ snd x = tr /\
  (forall i c, nth_error cs i = Some c -> (In i sched \/ nth_error ts i = Some (done_thread c)) ->
     nth_error (fst (fst x)) i = Some (done_thread c)).
Proof.
  intros Hcs. induction sched as [|i rest IH]; intros ts g tr HI; cbn [interleave].
  - cbn [fst snd]. repeat split; try assumption. intros i c Hc [[]|H]. exact H.
  - destruct (nth_error ts i) as [t|] eqn:Ht.
    + destruct (F2_nth_error _ _ _ _ _ HI Ht) as (c & Hc & Hinv).
      assert (Hq : no_accumulated_sourceb c = true).
      { rewrite Forall_forall in Hcs. apply Hcs. eapply nth_error_In. exact Hc. }
      destruct (exec_quiet c t g i Hq Hinv) as (E1 & E2 & E3). rewrite E1, E2, E3, app_nil_r.
      assert (HI' : Forall2 tinv cs (upd i (done_thread c) ts)).
      { eapply F2_upd; [exact HI|exact Hc|right; reflexivity]. }
      destruct (IH (upd i (done_thread c) ts) g tr HI') as (A & B & C & D).
      split; [exact A|]. split; [exact B|]. split; [exact C|].
      intros j c' Hc' Hj. apply D; [exact Hc'|].
      destruct (Nat.eq_dec i j) as [->|Hne].
      * right. rewrite Hc in Hc'. injection Hc' as <-. apply nth_error_upd_eq.
        apply nth_error_Some. rewrite Ht. discriminate.
      * destruct Hj as [[Hj|Hj]|Hj]; [contradiction|left; exact Hj|right; rewrite nth_error_upd_neq; assumption].
    + destruct (IH ts g tr HI) as (A & B & C & D).
      split; [exact A|]. split; [exact B|]. split; [exact C|].
      intros j c' Hc' Hj. apply D; [exact Hc'|].
      destruct Hj as [[Hj|Hj]|Hj]; [|left; exact Hj|right; exact Hj].
      subst j. exfalso. pose proof (F2_length _ _ _ HI) as L.
      assert (i < List.length cs)%nat by (apply nth_error_Some; rewrite Hc'; discriminate).
      apply nth_error_None in Ht. lia.
Qed.

Lemma spawn_inv cs : Forall2 tinv cs (map spawn cs).
Proof. induction cs; constructor; [left; reflexivity|assumption]. Qed.

(* noninterference: if no call has an accumulated source then, for every
   schedule, every call that has returned returned what it returns run alone
   (from the same accumulators, which is also what a fresh process returns),
   no conflicting access pair exists, the accumulators are unchanged, and
   every call that was scheduled at least once has returned *)
Theorem noninterference cs : Forall no_accumulated_source cs -> forall sched g, gwf g ->
  let x := run_concurrent sched cs g in
  (forall i o, nth_error (results x) i = Some (Some o) ->
     exists c, nth_error cs i = Some c /\ o = fst (run_call g c) /\ o = fresh c) /\
  races (trace x) = [] /\ trace x = [] /\ snd (fst x) = g /\
  (forall i, In i sched -> (i < List.length cs)%nat -> exists o, nth_error (results x) i = Some (Some o)).
Proof.
  intros H sched g W.
  assert (Hb : Forall (fun c => no_accumulated_sourceb c = true) cs).
  { rewrite Forall_forall in *. intros c Hc. apply no_accumulated_sourceb_spec. apply H. exact Hc. }
  destruct (interleave_quiet cs Hb sched (map spawn cs) g [] (spawn_inv cs)) as (A & B & C & D).
  cbv zeta. unfold run_concurrent, results, trace.
  split; [|split; [rewrite C; reflexivity|split; [exact C|split; [exact B|]]]].
  - intros i o Hn. rewrite nth_error_map in Hn.
    destruct (nth_error (fst (fst (interleave sched (map spawn cs) g []))) i) as [t|] eqn:Ht; [|discriminate Hn].
    destruct (F2_nth_error _ _ _ _ _ A Ht) as (c & Hc & [->| ->]).
    + simpl in Hn. discriminate Hn.
    + simpl in Hn. injection Hn as <-. exists c. split; [exact Hc|]. split; [|reflexivity].
      rewrite Forall_forall in H. rewrite (call_untouched c g W (H c (nth_error_In _ _ Hc))). reflexivity.
  - intros i Hi Hl. destruct (nth_error cs i) as [c|] eqn:Hc; [|apply nth_error_None in Hc; lia].
    exists (fresh c). rewrite nth_error_map. rewrite (D i c Hc (or_introl Hi)). reflexivity.
Qed.

(* ------------------------------------------------------------- witnesses *)
Definition res_distances (r : option (option obs)) : list N :=
  match r with Some (Some o) => record_distances o | _ => [] end.

(* two concurrent decodes of csd_call: thread 1 loads the accumulators after
   thread 0 has stored them: a conflicting pair, and thread 1's Distances differ
   from those it returns alone *)
Theorem race_refuted : exists c0 c1 sched,
  let x := run_concurrent sched [c0; c1] g_init in
  races (trace x) <> [] /\ all_returned x = true /\
  nth_error (results x) 1 <> Some (Some (fresh c1)) /\
  no_accumulated_sourceb c0 = false /\ no_accumulated_sourceb c1 = false.
Proof.
  exists csd_call, csd_call, [0; 0; 1; 1]%nat. cbv zeta.
  split; [|split; [|split; [|split]]].
  - assert (E : List.length (races (trace (run_concurrent [0; 0; 1; 1]%nat [csd_call; csd_call] g_init))) = 3%nat)
      by (vm_compute; reflexivity).
    intro H. rewrite H in E. discriminate E.
  - vm_compute. reflexivity.
  - intro H. apply (f_equal res_distances) in H.
    assert (E1 : res_distances (nth_error (results (run_concurrent [0; 0; 1; 1]%nat [csd_call; csd_call] g_init)) 1) = [4146; 4196])
      by (vm_compute; reflexivity).
    assert (E2 : res_distances (Some (Some (fresh csd_call))) = [50; 100]) by (vm_compute; reflexivity).
    rewrite E1, E2 in H. discriminate H.
  - vm_compute. reflexivity.
  - vm_compute. reflexivity.
Qed.

(* a race need not show in any result: both threads load before either stores
   (a lost update), or the accumulator is one whose value never moves (cycles) *)
Theorem race_without_result_difference : exists c sched,
  let x := run_concurrent sched [c; c] g_init in
  List.length (races (trace x)) = 3%nat /\
  map res_distances (map Some (results x)) = [res_distances (Some (Some (fresh c))); res_distances (Some (Some (fresh c)))] /\
  no_distance_sourceb c = true /\ no_accumulated_sourceb c = false.
Proof.
  exists cycles_call, [0; 1; 0; 1]%nat. cbv zeta. split; [|split; [|split]]; vm_compute; reflexivity.
Qed.

(* the hypothesis of noninterference is satisfiable by calls that decode record messages *)
Lemma noninterference_example :
  Forall no_accumulated_source [plain_call; plain_call; CEncode (new_file zero_header) false] /\
  all_returned (run_concurrent [2; 0; 1; 1; 0]%nat [plain_call; plain_call; CEncode (new_file zero_header) false] g_init) = true.
Proof.
  split.
  - constructor; [|constructor; [|constructor; [|constructor]]]; apply no_accumulated_sourceb_spec; vm_compute; reflexivity.
  - vm_compute. reflexivity.
Qed.
