(* Stream-level decode = denote, chained form: the entry point DecodeChained on the concatenation of
   k >= 1 complete framed files followed by a clean EOF, read through any reader oracle (any chunk
   schedule with empty reads, data-with-EOF or not, any start position).
   It returns exactly the k routed Files and no error, consumes every byte, and threads the accumulator
   state from one file to the next; each File is the one Decode returns for that file alone, started
   from the accumulator state the chain has reached (C02 lifted to chains, C10 flavour). *)
From Coq Require Import NArith ZArith List Bool Lia Arith.
From Coq Require Import ZifyN ZifyNat ZifyBool.
From FitV Require Import Proofs.Util Model.Values Model.Bytes Model.Base Model.Profile Model.Reflect Model.IO
  Model.Header Model.Route Model.Components Model.Decode Spec.FitSyntax Spec.RouteSpec Proofs.DecodeLemmas Gen.Consts
  Proofs.StreamDenoteBase Proofs.StreamDenoteDefs Proofs.StreamDenoteLoop Proofs.StreamDenoteLift Proofs.StreamDenoteMain
  Proofs.StreamDenoteFrame Proofs.StreamDenoteDecode Proofs.StreamDenoteWitness.
Import ListNotations.

(* ------------------------------------------------------------ the domain and the expected result *)

(* every file of the chain is in the domain of [Decode_denote], taken from the accumulator state the
   files before it have produced *)
Fixpoint chain_domain (g : gstate) (fs : list (header * list record)) : Prop :=
  match fs with
  | [] => True
  | (h, rs) :: r =>
      header_wf h /\ h_dsize h = N.of_nat (List.length (ser_records rs)) /\
      starts_with_file_id rs = true /\ stream_wf rs = true /\
      exists ss f2 g1 f g',
        denote rs = Some ss /\ start_file h g (hd dummy_msg (ss_msgs ss)) = Some (f2, g1) /\
        route_msgs h g (ss_msgs ss) = Some (f, g') /\ chain_domain g' r
  end.

Definition chain_bytes (fs : list (header * list record)) : list N :=
  concat (map (fun hr => fit_file (fst hr) (snd hr)) fs).

(* the i-th returned File is the routed File of the i-th record list, started from the i-th
   accumulator state, exactly as in the conclusion of [Decode_denote]; gl is the last accumulator state *)
Fixpoint chain_result (o : dopts) (g : gstate) (fs : list (header * list record)) (files : list file) (gl : gstate) : Prop :=
  match fs, files with
  | [], [] => gl = g
  | (h, rs) :: r, file' :: fr =>
      exists ss f g1,
        denote rs = Some ss /\ route_msgs h g (ss_msgs ss) = Some (f, g1) /\
        f_slots file' = f_slots f /\ f_inited file' = f_inited f /\ f_header file' = h /\
        f_crc file' = file_crc h (ser_records rs) /\
        (o_unkm o = true -> f_unkm file' = Some (sorted_unkm ss)) /\
        (o_unkf o = true -> f_unkf file' = Some (sorted_unkf ss)) /\
        chain_result o g1 r fr gl
  | _, _ => False
  end.

(* the i-th returned File, the next accumulator state and the quirk list are what Decode returns on the
   i-th file alone (one piece, clean EOF right after it) from the i-th accumulator state; ql is the
   concatenation of the quirk lists *)
Fixpoint chain_alone (o : dopts) (g : gstate) (fs : list (header * list record)) (files : list file)
  (gl : gstate) (ql : list N) : Prop :=
  match fs, files with
  | [], [] => gl = g /\ ql = []
  | (h, rs) :: r, file' :: fr =>
      exists g1 q qr,
        (forall fuel0, (List.length (fit_file h rs) < fuel0)%nat ->
           exists rd0, entry_Decode o g (alone_reader h rs) fuel0 = TDone (mk_dres None h (Some file') rd0 g1 q) /\
                       rd_data rd0 = [] /\ rd_pos rd0 = List.length (fit_file h rs)) /\
        ql = q ++ qr /\ chain_alone o g1 r fr gl qr
  | _, _ => False
  end.

Lemma chain_bytes_cons h rs r : chain_bytes ((h, rs) :: r) = fit_file h rs ++ chain_bytes r.
Proof. reflexivity. Qed.

Lemma fit_file_length_ge h rs : (2 <= List.length (fit_file h rs))%nat.
Proof.
  unfold fit_file, frame_bytes. rewrite !app_length.
  change (List.length (put_le16 (file_crc h (ser_records rs)))) with 2%nat. lia.
Qed.

Lemma chain_bytes_length_ge : forall fs, (List.length fs <= List.length (chain_bytes fs))%nat.
Proof.
  induction fs as [|[h rs] r IH]; [cbn [List.length]; lia|].
  rewrite chain_bytes_cons, app_length. pose proof (fit_file_length_ge h rs). cbn [List.length]. lia.
Qed.

(* ------------------------------------------------------------ the chain loop *)
Lemma decode_chained_denote : forall o fs g rd fuel i files acc q,
  chain_domain g fs -> rd_data rd = chain_bytes fs -> rd_term rd = TEOF ->
  (List.length (rd_data rd) + List.length (rd_sched rd) < fuel)%nat ->
  (List.length fs < files)%nat -> (fs = [] -> i <> 0%nat) ->
  exists rd' fl g' ql,
    decode_chained o g rd fuel i files acc q = TDone (mk_cres None (acc ++ fl) rd' g' (q ++ ql)) /\
    rd_data rd' = [] /\ rd_pos rd' = (rd_pos rd + List.length (chain_bytes fs))%nat /\
    List.length fl = List.length fs /\ chain_result o g fs fl g' /\ chain_alone o g fs fl g' ql.
Proof.
  intros o fs. induction fs as [|[h rs] r IH]; intros g rd fuel i files acc q Hdom Hd Ht Hf Hfiles Hi.
  - destruct files as [|k]; [cbn [List.length] in Hfiles; lia|].
    destruct i as [|i']; [exfalso; now apply Hi|].
    cbn [decode_chained]. rewrite (decode_eof o MFull g fuel rd Hd Ht ltac:(lia)).
    cbn [dr_err dr_rd dr_g dr_quirks].
    exists rd, [], g, []. rewrite !app_nil_r. split; [reflexivity|].
    cbn [chain_result chain_alone]. unfold chain_bytes. cbn [map concat List.length].
    repeat split; try reflexivity; [exact Hd|lia].
  - destruct files as [|k]; [lia|].
    cbn [chain_domain] in Hdom.
    destruct Hdom as (Hh & Hsz & Hs & Hwf & ss & f2 & g1 & f & g' & Hden & Hst & Hroute & Hdom').
    rewrite chain_bytes_cons in Hd.
    destruct (Decode_denote_full o g rd fuel h rs ss f2 g1 (chain_bytes r) Hh Hsz Hs Hwf Hden Hst Hd Hf)
      as (rd1 & file' & fx & gx & q0 & Hdec & Hroute' & Hsl & Hin & Hhd & Hcrc & Hum & Huf & Hpos & Hrest & Hterm & Hmsr & Halone).
    rewrite Hroute in Hroute'. inversion Hroute'; subst fx gx. clear Hroute'.
    cbn [decode_chained]. unfold entry_Decode in Hdec. rewrite Hdec. cbn [dr_err dr_file dr_g dr_rd dr_quirks].
    assert (Ht1 : rd_term rd1 = TEOF) by congruence.
    destruct (IH g' rd1 fuel (S i) k (acc ++ [file']) (q ++ q0) Hdom' Hrest Ht1 ltac:(lia)
                ltac:(cbn [List.length] in Hfiles; lia) ltac:(intros _; discriminate))
      as (rd' & fl & gl & ql & Hrun & Hd2 & Hp2 & Hl2 & Hres & Hal).
    exists rd', (file' :: fl), gl, (q0 ++ ql). rewrite Hrun, <- !app_assoc. cbn [app]. split; [reflexivity|].
    split; [exact Hd2|]. split.
    { rewrite Hp2, Hpos, chain_bytes_cons, app_length. lia. }
    split; [cbn [List.length]; now rewrite Hl2|].
    split.
    + cbn [chain_result]. exists ss, f, g'. repeat split; assumption.
    + cbn [chain_alone]. exists g', q0, ql. split; [exact Halone|]. split; [reflexivity|exact Hal].
Qed.

(* ------------------------------------------------------------ the entry point *)
Theorem DecodeChained_denote_full : forall o fs g rd fuel,
  fs <> [] -> chain_domain g fs -> rd_data rd = chain_bytes fs -> rd_term rd = TEOF ->
  (List.length (rd_data rd) + List.length (rd_sched rd) < fuel)%nat ->
  exists rd' files' g' q,
    entry_DecodeChained o g rd fuel = TDone (mk_cres None files' rd' g' q) /\
    rd_data rd' = [] /\ rd_pos rd' = (rd_pos rd + List.length (chain_bytes fs))%nat /\
    List.length files' = List.length fs /\ chain_result o g fs files' g' /\ chain_alone o g fs files' g' q.
Proof.
  intros o fs g rd fuel Hne Hdom Hd Ht Hf.
  unfold entry_DecodeChained.
  destruct (decode_chained_denote o fs g rd fuel 0 (S (List.length (rd_data rd))) [] [] Hdom Hd Ht Hf)
    as (rd' & fl & g' & ql & Hrun & H1 & H2 & H3 & H4 & H5).
  - rewrite Hd. pose proof (chain_bytes_length_ge fs). lia.
  - intros E. contradiction.
  - exists rd', fl, g', ql. cbn [app] in Hrun. repeat split; assumption.
Qed.

(* C02 on chains: k well-formed files and a clean EOF give exactly the k routed Files, no error, all bytes consumed *)
Theorem DecodeChained_denote : forall o fs g rd fuel,
  fs <> [] -> chain_domain g fs -> rd_data rd = chain_bytes fs -> rd_term rd = TEOF ->
  (List.length (rd_data rd) + List.length (rd_sched rd) < fuel)%nat ->
  exists rd' files' g' q,
    entry_DecodeChained o g rd fuel = TDone (mk_cres None files' rd' g' q) /\
    rd_data rd' = [] /\ rd_pos rd' = (rd_pos rd + List.length (chain_bytes fs))%nat /\
    List.length files' = List.length fs /\ chain_result o g fs files' g'.
Proof.
  intros o fs g rd fuel Hne Hdom Hd Ht Hf.
  destruct (DecodeChained_denote_full o fs g rd fuel Hne Hdom Hd Ht Hf) as (rd' & fl & g' & q & H0 & H1 & H2 & H3 & H4 & _).
  exists rd', fl, g', q. repeat split; assumption.
Qed.

(* C10 flavour: the chain is the threaded map of Decode over its files; neither what follows a file in the
   reader, nor how the reader delivers it, nor the files before it (except through the accumulator state)
   have any influence on the File returned for it *)
Corollary DecodeChained_is_map_Decode : forall o fs g rd fuel,
  fs <> [] -> chain_domain g fs -> rd_data rd = chain_bytes fs -> rd_term rd = TEOF ->
  (List.length (rd_data rd) + List.length (rd_sched rd) < fuel)%nat ->
  exists rd' files' g' q,
    entry_DecodeChained o g rd fuel = TDone (mk_cres None files' rd' g' q) /\
    chain_alone o g fs files' g' q.
Proof.
  intros o fs g rd fuel Hne Hdom Hd Ht Hf.
  destruct (DecodeChained_denote_full o fs g rd fuel Hne Hdom Hd Ht Hf) as (rd' & fl & g' & q & H0 & _ & _ & _ & _ & H5).
  exists rd', fl, g', q. split; assumption.
Qed.

(* the result does not depend on the reader schedule, the data-with-EOF flag, the start position or the fuel *)
Corollary DecodeChained_schedule_independent : forall o fs g rd rd2 fuel fuel2,
  fs <> [] -> chain_domain g fs -> rd_data rd = chain_bytes fs -> rd_term rd = TEOF ->
  rd_data rd2 = rd_data rd -> rd_term rd2 = TEOF ->
  (List.length (rd_data rd) + List.length (rd_sched rd) < fuel)%nat ->
  (List.length (rd_data rd2) + List.length (rd_sched rd2) < fuel2)%nat ->
  exists c1 c2,
    entry_DecodeChained o g rd fuel = TDone c1 /\ entry_DecodeChained o g rd2 fuel2 = TDone c2 /\
    cr_err c1 = None /\ cr_err c2 = None /\ cr_files c1 = cr_files c2 /\ cr_g c1 = cr_g c2 /\ cr_quirks c1 = cr_quirks c2.
Proof.
  intros o fs g rd rd2 fuel fuel2 Hne Hdom Hd Ht Hd2 Ht2 Hf Hf2.
  destruct (DecodeChained_is_map_Decode o fs g rd fuel Hne Hdom Hd Ht Hf) as (ra & fa & ga & qa & Ra & Aa).
  rewrite <- Hd2 in Hd.
  destruct (DecodeChained_is_map_Decode o fs g rd2 fuel2 Hne Hdom Hd Ht2 Hf2) as (rb & fb & gb & qb & Rb & Ab).
  eexists. eexists. split; [exact Ra|]. split; [exact Rb|]. cbn [cr_err cr_files cr_g cr_quirks].
  split; [reflexivity|]. split; [reflexivity|].
  clear Ra Rb Hd Hd2 Ht Ht2 Hf Hf2 Hne Hdom rd rd2 ra rb.
  revert g fa fb ga gb qa qb Aa Ab.
  induction fs as [|[h rs] r IH]; intros g fa fb ga gb qa qb Aa Ab.
  - destruct fa; [|contradiction]. destruct fb; [|contradiction]. cbn [chain_alone] in Aa, Ab.
    destruct Aa as [-> ->]. destruct Ab as [-> ->]. repeat split; reflexivity.
  - destruct fa as [|xa fa]; [contradiction|]. destruct fb as [|xb fb]; [contradiction|].
    cbn [chain_alone] in Aa, Ab.
    destruct Aa as (g1 & q1 & qr1 & Ha & -> & Aa). destruct Ab as (g2 & q2 & qr2 & Hb & -> & Ab).
    destruct (Ha (S (List.length (fit_file h rs))) ltac:(lia)) as (r0 & Ea & _).
    destruct (Hb (S (List.length (fit_file h rs))) ltac:(lia)) as (r0' & Eb & _).
    rewrite Ea in Eb. inversion Eb; subst xb g2 q2.
    destruct (IH g1 fa fb ga gb qr1 qr2 Aa Ab) as (E1 & E2 & E3). subst. repeat split; reflexivity.
Qed.

Print Assumptions DecodeChained_denote_full.
Print Assumptions DecodeChained_denote.
Print Assumptions DecodeChained_is_map_Decode.
Print Assumptions DecodeChained_schedule_independent.

(* ------------------------------------------------------------ the hypotheses are satisfiable *)
(* two copies of the concrete file of StreamDenoteDecode.v, read in chunks of 5, 0, 9 bytes and then whole *)
Definition ok_chain : list (header * list record) := [(ok_hdr, ok_stream); (ok_hdr, ok_stream)].
Definition ok_chain_reader : reader :=
  mk_reader (fit_file ok_hdr ok_stream ++ fit_file ok_hdr ok_stream) [5; 0; 9]%nat TEOF false 0.

(* one step of the accumulator state, as a function: the state after the file (h, rs) *)
Definition file_step (h : header) (g : gstate) (rs : list record) : option gstate :=
  match denote rs with
  | Some ss =>
      match start_file h g (hd dummy_msg (ss_msgs ss)), route_msgs h g (ss_msgs ss) with
      | Some _, Some (_, g') => Some g'
      | _, _ => None
      end
  | None => None
  end.

Lemma chain_domain_step h g rs g' r :
  header_wf h -> h_dsize h = N.of_nat (List.length (ser_records rs)) ->
  starts_with_file_id rs = true -> stream_wf rs = true ->
  file_step h g rs = Some g' -> chain_domain g' r -> chain_domain g ((h, rs) :: r).
Proof.
  intros Hh Hsz Hs Hwf Hstep Hr. cbn [chain_domain]. repeat (split; [assumption|]).
  unfold file_step in Hstep.
  destruct (denote rs) as [ss|]; [|discriminate].
  destruct (start_file h g (hd dummy_msg (ss_msgs ss))) as [[f2 g1]|] eqn:Est; [|discriminate].
  destruct (route_msgs h g (ss_msgs ss)) as [[f gx]|] eqn:Ero; [|discriminate].
  inversion Hstep; subst gx. exists ss, f2, g1, f, g'. repeat split; assumption.
Qed.

Lemma ok_stream_facts :
  h_dsize ok_hdr = N.of_nat (List.length (ser_records ok_stream)) /\
  starts_with_file_id ok_stream = true /\ stream_wf ok_stream = true.
Proof. split; [reflexivity|]. split; vm_compute; reflexivity. Qed.

Example ok_chain_in_domain :
  chain_domain g_init ok_chain /\ rd_data ok_chain_reader = chain_bytes ok_chain /\ rd_term ok_chain_reader = TEOF /\
  (List.length (rd_data ok_chain_reader) + List.length (rd_sched ok_chain_reader) < 400)%nat.
Proof.
  split; [|split; [vm_compute; reflexivity|split; [reflexivity|vm_compute; lia]]].
  unfold ok_chain.
  destruct ok_stream_facts as (F1 & F2 & F3).
  destruct (file_step ok_hdr g_init ok_stream) as [ga|] eqn:E1; [|vm_compute in E1; discriminate].
  apply (chain_domain_step ok_hdr g_init ok_stream ga _ ok_hdr_wf F1 F2 F3 E1).
  destruct (file_step ok_hdr ga ok_stream) as [gb|] eqn:E2.
  - apply (chain_domain_step ok_hdr ga ok_stream gb _ ok_hdr_wf F1 F2 F3 E2). exact I.
  - exfalso. vm_compute in E1. injection E1 as <-. vm_compute in E2. discriminate E2.
Qed.

Example DecodeChained_example :
  match entry_DecodeChained no_opts g_init ok_chain_reader 400 with
  | TDone c => cr_err c = None /\ List.length (cr_files c) = 2%nat /\ rd_pos (cr_rd c) = 134%nat /\ rd_data (cr_rd c) = []
  | _ => False
  end.
Proof. vm_compute. repeat split; reflexivity. Qed.
