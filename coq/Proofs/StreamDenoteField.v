(* Stream-level decode = denote, layer 1: one field.  For every profile entry, every definition
   compatible with it ([compat]) and any wire bytes, the decoder's storing functions
   (parse_fit_field / parse_fit_field_array through the reflect setters) produce exactly the value
   the reference semantics assigns (denote_field): nothing is truncated, nothing panics.
   The profile is quantified over: the facts used come from profile_wf soundness (C15) and from
   finite checks over the 256 base-type bytes. *)
From Coq Require Import NArith ZArith List Bool Lia Arith.
From Coq Require Import ZifyN ZifyNat ZifyBool.
From FitV Require Import Proofs.Util Model.Values Model.Bytes Model.Base Model.Profile Model.Reflect Model.IO
  Model.Decode Spec.FitSyntax Spec.ProfileWf Proofs.ProfileProofs Gen.BaseTables Gen.Consts
  Proofs.StreamDenoteBase Proofs.StreamDenoteArith Proofs.StreamDenoteStrings Proofs.StreamDenoteDefs.
Import ListNotations.
Local Open Scope N_scope.
Ltac Zify.zify_post_hook ::= Z.div_mod_to_equations.

(* ------------------------------------------------------------ base-type bytes *)

Lemma known_lt_256 bt : b_known bt = Some true -> bt < 256.
Proof.
  intros H. destruct (N.lt_ge_cases bt 256) as [Hlt|Hge]; [assumption|exfalso].
  unfold b_known, tbl in H. rewrite nth_overflow in H; [discriminate|].
  assert (E : List.length base_known = 256%nat) by (vm_compute; reflexivity). rewrite E. lia.
Qed.

Definition canon_list : list N := [0; 1; 2; 7; 10; 13; 131; 132; 133; 134; 136; 137; 139; 140; 142; 143; 144].

Lemma canon_cases bt : b_known bt = Some true -> N.land bt 0x60 = 0 -> In bt canon_list.
Proof.
  intros Hk Hc. pose proof (known_lt_256 bt Hk) as Hlt.
  pose proof (forall_below 256
    (fun b => match b_known b with
              | Some true => if N.land b 0x60 =? 0 then existsb (N.eqb b) canon_list else true
              | _ => true end) ltac:(vm_compute; reflexivity) bt Hlt) as H.
  cbv beta in H. rewrite Hk, Hc in H. change (0 =? 0) with true in H. cbv iota in H.
  apply existsb_exists in H. destruct H as (x & Hin & Hx). apply N.eqb_eq in Hx. now subst.
Qed.

Lemma fit_base_lt t : fit_base t < 256.
Proof.
  unfold fit_base.
  assert (Hl : N.land t 0xFF < 256) by (change 256 with (2 ^ 8); apply land_lt_pow2; reflexivity).
  exact (proj1 (N.ltb_lt _ _) (forall_below 256 (fun x => decompress x <? 256) ltac:(vm_compute; reflexivity) _ Hl)).
Qed.

Definition storable_list : list N := [0; 1; 2; 7; 10; 13; 131; 132; 133; 134; 139; 140].

Lemma storable_cases t : base_storable (fit_base t) = true -> In (fit_base t) storable_list.
Proof.
  intros Hs. unfold fit_base in *.
  assert (Hl : N.land t 0xFF < 256) by (change 256 with (2 ^ 8); apply land_lt_pow2; reflexivity).
  pose proof (forall_below 256
    (fun x => if base_storable (decompress x) then existsb (N.eqb (decompress x)) storable_list else true)
    ltac:(vm_compute; reflexivity) _ Hl) as H.
  cbv beta in H. rewrite Hs in H.
  apply existsb_exists in H. destruct H as (x & Hin & Hx). apply N.eqb_eq in Hx. now rewrite Hx.
Qed.

(* the Go type of a storable non-string base type: an integer of its size and signedness *)
Lemma pb_facts pb : In pb storable_list -> pb <> base_string ->
  exists ps sg, b_size pb = Some ps /\ b_signed pb = Some sg /\
                gotype_of_base pb = (if sg then TI (8 * ps) else TU (8 * ps)) /\ (ps = 1 \/ ps = 2 \/ ps = 4).
Proof.
  intros Hin Hns. unfold storable_list in Hin. cbn [In] in Hin.
  repeat (destruct Hin as [<-|Hin]); try contradiction; try (exfalso; apply Hns; reflexivity);
    eexists; eexists; (split; [vm_compute; reflexivity|]); (split; [vm_compute; reflexivity|]);
    (split; [vm_compute; reflexivity|]); tauto.
Qed.

(* ------------------------------------------------------------ what compat says about a listed field *)

Definition scalar_facts (bt pb size : N) : Prop :=
  exists ds ps sg,
    b_size bt = Some ds /\ b_size pb = Some ps /\ b_signed pb = Some sg /\ b_signed bt = Some sg /\
    b_float bt = Some false /\ size = ds /\ ds <= ps /\ bt <> base_string.

Lemma compat_listed gmn f p : compat gmn f = true -> known_msg gmn = true -> get_field gmn (sf_num f) = Some p ->
  b_known (sf_btype f) = Some true /\
  (if fit_base (pf_t p) =? base_string then sf_btype f = base_string
   else if fit_array (pf_t p) then
     sf_btype f = fit_base (pf_t p) /\ exists ds, b_size (sf_btype f) = Some ds /\ ds <= sf_size f /\ (sf_size f) mod ds = 0
   else scalar_facts (sf_btype f) (fit_base (pf_t p)) (sf_size f)).
Proof.
  intros Hc Hk Hg. unfold compat in Hc. rewrite Hk, Hg in Hc.
  destruct (b_known (sf_btype f)) as [[|]|]; try discriminate.
  destruct (b_size (sf_btype f)) as [ds|] eqn:Eds; try discriminate.
  split; [reflexivity|].
  destruct (fit_base (pf_t p) =? base_string); [now apply N.eqb_eq|].
  destruct (fit_array (pf_t p)).
  - apply andb_prop in Hc. destruct Hc as [Hc H3]. apply andb_prop in Hc. destruct Hc as [H1 H2].
    apply N.eqb_eq in H1, H3. apply N.leb_le in H2. split; [assumption|]. exists ds. auto.
  - destruct (b_size (fit_base (pf_t p))) as [ps|] eqn:Eps; try discriminate.
    destruct (b_signed (fit_base (pf_t p))) as [sp|] eqn:Esp; try discriminate.
    destruct (b_signed (sf_btype f)) as [sd|] eqn:Esd; try discriminate.
    destruct (b_float (fit_base (pf_t p))) as [[|]|] eqn:Efp; try discriminate.
    destruct (b_float (sf_btype f)) as [[|]|] eqn:Efd; try discriminate.
    apply andb_prop in Hc. destruct Hc as [Hc H4]. apply andb_prop in Hc. destruct Hc as [Hc H3].
    apply andb_prop in Hc. destruct Hc as [H1 H2].
    apply N.eqb_eq in H1. apply N.leb_le in H2. apply eqb_prop in H3. subst sd.
    apply negb_true_iff, N.eqb_neq in H4.
    exists ds, ps, sp. repeat split; assumption.
Qed.

(* ------------------------------------------------------------ denote_field by case *)

Lemma denote_native_scalar be f p ty ref bytes :
  fit_kind (pf_t p) = kind_native -> fit_array (pf_t p) = false -> sf_btype f <> base_string ->
  denote_field be f p ty ref bytes =
  Some (embed ty (match b_signed (sf_btype f) with Some s => s | None => false end)
              (wire_unsigned be bytes) (wire_signed be bytes)).
Proof.
  intros Hk Ha Hs. unfold denote_field. rewrite Hk, Ha. change (kind_native =? kind_native) with true. cbv iota.
  replace (sf_btype f =? base_string) with false by (symmetry; now apply N.eqb_neq). reflexivity.
Qed.

Lemma denote_native_string be f p ty ref bytes :
  fit_kind (pf_t p) = kind_native -> fit_array (pf_t p) = false -> sf_btype f = base_string ->
  denote_field be f p ty ref bytes = match upto_nul bytes with [] => None | s => Some (VStr s) end.
Proof.
  intros Hk Ha Hs. unfold denote_field. rewrite Hk, Ha, Hs. reflexivity.
Qed.

Lemma denote_native_array be f p ty ref bytes :
  fit_kind (pf_t p) = kind_native -> fit_array (pf_t p) = true -> sf_btype f <> base_string ->
  denote_field be f p ty ref bytes =
  Some (VList (map (fun e => embed (match ty with TSlice e0 => e0 | _ => TOther end)
                                   (match b_signed (sf_btype f) with Some s => s | None => false end)
                                   (wire_unsigned be e) (wire_signed be e))
                   (split_every (match b_size (sf_btype f) with Some s => N.to_nat s | None => 1%nat end)
                                (List.length bytes) bytes))).
Proof.
  intros Hk Ha Hs. unfold denote_field. rewrite Hk, Ha. change (kind_native =? kind_native) with true. cbv iota.
  replace (sf_btype f =? base_string) with false by (symmetry; now apply N.eqb_neq). reflexivity.
Qed.

Lemma denote_native_strings be f p ty ref bytes :
  fit_kind (pf_t p) = kind_native -> fit_array (pf_t p) = true -> sf_btype f = base_string ->
  denote_field be f p ty ref bytes =
  match split_strings (S (List.length bytes)) bytes with
  | [] => match bytes with [] => None | _ => Some VNil end
  | l => Some (VList (map VStr l))
  end.
Proof. intros Hk Ha Hs. unfold denote_field. rewrite Hk, Ha, Hs. reflexivity. Qed.

(* ------------------------------------------------------------ scalars *)

Definition res_of (o : option goval) : fres := match o with Some v => FSet v | None => FKeep end.

Lemma all_bytes_cons a l : all_bytes (a :: l) = true -> a < 256 /\ all_bytes l = true.
Proof. unfold all_bytes, is_byte. cbn [forallb]. intros H. apply andb_prop in H. destruct H as [H1 H2]. apply N.ltb_lt in H1. auto. Qed.

Ltac bytes_of H :=
  repeat match type of H with
         | all_bytes (_ :: _) = true => let Hb := fresh "Hb" in apply all_bytes_cons in H; destruct H as [Hb H]
         end.

Ltac list_of_len buf H :=
  let a := fresh "a" in let b := fresh "b" in let c := fresh "c" in let d := fresh "d" in
  destruct buf as [|a [|b [|c [|d [|? ?]]]]]; cbn [List.length] in H; try (exfalso; lia).

(* parse_fit_field on the concrete base types *)
Lemma pff_u1 be num b a ty : is_u8like b = true ->
  parse_fit_field be (mk_fdef num 1 b) [a] ty = of_set (set_uint ty a).
Proof. intros H. unfold parse_fit_field. cbn [fd_btype]. rewrite H. reflexivity. Qed.
Lemma pff_s1 be num a ty : parse_fit_field be (mk_fdef num 1 base_sint8) [a] ty = of_set (set_int ty (to_signed 8 a)).
Proof. reflexivity. Qed.
Lemma pff_s2 be num a b ty :
  parse_fit_field be (mk_fdef num 2 base_sint16) [a; b] ty = of_set (set_int ty (to_signed 16 (get16 be [a; b]))).
Proof. reflexivity. Qed.
Lemma pff_u2 be num bt a b ty : bt = base_uint16 \/ bt = base_uint16z ->
  parse_fit_field be (mk_fdef num 2 bt) [a; b] ty = of_set (set_uint ty (get16 be [a; b])).
Proof. intros [ -> | -> ]; reflexivity. Qed.
Lemma pff_s4 be num a b c d ty :
  parse_fit_field be (mk_fdef num 4 base_sint32) [a; b; c; d] ty = of_set (set_int ty (to_signed 32 (get32 be [a; b; c; d]))).
Proof. reflexivity. Qed.
Lemma pff_u4 be num bt a b c d ty : bt = base_uint32 \/ bt = base_uint32z ->
  parse_fit_field be (mk_fdef num 4 bt) [a; b; c; d] ty = of_set (set_uint ty (get32 be [a; b; c; d])).
Proof. intros [ -> | -> ]; reflexivity. Qed.

Lemma fin_u bits x y : x = y -> y < 2 ^ bits -> FSet (VU (wrap_u bits x)) = FSet (VU y).
Proof. intros -> H. now rewrite wrap_u_small. Qed.
Lemma fin_s bits z w : z = w -> wrap_s bits w = w -> FSet (VI (wrap_s bits z)) = FSet (VI w).
Proof. intros -> H. now rewrite H. Qed.

(* native scalar field: all integer base types, both byte orders, narrow definitions *)
Lemma scalar_agree be num size bt pb buf :
  b_known bt = Some true -> N.land bt 0x60 = 0 -> In pb storable_list -> pb <> base_string ->
  scalar_facts bt pb size -> List.length buf = N.to_nat size -> all_bytes buf = true ->
  parse_fit_field be (mk_fdef num size bt) buf (gotype_of_base pb) =
  FSet (embed (gotype_of_base pb) (match b_signed bt with Some s => s | None => false end)
              (wire_unsigned be buf) (wire_signed be buf)).
Proof.
  intros Hk Hc Hpb Hpbs (ds & ps & sg & Hds & Hps & Hsp & Hsd & Hfl & Hsz & Hle & Hns) Hlen Hbytes.
  destruct (pb_facts pb Hpb Hpbs) as (ps' & sg' & Hps' & Hsp' & Hty & Hpsv).
  rewrite Hps in Hps'. injection Hps' as <-. rewrite Hsp in Hsp'. injection Hsp' as <-.
  rewrite Hty, Hsd. subst size.
  pose proof (canon_cases bt Hk Hc) as Hin. unfold canon_list in Hin. cbn [In] in Hin.
  unfold wire_unsigned, wire_signed.
  repeat (destruct Hin as [<-|Hin]); try contradiction; try (exfalso; apply Hns; reflexivity);
    vm_compute in Hds; injection Hds as <-; vm_compute in Hsd; injection Hsd as <-; try (vm_compute in Hfl; discriminate);
    try (exfalso; lia);
    list_of_len buf Hlen; bytes_of Hbytes; cbn [List.length N.of_nat Pos.of_succ_nat Pos.succ];
    destruct Hpsv as [ -> | [ -> | -> ] ]; try (exfalso; lia);
    change (8 * 1) with 8; change (8 * 2) with 16; change (8 * 4) with 32;
    first [ rewrite pff_u1 by reflexivity | rewrite pff_s1 | rewrite pff_s2 | rewrite pff_u2 by tauto
          | rewrite pff_s4 | rewrite pff_u4 by tauto ];
    cbn [of_set set_uint set_int embed].
  all: try (apply fin_u; [first [symmetry; apply get_val_1|apply get16_val|apply get32_val]|];
            first [ pose proof (get_val_4_lt be a b c d ltac:(assumption) ltac:(assumption) ltac:(assumption) ltac:(assumption))
                  | pose proof (get_val_2_lt be a b ltac:(assumption) ltac:(assumption))
                  | rewrite get_val_1 ];
            first [rewrite pow8|rewrite pow16|rewrite pow32]; lia).
  all: apply fin_s; [first [symmetry; f_equal; apply get_val_1|f_equal; apply get16_val|f_equal; apply get32_val]|].
  all: first [ apply wrap_s_widen; [tauto|apply to_signed_8; now rewrite get_val_1]
             | apply wrap_s_widen16; [tauto|apply to_signed_16; now apply get_val_2_lt]
             | apply wrap_s_32; apply to_signed_32; now apply get_val_4_lt ].
Qed.

(* ------------------------------------------------------------ strings *)

Lemma first_zero_le l : (first_zero l <= List.length l)%nat.
Proof. induction l as [|b r IH]; [cbn; lia|]. rewrite first_zero_cons. destruct (b =? 0); cbn [List.length]; lia. Qed.

Lemma string_agree be num size buf :
  parse_fit_field be (mk_fdef num size base_string) buf TStr =
  res_of (match upto_nul buf with [] => None | s => Some (VStr s) end).
Proof.
  change (parse_fit_field be (mk_fdef num size base_string) buf TStr)
    with (if Nat.ltb 0 (first_zero buf) then of_set (set_string TStr (firstn (first_zero buf) buf)) else FKeep).
  rewrite upto_nul_first_zero.
  destruct (first_zero buf) as [|j] eqn:Ej; [reflexivity|].
  destruct buf as [|b r]; [cbn in Ej; discriminate|]. reflexivity.
Qed.

(* ------------------------------------------------------------ arrays *)

Lemma map_ext_Forall {A B} (P : A -> Prop) (f g : A -> B) l :
  Forall P l -> (forall x, P x -> f x = g x) -> map f l = map g l.
Proof. intros HF Hx. induction HF as [|x l Hp HF IH]; [reflexivity|]. cbn [map]. now rewrite IH, (Hx x Hp). Qed.

Lemma all_bytes_In l x : all_bytes l = true -> In x l -> x < 256.
Proof. unfold all_bytes. rewrite forallb_forall. intros H Hin. apply N.ltb_lt. now apply H. Qed.

Lemma pffa_byte be num size buf ty :
  parse_fit_field_array be (mk_fdef num size base_byte) buf ty = of_set (set_bytes ty buf).
Proof. reflexivity. Qed.
Lemma pffa_u1 be num size bt buf e : bt = base_enum \/ bt = base_uint8 \/ bt = base_uint8z ->
  parse_fit_field_array be (mk_fdef num size bt) buf (TSlice e) =
  if negb (Nat.eqb (Nat.modulo (List.length buf) 1) 0) then FPanic 5 else of_set (set_uint_slice (TSlice e) buf).
Proof. intros [ -> | [ -> | -> ] ]; reflexivity. Qed.
Lemma pffa_s1 be num size buf e :
  parse_fit_field_array be (mk_fdef num size base_sint8) buf (TSlice e) =
  if negb (Nat.eqb (Nat.modulo (List.length buf) 1) 0) then FPanic 5
  else of_set (set_int_slice (TSlice e) (map (to_signed 8) buf)).
Proof. reflexivity. Qed.
Lemma pffa_s2 be num size buf e :
  parse_fit_field_array be (mk_fdef num size base_sint16) buf (TSlice e) =
  if negb (Nat.eqb (Nat.modulo (List.length buf) 2) 0) then FPanic 5
  else of_set (set_int_slice (TSlice e) (map (fun x => to_signed 16 (get16 be x))
         (chunks 2 (List.length buf) (firstn (2 * (List.length buf / 2))%nat buf)))).
Proof. reflexivity. Qed.
Lemma pffa_u2 be num size bt buf e : bt = base_uint16 \/ bt = base_uint16z ->
  parse_fit_field_array be (mk_fdef num size bt) buf (TSlice e) =
  if negb (Nat.eqb (Nat.modulo (List.length buf) 2) 0) then FPanic 5
  else of_set (set_uint_slice (TSlice e) (map (get16 be)
         (chunks 2 (List.length buf) (firstn (2 * (List.length buf / 2))%nat buf)))).
Proof. intros [ -> | -> ]; reflexivity. Qed.
Lemma pffa_s4 be num size buf e :
  parse_fit_field_array be (mk_fdef num size base_sint32) buf (TSlice e) =
  if negb (Nat.eqb (Nat.modulo (List.length buf) 4) 0) then FPanic 5
  else of_set (set_int_slice (TSlice e) (map (fun x => to_signed 32 (get32 be x))
         (chunks 4 (List.length buf) (firstn (4 * (List.length buf / 4))%nat buf)))).
Proof. reflexivity. Qed.
Lemma pffa_u4 be num size bt buf e : bt = base_uint32 \/ bt = base_uint32z ->
  parse_fit_field_array be (mk_fdef num size bt) buf (TSlice e) =
  if negb (Nat.eqb (Nat.modulo (List.length buf) 4) 0) then FPanic 5
  else of_set (set_uint_slice (TSlice e) (map (get32 be)
         (chunks 4 (List.length buf) (firstn (4 * (List.length buf / 4))%nat buf)))).
Proof. intros [ -> | -> ]; reflexivity. Qed.

Lemma firstn_whole k (buf : list N) : (List.length buf mod k = 0)%nat -> (0 < k)%nat ->
  firstn (k * (List.length buf / k))%nat buf = buf.
Proof.
  intros Hm Hk. replace (k * (List.length buf / k))%nat with (List.length buf).
  - apply firstn_all.
  - pose proof (Nat.div_mod (List.length buf) k ltac:(lia)) as E. rewrite Hm in E. lia.
Qed.

Lemma elems2 (buf : list N) : all_bytes buf = true -> (List.length buf mod 2 = 0)%nat ->
  Forall (fun e => exists a b, e = [a; b] /\ a < 256 /\ b < 256) (split_every 2 (List.length buf) buf).
Proof.
  intros Hb Hm. eapply Forall_impl; [|apply (split_every_elems 2 ltac:(lia) _ buf (le_n _) Hm)].
  intros e [Hl Hi]. destruct e as [|a [|b [|? ?]]]; cbn in Hl; try lia.
  exists a, b. repeat split; apply (all_bytes_In buf); auto; apply Hi; cbn; auto.
Qed.
Lemma elems4 (buf : list N) : all_bytes buf = true -> (List.length buf mod 4 = 0)%nat ->
  Forall (fun e => exists a b c d, e = [a; b; c; d] /\ a < 256 /\ b < 256 /\ c < 256 /\ d < 256)
         (split_every 4 (List.length buf) buf).
Proof.
  intros Hb Hm. eapply Forall_impl; [|apply (split_every_elems 4 ltac:(lia) _ buf (le_n _) Hm)].
  intros e [Hl Hi]. destruct e as [|a [|b [|c [|d [|? ?]]]]]; cbn in Hl; try lia.
  exists a, b, c, d. repeat split; apply (all_bytes_In buf); auto; apply Hi; cbn; auto.
Qed.

(* native array field of integers: element-wise, any number of elements *)
Lemma array_agree be num size bt ds buf :
  In bt storable_list -> bt <> base_string -> b_size bt = Some ds -> size mod ds = 0 ->
  List.length buf = N.to_nat size -> all_bytes buf = true ->
  parse_fit_field_array be (mk_fdef num size bt) buf (TSlice (gotype_of_base bt)) =
  FSet (VList (map (fun e => embed (gotype_of_base bt) (match b_signed bt with Some s => s | None => false end)
                                   (wire_unsigned be e) (wire_signed be e))
                   (split_every (N.to_nat ds) (List.length buf) buf))).
Proof.
  intros Hin Hns Hds Hmod Hlen Hbytes. unfold storable_list in Hin. cbn [In] in Hin.
  unfold wire_unsigned, wire_signed.
  repeat (destruct Hin as [<-|Hin]); try contradiction; try (exfalso; apply Hns; reflexivity);
    vm_compute in Hds; injection Hds as <-;
    match goal with
    | |- context [split_every (N.to_nat ?k)] =>
        assert (Hm : (List.length buf mod (N.to_nat k) = 0)%nat) by (rewrite Hlen; lia)
    end;
    match goal with
    | |- context [gotype_of_base ?b] => let v := eval vm_compute in (gotype_of_base b) in change (gotype_of_base b) with v
    end;
    match goal with
    | |- context [b_signed ?b] => let v := eval vm_compute in (b_signed b) in change (b_signed b) with v
    end; cbv iota;
    match goal with
    | |- context [N.to_nat ?k] => let v := eval vm_compute in (N.to_nat k) in change (N.to_nat k) with v in *
    end;
    first [ rewrite pffa_byte | rewrite pffa_u1 by tauto | rewrite pffa_s1 | rewrite pffa_s2 | rewrite pffa_u2 by tauto
          | rewrite pffa_s4 | rewrite pffa_u4 by tauto ];
    try (rewrite Hm; cbn [Nat.eqb negb]);
    try (rewrite firstn_whole by (assumption || lia)); try rewrite <- split_every_chunks;
    cbn [of_set set_bytes set_uint_slice set_int_slice embed]; f_equal; f_equal; try rewrite map_map.
  (* one-byte elements *)
  all: try (rewrite (split_every_1 _ _ buf (le_n _)); apply map_ext_in; intros x Hx;
            pose proof (all_bytes_In buf x Hbytes Hx) as Hxb; rewrite get_val_1; cbn [List.length N.of_nat Pos.of_succ_nat];
            first [ reflexivity
                  | rewrite wrap_u_small; [reflexivity|rewrite pow8; lia]
                  | change (8 * 1) with 8; rewrite wrap_s_8; [reflexivity|now apply to_signed_8] ]).
  (* two-byte elements *)
  all: try (apply (map_ext_Forall _ _ _ _ (elems2 buf Hbytes Hm)); intros e (a & b & -> & Ha & Hb);
            cbn [List.length N.of_nat Pos.of_succ_nat Pos.succ]; rewrite get16_val;
            first [ rewrite wrap_u_small; [reflexivity|rewrite pow16; pose proof (get_val_2_lt be a b Ha Hb); lia]
                  | change (8 * 2) with 16; rewrite wrap_s_16; [reflexivity|apply to_signed_16; now apply get_val_2_lt] ]).
  (* four-byte elements *)
  all: try (apply (map_ext_Forall _ _ _ _ (elems4 buf Hbytes Hm)); intros e (a & b & c & d & -> & Ha & Hb & Hc & Hd);
            cbn [List.length N.of_nat Pos.of_succ_nat Pos.succ]; rewrite get32_val;
            first [ rewrite wrap_u_small; [reflexivity|rewrite pow32; pose proof (get_val_4_lt be a b c d Ha Hb Hc Hd); lia]
                  | change (8 * 4) with 32; rewrite wrap_s_32; [reflexivity|apply to_signed_32; now apply get_val_4_lt] ]).
Qed.

(* arrays of strings *)
Lemma strings_agree be num size buf :
  parse_fit_field_array be (mk_fdef num size base_string) buf (TSlice TStr) =
  res_of (match split_strings (S (List.length buf)) buf with
          | [] => match buf with [] => None | _ => Some VNil end
          | l => Some (VList (map VStr l))
          end).
Proof.
  change (parse_fit_field_array be (mk_fdef num size base_string) buf (TSlice TStr))
    with (if negb (Nat.eqb (Nat.modulo (List.length buf) 1) 0) then FPanic 5
          else if Nat.eqb (List.length buf) 0 then FKeep
               else of_set (set_strings (TSlice TStr) (scan_strings (S (List.length buf)) buf (List.length buf) 0 0 []))).
  rewrite Nat.mod_1_r. cbn [Nat.eqb negb].
  destruct buf as [|b r]; [reflexivity|].
  pose proof (scan_is_split (b :: r) ltac:(discriminate)) as E.
  cbn [List.length Nat.eqb of_set set_strings] in E |- *. rewrite E.
  destruct (split_strings (S (S (List.length r))) (b :: r)); reflexivity.
Qed.

(* ------------------------------------------------------------ every native field *)

Lemma gotype_native t : fit_kind t = kind_native ->
  gotype_of_fit t = if fit_array t then TSlice (gotype_of_base (fit_base t)) else gotype_of_base (fit_base t).
Proof. intros Hk. unfold gotype_of_fit. rewrite Hk. reflexivity. Qed.

Theorem native_field_agree : forall be gmn f p ref buf,
  get_field gmn (sf_num f) = Some p -> compat gmn f = true -> canon_bt f = true ->
  fit_kind (pf_t p) = kind_native ->
  List.length buf = N.to_nat (sf_size f) -> all_bytes buf = true ->
  (if negb (fit_array (pf_t p)) then parse_fit_field be (to_fdef f) buf (gotype_of_fit (pf_t p))
   else parse_fit_field_array be (to_fdef f) buf (gotype_of_fit (pf_t p))) =
  res_of (denote_field be f p (gotype_of_fit (pf_t p)) ref buf).
Proof.
  intros be gmn f p ref buf Hg Hc Hcan Hk Hlen Hbytes.
  destruct (entry_sound _ _ _ Hg) as (m & Em & F).
  pose proof (storable_cases _ (ef_storable _ _ _ _ F)) as Hst.
  destruct (compat_listed gmn f p Hc (ef_known _ _ _ _ F) Hg) as [Hkn Hcase].
  unfold canon_bt in Hcan. apply N.eqb_eq in Hcan.
  rewrite (gotype_native _ Hk). unfold to_fdef.
  destruct (N.eqb_spec (fit_base (pf_t p)) base_string) as [Es|Ens].
  - (* strings *)
    rewrite Es, Hcase. change (gotype_of_base base_string) with TStr.
    destruct (fit_array (pf_t p)) eqn:Ea; cbn [negb].
    + rewrite (denote_native_strings be f p _ ref buf Hk Ea Hcase). apply strings_agree.
    + rewrite (denote_native_string be f p _ ref buf Hk Ea Hcase). apply string_agree.
  - destruct (fit_array (pf_t p)) eqn:Ea; cbn [negb].
    + destruct Hcase as [Ebt (ds & Hds & Hle & Hmod)].
      assert (Hns : sf_btype f <> base_string) by (rewrite Ebt; exact Ens).
      rewrite (denote_native_array be f p _ ref buf Hk Ea Hns). rewrite Hds. rewrite <- Ebt.
      apply array_agree; try assumption. now rewrite Ebt.
    + destruct Hcase as (ds & ps & sg & Hds & Hps & Hsp & Hsd & Hfl & Hsz & Hle & Hns).
      rewrite (denote_native_scalar be f p _ ref buf Hk Ea Hns).
      apply scalar_agree; try assumption.
      exists ds, ps, sg. repeat split; assumption.
Qed.

(* ------------------------------------------------------------ the 32-bit window of time and coordinate fields *)

Lemma size_cases bt ds : b_known bt = Some true -> b_size bt = Some ds -> ds = 1 \/ ds = 2 \/ ds = 4 \/ ds = 8.
Proof.
  intros Hk Hs. pose proof (known_lt_256 bt Hk) as Hlt.
  pose proof (forall_below 256
    (fun b => match b_known b, b_size b with
              | Some true, Some s => (s =? 1) || (s =? 2) || (s =? 4) || (s =? 8)
              | _, _ => true end) ltac:(vm_compute; reflexivity) bt Hlt) as H.
  cbv beta in H. rewrite Hk, Hs in H.
  repeat (apply orb_prop in H; destruct H as [H|H]); apply N.eqb_eq in H; tauto.
Qed.

Lemma time_u32 be bt size buf : b_known bt = Some true -> scalar_facts bt base_uint32 size ->
  List.length buf = N.to_nat size ->
  b_signed bt = Some false /\ get32 be (extend4 be false buf) = wire_unsigned be buf.
Proof.
  intros Hk (ds & ps & sg & Hds & Hps & Hsp & Hsd & Hfl & Hsz & Hle & Hns) Hlen.
  vm_compute in Hps. injection Hps as <-. vm_compute in Hsp. injection Hsp as <-.
  split; [assumption|]. subst size. unfold wire_unsigned.
  destruct (size_cases bt ds Hk Hds) as [ -> | [ -> | [ -> | -> ] ] ]; try (exfalso; lia);
    list_of_len buf Hlen.
  - rewrite extend4_u1, get_val_1. reflexivity.
  - apply extend4_u2.
  - apply extend4_4.
Qed.

Lemma coord_s32 be bt size buf : b_known bt = Some true -> scalar_facts bt base_sint32 size ->
  List.length buf = N.to_nat size -> all_bytes buf = true ->
  b_signed bt = Some true /\ to_signed 32 (get32 be (extend4 be true buf)) = wire_signed be buf.
Proof.
  intros Hk (ds & ps & sg & Hds & Hps & Hsp & Hsd & Hfl & Hsz & Hle & Hns) Hlen Hbytes.
  vm_compute in Hps. injection Hps as <-. vm_compute in Hsp. injection Hsp as <-.
  split; [assumption|]. subst size. unfold wire_signed.
  destruct (size_cases bt ds Hk Hds) as [ -> | [ -> | [ -> | -> ] ] ]; try (exfalso; lia);
    list_of_len buf Hlen; bytes_of Hbytes; cbn [List.length N.of_nat Pos.of_succ_nat Pos.succ].
  - change (8 * 1) with 8. rewrite get_val_1. now apply extend4_s1.
  - change (8 * 2) with 16. now apply extend4_s2.
  - change (8 * 4) with 32. now rewrite extend4_4.
Qed.

Print Assumptions native_field_agree.
