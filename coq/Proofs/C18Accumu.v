(* Tie of the accumulator model to the current accumu.go by translation: Gen/AccumuFuncs.v is accumu.go translated
   on every check (harness/gen_accumu.go: the struct of uint32 fields as a record over N, the constructor as a
   function, the pointer-receiver method as a state transformer, uint32 arithmetic written out mod 2^32).  The lemmas
   below prove that the translated constructor and method compute, for EVERY argument and state, what
   Model/Components.v's new_accum / accumulate compute -- the definitions accumulate_spec, the csd lemmas and the
   stream theorems of C18 (and the history / race witnesses of C08 / C09) are about. *)
From Coq Require Import NArith ZArith Lia ZifyN.
From FitV Require Import Model.Components Gen.AccumuFuncs.
Local Open Scope N_scope.
Ltac Zify.zify_post_hook ::= Z.div_mod_to_equations.

(* the abstraction: the source's field names against the model's *)
Definition acc_abs (s : go_uint32Accumulator) : accum := mk_accum (go_accumuValue s) (go_lastValue s) (go_mask s).

Lemma pow2_pos n : 1 <= 2 ^ n.
Proof. pose proof (N.pow_nonzero 2 n). lia. Qed.

(* (p - 1) mod M = ((p mod M) + M - 1) mod M for p >= 1: the uint32 subtraction after the wrapped shift *)
Lemma sub1_mod p : 1 <= p -> (p - 1) mod 2 ^ 32 = (p mod 2 ^ 32 + 2 ^ 32 - 1) mod 2 ^ 32.
Proof. intros Hp. change (2 ^ 32) with 4294967296. lia. Qed.

Lemma go_new_accumulator_is bits : acc_abs (go_uint32NewAccumulator bits) = new_accum bits.
Proof.
  unfold acc_abs, go_uint32NewAccumulator, new_accum, u32_sub, u32_shl; cbn [go_accumuValue go_lastValue go_mask].
  f_equal. rewrite N.shiftl_1_l. symmetry. apply sub1_mod, pow2_pos.
Qed.

Lemma go_accumulate_is s v :
  (fst (go_uint32Accumulator_accumulate s v), acc_abs (snd (go_uint32Accumulator_accumulate s v))) = accumulate (acc_abs s) v.
Proof.
  unfold go_uint32Accumulator_accumulate, accumulate, acc_abs, u32_add, u32_sub;
  cbn [fst snd go_accumuValue go_lastValue go_mask ac_value ac_last ac_mask].
  first [ reflexivity | repeat f_equal; lia ].
Qed.

(* new(uint32Accumulator): Go's zero value *)
Lemma go_zero_accumulator_is : acc_abs (mk_go_uint32Accumulator 0 0 0) = zero_accum.
Proof. reflexivity. Qed.

(* lifted to any sequence of calls on one accumulator: the results and the final state agree *)
Fixpoint go_run (s : go_uint32Accumulator) (vs : list N) : list N * go_uint32Accumulator :=
  match vs with
  | nil => (nil, s)
  | cons v tl => let '(r, s') := go_uint32Accumulator_accumulate s v in
                 let '(rs, s'') := go_run s' tl in (cons r rs, s'')
  end.
Fixpoint model_run (a : accum) (vs : list N) : list N * accum :=
  match vs with
  | nil => (nil, a)
  | cons v tl => let '(r, a') := accumulate a v in
                 let '(rs, a'') := model_run a' tl in (cons r rs, a'')
  end.

Lemma go_run_is vs : forall s, (fst (go_run s vs), acc_abs (snd (go_run s vs))) = model_run (acc_abs s) vs.
Proof.
  induction vs as [|v tl IH]; intros s; [reflexivity|].
  cbn [go_run model_run].
  pose proof (go_accumulate_is s v) as H.
  destruct (go_uint32Accumulator_accumulate s v) as [r s'] eqn:E. cbn [fst snd] in H.
  destruct (accumulate (acc_abs s) v) as [r' a'] eqn:E'. injection H as Hr Ha. subst r' a'.
  specialize (IH s').
  destruct (go_run s' tl) as [rs s''] eqn:E2. cbn [fst snd] in IH.
  destruct (model_run (acc_abs s') tl) as [rs' a''] eqn:E3. injection IH as Hrs Ha. subst rs' a''.
  reflexivity.
Qed.
