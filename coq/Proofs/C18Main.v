(* C18 on whole streams: the entry point.  What Decode returns for a stream in the domain of C02's decode_denote,
   from ANY accumulator state g: every slot of the container proper holds the denoted messages of its type with
   expand_components applied in stream order, the accumulator state threaded (stored_run); the state Decode leaves
   behind is the threaded one. *)
From Coq Require Import NArith ZArith List Bool String Lia Arith.
From FitV Require Import Proofs.Util Model.Values Model.Bytes Model.Reflect Model.Profile Model.IO Model.Header Model.Components
  Model.Route Model.Decode Spec.FitSyntax Spec.RouteSpec Spec.ComponentSpec Proofs.RouteProofs Proofs.ComponentProofs
  Proofs.C18Defs Proofs.C18Stream Proofs.C18Good Proofs.C18Messages
  Proofs.StreamDenoteDefs Proofs.StreamDenoteLift Proofs.StreamDenoteMain Proofs.StreamDenoteFrame Proofs.StreamDenoteDecode Gen.Consts.
Import ListNotations.
Local Open Scope N_scope.

Theorem stream_expanded : forall o g rd fuel h rs ss1 f2 g1 extra,
  header_wf h -> h_dsize h = N.of_nat (List.length (ser_records rs)) ->
  starts_with_file_id rs = true -> stream_wf rs = true -> denote rs = Some ss1 ->
  start_file h g (hd dummy_msg (ss_msgs ss1)) = Some (f2, g1) ->
  rd_data rd = fit_file h rs ++ extra ->
  (List.length (rd_data rd) + List.length (rd_sched rd) < fuel)%nat ->
  exists rd' file' g' q ft m0 ms sm,
    entry_Decode o g rd fuel = TDone (mk_dres None h (Some file') rd' g' q) /\
    ss_msgs ss1 = m0 :: ms /\ Forall good ms /\
    In ft valid_file_types /\ f_inited file' = Some ft /\
    stored_run ft g ms = Some (sm, g') /\
    forall i name multi held, nth_error (slots_of ft) i = Some (name, multi, held) -> (NCOMMON <= i)%nat ->
      nth i (f_slots file') [] = slot_contents multi held [] sm.
Proof.
  intros o g rd fuel h rs ss1 f2 g1 extra Hh Hsz Hs Hwf Hd Hst Hdata Hfuel.
  destruct (Decode_denote o g rd fuel h rs ss1 f2 g1 extra Hh Hsz Hs Hwf Hd Hst Hdata Hfuel)
    as (rd' & file' & f & g' & q & Hdec & Hroute & Hslots & Hinit & _).
  destruct (ss_msgs ss1) as [|m0 ms] eqn:Em; [discriminate Hroute|].
  destruct (route_msgs_expanded h g m0 ms f g' Hroute) as (ft & sm & Hft & Hi & Hrun & Hcont).
  pose proof (denote_good rs ss1 Hwf Hd) as Hgood. rewrite Em in Hgood. inversion Hgood as [|? ? _ Hgms]; subst.
  exists rd', file', g', q, ft, m0, ms, sm. rewrite Hslots, Hinit. repeat split; try assumption.
Qed.


Lemma good_msgs_ok ms : Forall good ms -> msgs_ok ms.
Proof.
  unfold msgs_ok. apply Forall_impl. intros m Hg. split; [exact (proj1 Hg)|]. intros Hr. now apply good_csd_bytes.
Qed.

(* the record slot of the returned File: the denoted records, expanded in stream order *)
Lemma record_slot ft sm i (slots : list (list msg)) :
  In ft valid_file_types -> find_slot ft c_MesgNumRecord = Some (i, true) -> (NCOMMON <= i)%nat ->
  (forall j name multi held, nth_error (slots_of ft) j = Some (name, multi, held) -> (NCOMMON <= j)%nat ->
     nth j slots [] = slot_contents multi held [] sm) ->
  nth i slots [] = filter is_record sm.
Proof.
  intros Hft Hf Hi Hc. apply (proj1 (find_slot_iff ft c_MesgNumRecord i true Hft)) in Hf. destruct Hf as [name Hn].
  rewrite (Hc i name true c_MesgNumRecord Hn Hi). reflexivity.
Qed.

(* C18_stream_distance: decoding, from a state whose distance accumulator is fresh (g_init in particular), a stream in the
   domain of decode_denote: the Distance fields of the decoded records whose compressed_speed_distance is valid are the
   running sum of rollover-corrected 12-bit deltas since the start of the file; records with an invalid source keep
   the Distance they carried and do not move the accumulator *)
Theorem stream_distance : forall o g rd fuel h rs ss1 f2 g1 extra,
  header_wf h -> h_dsize h = N.of_nat (List.length (ser_records rs)) ->
  starts_with_file_id rs = true -> stream_wf rs = true -> denote rs = Some ss1 ->
  start_file h g (hd dummy_msg (ss_msgs ss1)) = Some (f2, g1) ->
  rd_data rd = fit_file h rs ++ extra ->
  (List.length (rd_data rd) + List.length (rd_sched rd) < fuel)%nat ->
  g_dist g = None ->
  exists rd' file' g' q ft m0 ms,
    entry_Decode o g rd fuel = TDone (mk_dres None h (Some file') rd' g' q) /\
    ss_msgs ss1 = m0 :: ms /\ f_inited file' = Some ft /\
    forall i, find_slot ft c_MesgNumRecord = Some (i, true) -> (NCOMMON <= i)%nat ->
      let recs := nth i (f_slots file') [] in
      let src := filter is_record ms in
      List.length recs = List.length src /\
      pick_valid src (map distance_of recs) = spec_accumulate 12 (map raw_of (filter csd_valid src)) /\
      leave_invalid src (map distance_of recs) = map distance_of (filter (fun m => negb (csd_valid m)) src) /\
      (Forall (fun m => is_record m = true -> csd_valid m = true) ms ->
         map distance_of recs = spec_accumulate 12 (map raw_of src)) /\
      (Forall (fun m => is_record m = true -> csd_valid m = true) ms ->
       Forall (fun m => is_record m = true -> nth 2 (csd_bytes m) 0 < 16) ms ->
         map distance_of recs = spec_accumulate 12 (map spec_raw_of src)).
Proof.
  intros o g rd fuel h rs ss1 f2 g1 extra Hh Hsz Hs Hwf Hd Hst Hdata Hfuel Hg.
  destruct (stream_expanded o g rd fuel h rs ss1 f2 g1 extra Hh Hsz Hs Hwf Hd Hst Hdata Hfuel)
    as (rd' & file' & g' & q & ft & m0 & ms & sm & Hdec & Hm & Hgood & Hft & Hi & Hrun & Hc).
  exists rd', file', g', q, ft, m0, ms. split; [exact Hdec|]. split; [exact Hm|]. split; [exact Hi|].
  intros i Hf Hge recs src. unfold recs, src.
  rewrite (record_slot ft sm i (f_slots file') Hft Hf Hge Hc).
  assert (Hhr : holds_records ft) by (exists i, true; split; assumption).
  pose proof (good_msgs_ok ms Hgood) as Hok.
  destruct (stream_distance_mixed ft g ms sm g' Hhr Hok Hrun) as (Hlen & _ & Hleave).
  split; [exact Hlen|]. split; [exact (stream_distance_fresh_mixed ft g ms sm g' Hhr Hok Hg Hrun)|].
  split; [exact Hleave|]. split.
  - intros Hv. exact (stream_distance_fresh ft g ms sm g' Hhr Hok Hv Hg Hrun).
  - intros Hv Hb. exact (stream_distance_fresh_spec ft g ms sm g' Hhr Hok Hv Hb Hg Hrun).
Qed.

(* from an arbitrary accumulator state: the running sum continues from the state the previous file of the process left *)
Theorem stream_distance_from_state : forall o g rd fuel h rs ss1 f2 g1 extra,
  header_wf h -> h_dsize h = N.of_nat (List.length (ser_records rs)) ->
  starts_with_file_id rs = true -> stream_wf rs = true -> denote rs = Some ss1 ->
  start_file h g (hd dummy_msg (ss_msgs ss1)) = Some (f2, g1) ->
  rd_data rd = fit_file h rs ++ extra ->
  (List.length (rd_data rd) + List.length (rd_sched rd) < fuel)%nat ->
  exists rd' file' g' q ft m0 ms,
    entry_Decode o g rd fuel = TDone (mk_dres None h (Some file') rd' g' q) /\
    ss_msgs ss1 = m0 :: ms /\ f_inited file' = Some ft /\
    forall i, find_slot ft c_MesgNumRecord = Some (i, true) -> (NCOMMON <= i)%nat ->
      pick_valid (filter is_record ms) (map distance_of (nth i (f_slots file') [])) =
        run_accum (dist_acc g) (map raw_of (filter csd_valid (filter is_record ms))) /\
      dist_acc g' = run_accum_state (dist_acc g) (map raw_of (filter csd_valid (filter is_record ms))).
Proof.
  intros o g rd fuel h rs ss1 f2 g1 extra Hh Hsz Hs Hwf Hd Hst Hdata Hfuel.
  destruct (stream_expanded o g rd fuel h rs ss1 f2 g1 extra Hh Hsz Hs Hwf Hd Hst Hdata Hfuel)
    as (rd' & file' & g' & q & ft & m0 & ms & sm & Hdec & Hm & Hgood & Hft & Hi & Hrun & Hc).
  exists rd', file', g', q, ft, m0, ms. split; [exact Hdec|]. split; [exact Hm|]. split; [exact Hi|].
  intros i Hf Hge. rewrite (record_slot ft sm i (f_slots file') Hft Hf Hge Hc).
  assert (Hhr : holds_records ft) by (exists i, true; split; assumption).
  pose proof (good_msgs_ok ms Hgood) as Hok.
  destruct (stream_distance_mixed ft g ms sm g' Hhr Hok Hrun) as (_ & Hp & _).
  split; [exact Hp|exact (stream_final_state ft g ms sm g' Hhr Hok Hrun)].
Qed.

Print Assumptions stream_expanded.
Print Assumptions stream_distance.
Print Assumptions stream_distance_from_state.

(* ------------------------------------------------------------ a concrete file *)
From FitV Require Import Proofs.StreamDenoteWitness.

(* activity file; four records carrying compressed_speed_distance: raw distances 1, 3, (FF FF FF: invalid), 5 *)
Definition csd_stream : list record :=
  [w_fileid_def; w_fileid; RDef 1 false 20 [mk_sfdef 8 3 13] false [];
   RData 1 [0; 16; 0] []; RData 1 [0; 48; 0] []; RData 1 [255; 255; 255] []; RData 1 [0; 80; 0] []].
Definition csd_hdr : header := mk_header 12 16 2215 (N.of_nat (List.length (ser_records csd_stream))) fit_dtype 0.
Definition csd_reader : reader := mk_reader (fit_file csd_hdr csd_stream) [4; 0; 9]%nat TEOF false 0.

Lemma csd_hdr_wf : header_wf csd_hdr.
Proof.
  unfold header_wf, csd_hdr. cbn [h_size h_proto h_profile h_dsize h_dtype h_crc].
  repeat split; try (vm_compute; reflexivity); try (right; reflexivity); intros H; try reflexivity; discriminate H.
Qed.

Definition record_distances (r : tout dres) : option (list N) :=
  match r with
  | TDone d => match dr_file d with
               | Some f => Some (map distance_of (filter is_record (List.concat (f_slots f))))
               | None => None
               end
  | _ => None
  end.
Definition state_after (r : tout dres) : gstate := match r with TDone d => dr_g d | _ => g_init end.

(* the hypotheses of stream_expanded / stream_distance hold for it, and the Distances are the running sum 1, 3, 5 at the
   valid records, the invalid one keeps its invalid Distance *)
Example csd_stream_example :
  header_wf csd_hdr /\ h_dsize csd_hdr = N.of_nat (List.length (ser_records csd_stream)) /\
  starts_with_file_id csd_stream = true /\ stream_wf csd_stream = true /\
  (exists ss f2 g1, denote csd_stream = Some ss /\ start_file csd_hdr g_init (hd dummy_msg (ss_msgs ss)) = Some (f2, g1)) /\
  g_dist g_init = None /\
  record_distances (entry_Decode no_opts g_init csd_reader 200) = Some [1; 3; 4294967295; 5] /\
  spec_accumulate 12 [1; 3; 5] = [1; 3; 5].
Proof.
  split; [exact csd_hdr_wf|]. split; [reflexivity|]. split; [vm_compute; reflexivity|]. split; [vm_compute; reflexivity|].
  split.
  { destruct (denote csd_stream) as [ss|] eqn:E; [|vm_compute in E; discriminate].
    destruct (start_file csd_hdr g_init (hd dummy_msg (ss_msgs ss))) as [[f2 g1]|] eqn:E2.
    - exists ss, f2, g1. split; [reflexivity|exact E2].
    - exfalso. revert E2. vm_compute in E. injection E as <-. vm_compute. discriminate. }
  split; [reflexivity|]. split; vm_compute; reflexivity.
Qed.

(* FULL STATEMENT (refuted): the same from an ARBITRARY accumulator state.  Decoding the same file a second time in the
   process (from the state the first Decode left) continues the running sum: known finding accum_per_process *)
Theorem stream_distance_any_state_refuted :
  exists g, g_dist g <> None /\
    g = state_after (entry_Decode no_opts g_init csd_reader 200) /\
    record_distances (entry_Decode no_opts g csd_reader 200) = Some [4097; 4099; 4294967295; 4101] /\
    record_distances (entry_Decode no_opts g csd_reader 200) <> record_distances (entry_Decode no_opts g_init csd_reader 200).
Proof.
  eexists. split; [|split; [reflexivity|]].
  - vm_compute. discriminate.
  - split; [vm_compute; reflexivity|]. vm_compute. discriminate.
Qed.
