(* Stream-level decode = denote, layer 1: definition records and the dispatch on the record
   header byte. A definition record that the reference semantics accepts (every field
   definition compatible with the profile) is parsed by the decoder without error and fills
   the slot of its local type with exactly the definition that was serialised; the other two
   record kinds are handed to parse_data_message after the header byte. *)
From Coq Require Import NArith ZArith List Bool Lia Arith.
From Coq Require Import ZifyN ZifyNat ZifyBool.
From FitV Require Import Proofs.Util Model.Values Model.Bytes Model.Base Model.Profile Model.Reflect Model.IO
  Model.Route Model.Decode Spec.FitSyntax Gen.Consts Gen.BaseTables.
From FitV Require Import Proofs.StreamDenoteBase Proofs.StreamDenoteDefs.
Import ListNotations.
Local Open Scope N_scope.
Ltac Zify.zify_post_hook ::= Z.div_mod_to_equations.

(* ------------------------------------------------------------ base-type table facts *)

Lemma known_lt_256 bt : b_known bt = Some true -> bt < 256.
Proof.
  intros Hk. destruct (N.lt_ge_cases bt 256) as [Hlt|Hge]; [exact Hlt|].
  unfold b_known, tbl in Hk. rewrite nth_overflow in Hk; [discriminate|].
  change (List.length base_known) with 256%nat. lia.
Qed.

Lemma known_size_pos bt ds : b_known bt = Some true -> b_size bt = Some ds -> ds <> 0.
Proof.
  intros Hk Hs.
  pose proof (forall_below 256
    (fun b => match b_known b, b_size b with Some true, Some 0 => false | _, _ => true end)
    ltac:(vm_compute; reflexivity) bt (known_lt_256 bt Hk)) as Hc.
  cbv beta in Hc. rewrite Hk, Hs in Hc. destruct ds; [discriminate Hc|discriminate].
Qed.

(* ------------------------------------------------------------ 1. compat implies validation *)

Lemma compat_validates : forall gmn f, compat gmn f = true -> validate_field_def gmn (to_fdef f) = VOk.
Proof.
  intros gmn f. unfold compat, validate_field_def, to_fdef. cbn [fd_btype fd_num fd_size].
  set (bt := sf_btype f). set (sz := sf_size f).
  destruct (b_known bt) as [[|]|] eqn:Hk; try (intros Hc; discriminate Hc).
  destruct (b_size bt) as [ds|] eqn:Hs; try (intros Hc; discriminate Hc).
  pose proof (known_size_pos bt ds Hk Hs) as Hds.
  destruct (if known_msg gmn then get_field gmn (sf_num f) else None) as [p|].
  - set (pb := fit_base (pf_t p)).
    destruct (N.eqb_spec pb base_string) as [Hpbs|Hpbs].
    + intros Hc. rewrite Hc. apply N.eqb_eq in Hc. rewrite Hpbs, Hc, N.eqb_refl. reflexivity.
    + destruct (fit_array (pf_t p)).
      * intros Hc. apply andb_true_iff in Hc. destruct Hc as [Hc Hmod].
        apply andb_true_iff in Hc. destruct Hc as [Hbp Hle].
        apply N.eqb_eq in Hbp. apply N.leb_le in Hle.
        rewrite (proj2 (N.eqb_neq bt base_string)) by (rewrite Hbp; exact Hpbs).
        rewrite (proj2 (N.ltb_ge sz ds) Hle). cbn [negb].
        rewrite (proj2 (N.eqb_neq ds 0) Hds). rewrite Hmod. cbn [negb].
        rewrite (proj2 (N.eqb_eq bt pb) Hbp). reflexivity.
      * cbn [negb].
        destruct (b_size pb) as [ps|]; [|intros Hc; discriminate Hc].
        destruct (b_signed pb) as [sp|]; [|intros Hc; discriminate Hc].
        destruct (b_signed bt) as [sd|]; [|intros Hc; discriminate Hc].
        destruct (b_float pb) as [[|]|]; try (intros Hc; discriminate Hc).
        destruct (b_float bt) as [[|]|]; try (intros Hc; discriminate Hc).
        intros Hc. apply andb_true_iff in Hc. destruct Hc as [Hc Hns].
        apply andb_true_iff in Hc. destruct Hc as [Hc Hsg].
        apply andb_true_iff in Hc. destruct Hc as [Hsz Hle].
        apply N.eqb_eq in Hsz. apply N.leb_le in Hle. apply negb_true_iff in Hns.
        rewrite Hns.
        rewrite (proj2 (N.ltb_ge sz ds)) by lia.
        rewrite (proj2 (N.ltb_ge ps sz)) by lia.
        rewrite Hsg. cbn [negb andb].
        destruct (negb (bt =? pb)); reflexivity.
  - intros Hc. destruct (N.eqb_spec bt base_string) as [Hbs|Hbs]; [reflexivity|].
    cbn [orb] in Hc. apply andb_true_iff in Hc. destruct Hc as [H1 Hmod].
    apply N.leb_le in H1. apply N.eqb_eq in Hmod.
    assert (Hle : ds <= sz).
    { apply N.mod_divides in Hmod; [|exact Hds]. destruct Hmod as [c Hc0]. destruct c as [|c]; [lia|nia]. }
    rewrite (proj2 (N.ltb_ge sz ds) Hle). reflexivity.
Qed.

Lemma compat_validates_all : forall gmn fds,
  forallb (compat gmn) fds = true -> validate_all gmn (map to_fdef fds) = VOk.
Proof.
  intros gmn fds. induction fds as [|f r IH]; intros Hc; [reflexivity|].
  cbn [forallb] in Hc. apply andb_true_iff in Hc. destruct Hc as [Hf Hr].
  cbn [map validate_all]. rewrite (compat_validates gmn f Hf). exact (IH Hr).
Qed.

(* ------------------------------------------------------------ 2. triples *)

Definition ser_dev (d : N * N * N) : list N := let '(a, b, c) := d in [a; b; c].

Lemma chunk3_ser : forall fds,
  map (fun t => match t with (a, b, c) => mk_fdef a b c end) (chunk3 (flat_map ser_fdef fds)) = map to_fdef fds.
Proof.
  induction fds as [|f r IH]; [reflexivity|].
  cbn [flat_map ser_fdef app chunk3 map]. rewrite IH. reflexivity.
Qed.

Lemma ser_fdefs_length : forall fds, List.length (flat_map ser_fdef fds) = (3 * List.length fds)%nat.
Proof.
  induction fds as [|f r IH]; [reflexivity|].
  cbn [flat_map ser_fdef app List.length]. rewrite IH. lia.
Qed.

Lemma chunk3_devs : forall devs : list (N * N * N),
  chunk3 (flat_map (fun d => let '(a, b, c) := d in [a; b; c]) devs) = devs.
Proof.
  induction devs as [|[[a b] c] r IH]; [reflexivity|].
  cbn [flat_map app chunk3]. rewrite IH. reflexivity.
Qed.

Lemma ser_devs_length : forall devs : list (N * N * N),
  List.length (flat_map (fun d => let '(a, b, c) := d in [a; b; c]) devs) = (3 * List.length devs)%nat.
Proof.
  induction devs as [|[[a b] c] r IH]; [reflexivity|].
  cbn [flat_map app List.length]. rewrite IH. lia.
Qed.

(* ------------------------------------------------------------ 3. two-byte integers *)

Lemma get16_put16 : forall be g, g < 65536 -> get16 be (put16 be g) = g.
Proof.
  intros be g Hg. destruct be; unfold get16, put16, be16, le16, put_be16, put_le16, b_at; cbn [nth]; lia.
Qed.

Lemma put16_length be g : List.length (put16 be g) = 2%nat.
Proof. destruct be; reflexivity. Qed.

(* ------------------------------------------------------------ 4. header bytes *)

Definition def_header (l : N) (devflag : bool) : N := 0x40 + (if devflag then 0x20 else 0) + l.
Definition comp_header (l off : N) : N := 0x80 + 32 * l + off.

Lemma def_header_facts : forall l devflag, l < 16 ->
  N.land (def_header l devflag) c_compressedHeaderMask = 0 /\
  N.land (def_header l devflag) c_mesgDefinitionMask = c_mesgDefinitionMask /\
  N.land (def_header l devflag) c_localMesgNumMask = l /\
  (N.land (def_header l devflag) c_devDataMask =? c_devDataMask) = devflag.
Proof.
  intros l devflag Hl.
  pose proof (forall_below 16
    (fun l => forallb (fun d =>
       (N.land (def_header l d) c_compressedHeaderMask =? 0) &&
       (N.land (def_header l d) c_mesgDefinitionMask =? c_mesgDefinitionMask) &&
       (N.land (def_header l d) c_localMesgNumMask =? l) &&
       Bool.eqb (N.land (def_header l d) c_devDataMask =? c_devDataMask) d) [true; false])
    ltac:(vm_compute; reflexivity) l Hl) as Hc.
  cbv beta in Hc. rewrite forallb_forall in Hc.
  specialize (Hc devflag ltac:(destruct devflag; cbn [In]; tauto)).
  apply andb_true_iff in Hc. destruct Hc as [Hc H4].
  apply andb_true_iff in Hc. destruct Hc as [Hc H3].
  apply andb_true_iff in Hc. destruct Hc as [H1 H2].
  apply N.eqb_eq in H1, H2, H3. apply eqb_prop in H4. auto.
Qed.

Lemma data_header_facts : forall l, l < 16 ->
  N.land l c_compressedHeaderMask = 0 /\ N.land l c_mesgDefinitionMask = c_mesgHeaderMask /\
  N.land l c_localMesgNumMask = l.
Proof.
  intros l Hl.
  pose proof (forall_below 16
    (fun l => (N.land l c_compressedHeaderMask =? 0) && (N.land l c_mesgDefinitionMask =? c_mesgHeaderMask) &&
              (N.land l c_localMesgNumMask =? l))
    ltac:(vm_compute; reflexivity) l Hl) as Hc.
  cbv beta in Hc.
  apply andb_true_iff in Hc. destruct Hc as [Hc H3].
  apply andb_true_iff in Hc. destruct Hc as [H1 H2].
  apply N.eqb_eq in H1, H2, H3. auto.
Qed.

Lemma comp_header_facts : forall l off, l < 4 -> off < 32 ->
  N.land (comp_header l off) c_compressedHeaderMask = c_compressedHeaderMask /\
  N.shiftr (N.land (comp_header l off) c_compressedLocalMesgNumMask) 5 = l /\
  N.land (comp_header l off) c_compressedTimeMask = off.
Proof.
  intros l off Hl Ho.
  assert (Hb : comp_header l off < 256) by (unfold comp_header; lia).
  pose proof (forall_below 256
    (fun b => if b <? 128 then true else
       (N.land b c_compressedHeaderMask =? c_compressedHeaderMask) &&
       (N.shiftr (N.land b c_compressedLocalMesgNumMask) 5 =? (b - 128) / 32) &&
       (N.land b c_compressedTimeMask =? b mod 32))
    ltac:(vm_compute; reflexivity) _ Hb) as Hc.
  cbv beta in Hc.
  rewrite (proj2 (N.ltb_ge (comp_header l off) 128)) in Hc by (unfold comp_header; lia).
  apply andb_true_iff in Hc. destruct Hc as [Hc H3].
  apply andb_true_iff in Hc. destruct Hc as [H1 H2].
  apply N.eqb_eq in H1, H2, H3.
  split; [exact H1|]. split.
  - rewrite H2. unfold comp_header. lia.
  - rewrite H3. unfold comp_header. lia.
Qed.

Lemma comp_header_local : forall l off, l < 4 -> off < 32 ->
  N.shiftr (N.land (0x80 + 32 * l + off) c_compressedLocalMesgNumMask) 5 = l.
Proof. intros l off Hl Ho. exact (proj1 (proj2 (comp_header_facts l off Hl Ho))). Qed.

Lemma comp_header_offset : forall l off, l < 4 -> off < 32 ->
  N.land (0x80 + 32 * l + off) c_compressedTimeMask = off.
Proof. intros l off Hl Ho. exact (proj2 (proj2 (comp_header_facts l off Hl Ho))). Qed.

(* ------------------------------------------------------------ stepping sequenced reads *)

Lemma step_read_byte {A} (f : N -> P A) b l tl t n lim s : (n + 1 <= lim)%nat ->
  run_a (bind read_byte f) (ast_at (b :: l) tl t n lim) s = run_a (f b) (ast_at l tl t (n + 1) lim) s.
Proof.
  intros H. unfold read_byte. cbn [bind]. rewrite run_read_byte by exact H. reflexivity.
Qed.

Lemma step_read_full {A} (f : list N -> P A) m l1 l2 tl t n lim s : List.length l1 = m -> (n + m <= lim)%nat ->
  run_a (bind (read_full m) f) (ast_at (l1 ++ l2) tl t n lim) s = run_a (f l1) (ast_at l2 tl t (n + m) lim) s.
Proof.
  intros Hm H. unfold read_full. cbn [bind]. rewrite (run_read_full _ m l1 l2) by assumption. reflexivity.
Qed.

Lemma bind_ret {S E A B} (a : A) (f : A -> prog S E B) : bind (Ret a) f = f a.
Proof. reflexivity. Qed.

Lemma arch_dispatch (be : bool) :
  (if (if be then 1 else 0) =? c_littleEndian then Ret false
   else if (if be then 1 else 0) =? c_bigEndian then Ret true
   else fail EArch) = (Ret be : P bool).
Proof. destruct be; reflexivity. Qed.

(* ------------------------------------------------------------ 5. the definition record *)

(* the bytes of a definition record after its header byte *)
Definition def_body (be : bool) (gmn : N) (fds : list sfdef) (devflag : bool) (devs : list (N * N * N)) : list N :=
  0 :: (if be then 1 else 0) :: put16 be gmn ++
  N.of_nat (List.length fds) :: flat_map ser_fdef fds ++
  (if devflag then N.of_nat (List.length devs) :: flat_map (fun d => let '(a, b, c) := d in [a; b; c]) devs else []).

Lemma ser_record_def l be gmn fds devflag devs :
  ser_record (RDef l be gmn fds devflag devs) = def_header l devflag :: def_body be gmn fds devflag devs.
Proof. reflexivity. Qed.

Lemma def_body_length be gmn fds devflag devs :
  List.length (def_body be gmn fds devflag devs) =
  (5 + 3 * List.length fds + (if devflag then 1 + 3 * List.length devs else 0))%nat.
Proof.
  unfold def_body. cbn [List.length]. rewrite app_length, put16_length. cbn [List.length].
  rewrite app_length, ser_fdefs_length. destruct devflag; cbn [List.length]; [rewrite ser_devs_length|]; lia.
Qed.

Lemma parse_definition_message_ok : forall hb l be gmn fds devflag devs tl t n lim (s : dstate),
  N.land hb c_localMesgNumMask = l ->
  (N.land hb c_devDataMask =? c_devDataMask) = devflag ->
  gmn < 65536 -> gmn <> c_MesgNumInvalid -> forallb (compat gmn) fds = true ->
  (n + List.length (def_body be gmn fds devflag devs) <= lim)%nat ->
  run_a (parse_definition_message hb) (ast_at (def_body be gmn fds devflag devs) tl t n lim) s =
  ROk (mk_defmsg l be gmn (map to_fdef fds) (if devflag then devs else []))
      (ast_at [] tl t (n + List.length (def_body be gmn fds devflag devs)) lim) s.
Proof.
  intros hb l be gmn fds devflag devs tl t n lim s Hl Hdev Hg Hinv Hc Hlen.
  rewrite def_body_length in *.
  unfold parse_definition_message, def_body. rewrite Hl, Hdev.
  rewrite step_read_byte by lia.
  rewrite step_read_byte by lia.
  rewrite arch_dispatch, bind_ret.
  rewrite (step_read_full _ 2 (put16 be gmn)); [|apply put16_length|lia].
  cbv zeta. rewrite (get16_put16 be gmn Hg). rewrite (proj2 (N.eqb_neq gmn c_MesgNumInvalid) Hinv).
  rewrite step_read_byte by lia.
  rewrite Nnat.Nat2N.id.
  rewrite (step_read_full _ (3 * List.length fds) (flat_map ser_fdef fds)); [|apply ser_fdefs_length|lia].
  rewrite chunk3_ser, (compat_validates_all gmn fds Hc).
  destruct devflag.
  - rewrite step_read_byte by lia.
    rewrite Nnat.Nat2N.id.
    rewrite <- (app_nil_r (flat_map (fun d : N * N * N => let '(a, b, c) := d in [a; b; c]) devs)).
    rewrite (step_read_full _ (3 * List.length devs) _ []); [|apply ser_devs_length|lia].
    rewrite chunk3_devs. cbn [run_a]. f_equal. f_equal. lia.
  - cbn [run_a]. f_equal. f_equal. lia.
Qed.

Lemma parse_def_ok : forall (o : dopts) l be gmn fds devflag devs tl t n lim (s : dstate),
  l < 16 -> gmn < 65536 -> gmn <> c_MesgNumInvalid -> forallb (compat gmn) fds = true ->
  (n + List.length (ser_record (RDef l be gmn fds devflag devs)) <= lim)%nat ->
  run_a (parse_record o) (ast_at (ser_record (RDef l be gmn fds devflag devs)) tl t n lim) s =
  ROk tt (ast_at [] tl t (n + List.length (ser_record (RDef l be gmn fds devflag devs))) lim)
    (with_defs s (set_nth (N.to_nat l)
       (Some (mk_defmsg l be gmn (map to_fdef fds) (if devflag then devs else []))) (ds_defs s))).
Proof.
  intros o l be gmn fds devflag devs tl t n lim s Hl Hg Hinv Hc Hlen.
  rewrite ser_record_def in *. cbn [List.length] in *.
  destruct (def_header_facts l devflag Hl) as [H1 [H2 [H3 H4]]].
  unfold parse_record.
  rewrite step_read_byte by lia.
  rewrite H1, H2. change (0 =? c_compressedHeaderMask) with false.
  rewrite N.eqb_refl. cbv iota.
  rewrite run_bind.
  rewrite (parse_definition_message_ok _ l be gmn fds devflag devs tl t (n + 1) lim s H3 H4 Hg Hinv Hc) by lia.
  cbn [rbind]. unfold set_def, get_st, put_st. cbn [bind run_a dm_local].
  f_equal. f_equal. lia.
Qed.

(* the same with the header byte of the serialised record (the form the file_id prologue uses) *)
Lemma parse_definition_message_ser : forall l be gmn fds devflag devs tl t n lim (s : dstate),
  l < 16 -> gmn < 65536 -> gmn <> c_MesgNumInvalid -> forallb (compat gmn) fds = true ->
  (n + List.length (def_body be gmn fds devflag devs) <= lim)%nat ->
  run_a (parse_definition_message (def_header l devflag)) (ast_at (def_body be gmn fds devflag devs) tl t n lim) s =
  ROk (mk_defmsg l be gmn (map to_fdef fds) (if devflag then devs else []))
      (ast_at [] tl t (n + List.length (def_body be gmn fds devflag devs)) lim) s.
Proof.
  intros l be gmn fds devflag devs tl t n lim s Hl Hg Hinv Hc Hlen.
  destruct (def_header_facts l devflag Hl) as [H1 [H2 [H3 H4]]].
  apply parse_definition_message_ok; assumption.
Qed.

(* ------------------------------------------------------------ 6. the other two record kinds *)

Lemma dispatch_data : forall (o : dopts) l body tl t n lim (s : dstate), l < 16 -> (n + 1 <= lim)%nat ->
  run_a (parse_record o) (ast_at (l :: body) tl t n lim) s =
  run_a (bind (parse_data_message o l false) (fun om => match om with Some m => add_msg m | None => Ret tt end))
        (ast_at body tl t (n + 1) lim) s.
Proof.
  intros o l body tl t n lim s Hl Hlen.
  destruct (data_header_facts l Hl) as [H1 [H2 H3]].
  unfold parse_record. rewrite step_read_byte by exact Hlen.
  rewrite H1, H2. reflexivity.
Qed.

Lemma dispatch_comp : forall (o : dopts) l off body tl t n lim (s : dstate), l < 4 -> off < 32 -> (n + 1 <= lim)%nat ->
  run_a (parse_record o) (ast_at ((0x80 + 32 * l + off) :: body) tl t n lim) s =
  run_a (bind (parse_data_message o (0x80 + 32 * l + off) true)
          (fun om => match om with Some m => add_msg m | None => Ret tt end))
        (ast_at body tl t (n + 1) lim) s.
Proof.
  intros o l off body tl t n lim s Hl Ho Hlen.
  destruct (comp_header_facts l off Hl Ho) as [H1 _]. unfold comp_header in H1.
  unfold parse_record. rewrite step_read_byte by exact Hlen.
  rewrite H1. reflexivity.
Qed.

(* a data record header selects its own local type *)
Lemma data_header_local : forall l, l < 16 -> N.land l c_localMesgNumMask = l.
Proof. intros l Hl. exact (proj2 (proj2 (data_header_facts l Hl))). Qed.

Print Assumptions parse_def_ok.
Print Assumptions compat_validates.
Print Assumptions parse_definition_message_ok.
Print Assumptions dispatch_data.
Print Assumptions dispatch_comp.
