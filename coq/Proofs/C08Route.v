(* C08/C09: what a component expansion and File.add can see of the
   package-level accumulators.  Two runs from accumulator states g1 and g2 are
   compared; the clauses that matter:
   - the outcome class never depends on the accumulators;
   - only record messages can come out different;
   - while the first run has not created the distance accumulator, the
     messages are equal and the second run has not touched its own;
   - while the first run has created no accumulator at all, the second run's
     accumulators are exactly what they were. *)
From Coq Require Import NArith ZArith List Bool String Lia.
From FitV Require Import Model.Values Model.Reflect Model.Profile Model.Header Model.Components Model.Route
  Model.Shared Gen.Consts Gen.RoutingData Proofs.RouteProofs.
Import ListNotations.
Local Open Scope N_scope.
Local Opaque fld set_fld widen16.

Lemma accumulate_mask0 a v : ac_mask a = 0 -> ac_value a = 0 -> accumulate a v = (0, mk_accum 0 v 0).
Proof.
  destruct a as [val last mask]; simpl; intros -> ->. unfold accumulate; simpl ac_mask; simpl ac_value; simpl ac_last.
  rewrite N.land_0_r. reflexivity.
Qed.

Lemma get_acc0 o : acc0 o -> ac_mask (get_acc o zero_accum) = 0 /\ ac_value (get_acc o zero_accum) = 0.
Proof. destruct o; simpl; intro H; [apply H; reflexivity|split; reflexivity]. Qed.

Lemma acc0_fresh v : acc0 (Some (mk_accum 0 v 0)).
Proof. intros a [= <-]. split; reflexivity. Qed.

Lemma expand_cycles_wf g m : gwf g ->
  expand_cycles g m =
  if uval (fld m "Cycles") =? 0xFF then (m, g)
  else (set_fld m "TotalCycles" (VU 0),
        mk_gstate (g_dist g) (Some (mk_accum 0 (N.land (uval (fld m "Cycles")) 0xFF) 0)) (g_power g)).
Proof.
  intros [Hc _]. unfold expand_cycles. destruct (_ =? 0xFF); [reflexivity|].
  destruct (get_acc0 _ Hc) as [Hm Hv]. rewrite (accumulate_mask0 _ _ Hm Hv). reflexivity.
Qed.

Lemma expand_power_wf g m : gwf g ->
  expand_power g m =
  if uval (fld m "CompressedAccumulatedPower") =? 0xFFFF then (m, g)
  else (set_fld m "AccumulatedPower" (VU 0),
        mk_gstate (g_dist g) (g_cycles g) (Some (mk_accum 0 (N.land (uval (fld m "CompressedAccumulatedPower")) 0xFFFF) 0))).
Proof.
  intros [_ Hp]. unfold expand_power. destruct (_ =? 0xFFFF); [reflexivity|].
  destruct (get_acc0 _ Hp) as [Hm Hv]. rewrite (accumulate_mask0 _ _ Hm Hv). reflexivity.
Qed.

(* does the compressed_speed_distance expansion fire: a function of the message alone *)
Definition csd_fires (m : msg) : bool :=
  let csd := match fld m "CompressedSpeedDistance" with VList l => map uval l | _ => [] end in
  (Nat.eqb (List.length csd) 3) && existsb (fun v => negb (v =? 0xFF)) csd.

Lemma csd_idle m : csd_fires m = false -> forall g, expand_csd g m = (m, g).
Proof. unfold csd_fires, expand_csd. intros -> g. reflexivity. Qed.

Lemma csd_creates m : csd_fires m = true -> forall g, g_dist (snd (expand_csd g m)) <> None /\
  g_cycles (snd (expand_csd g m)) = g_cycles g /\ g_power (snd (expand_csd g m)) = g_power g.
Proof. unfold csd_fires, expand_csd. intros -> g. simpl. split; [discriminate|split; reflexivity]. Qed.

(* one expansion compared between two accumulator states *)
Definition exp_rel (g1 g2 : gstate) (r1 r2 : msg * gstate) : Prop :=
  gwf (snd r1) /\ gwf (snd r2) /\
  (g_dist (snd r1) = None -> g_dist g1 = None /\ fst r1 = fst r2 /\ g_dist (snd r2) = g_dist g2) /\
  (snd r1 = g_init -> g1 = g_init /\ fst r1 = fst r2 /\ snd r2 = g2).

Lemma exp_rel_same g1 g2 m : gwf g1 -> gwf g2 -> exp_rel g1 g2 (m, g1) (m, g2).
Proof. intros W1 W2. unfold exp_rel; simpl. intuition. Qed.

Lemma gwf_mk d c p : acc0 c -> acc0 p -> gwf (mk_gstate d c p).
Proof. split; assumption. Qed.
Lemma gwf_c g : gwf g -> acc0 (g_cycles g). Proof. intros [A _]; exact A. Qed.
Lemma gwf_p g : gwf g -> acc0 (g_power g). Proof. intros [_ B]; exact B. Qed.

(* the two stages after compressed_speed_distance: total_cycles, accumulated_power *)
Definition tail (g : gstate) (m : msg) : msg * gstate :=
  expand_power (snd (expand_cycles g m)) (fst (expand_cycles g m)).

Lemma tail_eq g m : gwf g ->
  tail g m =
  if uval (fld m "Cycles") =? 0xFF then
    if uval (fld m "CompressedAccumulatedPower") =? 0xFFFF then (m, g)
    else (set_fld m "AccumulatedPower" (VU 0),
          mk_gstate (g_dist g) (g_cycles g) (Some (mk_accum 0 (N.land (uval (fld m "CompressedAccumulatedPower")) 0xFFFF) 0)))
  else
    let m' := set_fld m "TotalCycles" (VU 0) in
    let c := Some (mk_accum 0 (N.land (uval (fld m "Cycles")) 0xFF) 0) in
    if uval (fld m' "CompressedAccumulatedPower") =? 0xFFFF then (m', mk_gstate (g_dist g) c (g_power g))
    else (set_fld m' "AccumulatedPower" (VU 0),
          mk_gstate (g_dist g) c (Some (mk_accum 0 (N.land (uval (fld m' "CompressedAccumulatedPower")) 0xFFFF) 0))).
Proof.
  intro W. unfold tail. rewrite (expand_cycles_wf g m W).
  destruct (uval (fld m "Cycles") =? 255).
  - cbn [fst snd]. apply expand_power_wf. exact W.
  - cbn [fst snd]. cbv zeta. rewrite expand_power_wf.
    + reflexivity.
    + apply gwf_mk; [apply acc0_fresh|apply gwf_p; exact W].
Qed.

Lemma tail_wf g m : gwf g -> gwf (snd (tail g m)) /\ g_dist (snd (tail g m)) = g_dist g.
Proof.
  intro W. rewrite (tail_eq g m W). cbv zeta.
  destruct (uval (fld m "Cycles") =? 255).
  - destruct (_ =? 65535); cbn [snd g_dist].
    + split; [exact W|reflexivity].
    + split; [apply gwf_mk; [apply gwf_c; exact W|apply acc0_fresh]|reflexivity].
  - destruct (_ =? 65535); cbn [snd g_dist].
    + split; [apply gwf_mk; [apply acc0_fresh|apply gwf_p; exact W]|reflexivity].
    + split; [apply gwf_mk; apply acc0_fresh|reflexivity].
Qed.

Lemma tail_same g1 g2 m : gwf g1 -> gwf g2 ->
  fst (tail g1 m) = fst (tail g2 m) /\ (snd (tail g1 m) = g_init -> g1 = g_init /\ snd (tail g2 m) = g2).
Proof.
  intros W1 W2. rewrite (tail_eq g1 m W1), (tail_eq g2 m W2). cbv zeta.
  destruct (uval (fld m "Cycles") =? 255).
  - destruct (_ =? 65535); cbn [fst snd].
    + split; [reflexivity|]. intro H; split; [exact H|reflexivity].
    + split; [reflexivity|]. unfold g_init; intro H; discriminate H.
  - destruct (_ =? 65535); cbn [fst snd].
    + split; [reflexivity|]. unfold g_init; intro H; discriminate H.
    + split; [reflexivity|]. unfold g_init; intro H; discriminate H.
Qed.

Lemma csd_cases m :
  (forall g, expand_csd g m = (m, g)) \/
  (forall g, g_dist (snd (expand_csd g m)) <> None /\
             g_cycles (snd (expand_csd g m)) = g_cycles g /\ g_power (snd (expand_csd g m)) = g_power g).
Proof.
  destruct (csd_fires m) eqn:F; [right; apply csd_creates; exact F|left; apply csd_idle; exact F].
Qed.

Lemma expand_record_tail g m :
  expand_record g m =
  let m0 := widen16 (widen16 m "Altitude" "EnhancedAltitude") "Speed" "EnhancedSpeed" in
  tail (snd (expand_csd g m0)) (fst (expand_csd g m0)).
Proof. reflexivity. Qed.

Lemma record_tail_rel g1 g2 (r1 r2 : msg * gstate) m0 :
  gwf g1 -> gwf g2 ->
  ((r1 = (m0, g1) /\ r2 = (m0, g2)) \/
   (g_dist (snd r1) <> None /\ g_cycles (snd r1) = g_cycles g1 /\ g_power (snd r1) = g_power g1 /\
    g_dist (snd r2) <> None /\ g_cycles (snd r2) = g_cycles g2 /\ g_power (snd r2) = g_power g2)) ->
  exp_rel g1 g2 (tail (snd r1) (fst r1)) (tail (snd r2) (fst r2)).
Proof.
  intros W1 W2 [[-> ->]|(D1 & C1 & P1 & D2 & C2 & P2)].
  - cbn [fst snd]. destruct (tail_wf g1 m0 W1) as [Wa Da]. destruct (tail_wf g2 m0 W2) as [Wb Db].
    destruct (tail_same g1 g2 m0 W1 W2) as [E I].
    unfold exp_rel. split; [exact Wa|]. split; [exact Wb|]. split.
    + intro H. rewrite Da in H. split; [exact H|]. split; [exact E|exact Db].
    + intro H. destruct (I H) as [I1 I2]. split; [exact I1|]. split; [exact E|exact I2].
  - destruct r1 as [ma ga], r2 as [mb gb]. cbn [fst snd] in *.
    assert (Wga : gwf ga). { split; [rewrite C1; apply gwf_c; exact W1|rewrite P1; apply gwf_p; exact W1]. }
    assert (Wgb : gwf gb). { split; [rewrite C2; apply gwf_c; exact W2|rewrite P2; apply gwf_p; exact W2]. }
    destruct (tail_wf ga ma Wga) as [Wa Da]. destruct (tail_wf gb mb Wgb) as [Wb Db].
    unfold exp_rel. split; [exact Wa|]. split; [exact Wb|]. split.
    + intro H. rewrite Da in H. contradiction.
    + intro H. exfalso. apply D1. rewrite <- Da. rewrite H. reflexivity.
Qed.

Lemma expand_record_rel g1 g2 m : gwf g1 -> gwf g2 -> exp_rel g1 g2 (expand_record g1 m) (expand_record g2 m).
Proof.
  intros W1 W2. rewrite !expand_record_tail. cbv zeta.
  apply (record_tail_rel g1 g2 _ _ (widen16 (widen16 m "Altitude" "EnhancedAltitude") "Speed" "EnhancedSpeed")); [exact W1|exact W2|].
  destruct (csd_cases (widen16 (widen16 m "Altitude" "EnhancedAltitude") "Speed" "EnhancedSpeed")) as [H|H].
  - left. split; apply H.
  - right. destruct (H g1) as (A & B & C). destruct (H g2) as (D & E & F). auto 10.
Qed.

Definition oexp_rel (g1 g2 : gstate) (o1 o2 : option (msg * gstate)) : Prop :=
  match o1, o2 with
  | Some r1, Some r2 => msg_sim (fst r1) (fst r2) /\ exp_rel g1 g2 r1 r2
  | None, None => True
  | _, _ => False
  end.

Lemma expand_components_rel g1 g2 m : gwf g1 -> gwf g2 ->
  oexp_rel g1 g2 (expand_components g1 m) (expand_components g2 m).
Proof.
  intros W1 W2. unfold expand_components.
  destruct (_ || _). { simpl. split; [left; reflexivity|apply exp_rel_same; assumption]. }
  destruct (m_num m =? c_MesgNumRecord) eqn:E.
  { simpl. apply N.eqb_eq in E. split.
    - right. rewrite !expand_record_num. auto.
    - apply expand_record_rel; assumption. }
  destruct (m_num m =? c_MesgNumEvent). { simpl. split; [left; reflexivity|apply exp_rel_same; assumption]. }
  destruct (m_num m =? c_MesgNumSegmentLap). { simpl. split; [left; reflexivity|apply exp_rel_same; assumption]. }
  destruct (m_num m =? c_MesgNumSegmentPoint). { simpl. split; [left; reflexivity|apply exp_rel_same; assumption]. }
  exact I.
Qed.

(* ---------------------------------------------------------------- slots *)
Definition slots_sim := Forall2 (Forall2 msg_sim).

Lemma msg_sim_refl m : msg_sim m m. Proof. left; reflexivity. Qed.
Lemma F2_refl {A} (P : A -> A -> Prop) : (forall x, P x x) -> forall l, Forall2 P l l.
Proof. intros H l; induction l; constructor; auto. Qed.
Lemma slots_sim_refl s : slots_sim s s.
Proof. apply F2_refl. intro. apply F2_refl. exact msg_sim_refl. Qed.

Lemma F2_set_nth {A} (P : A -> A -> Prop) : forall i x y l1 l2, Forall2 P l1 l2 -> P x y ->
  Forall2 P (set_nth i x l1) (set_nth i y l2).
Proof.
  intros i x y l1 l2 H. revert i. induction H; intros i Hxy.
  - destruct i; constructor.
  - destruct i; simpl; constructor; auto.
Qed.

Lemma F2_nth {A} (Q : A -> A -> Prop) : forall i l1 l2, Forall2 (Forall2 Q) l1 l2 ->
  Forall2 Q (nth i l1 []) (nth i l2 []).
Proof.
  intros i l1 l2 H. revert i. induction H; intros i; destruct i; simpl; auto.
Qed.

Lemma F2_firstn {A} (P : A -> A -> Prop) : forall n l1 l2, Forall2 P l1 l2 -> Forall2 P (firstn n l1) (firstn n l2).
Proof. intros n l1 l2 H. revert n. induction H; intros n; destruct n; simpl; constructor; auto. Qed.

Definition ar_rel (g1 g2 : gstate) (sl1 sl2 : list (list msg)) (o1 o2 : option (list (list msg) * gstate)) : Prop :=
  match o1, o2 with
  | Some r1, Some r2 =>
      slots_sim (fst r1) (fst r2) /\ gwf (snd r1) /\ gwf (snd r2) /\
      (g_dist (snd r1) = None -> g_dist g1 = None /\ (sl1 = sl2 -> fst r1 = fst r2) /\ g_dist (snd r2) = g_dist g2) /\
      (snd r1 = g_init -> g1 = g_init /\ (sl1 = sl2 -> fst r1 = fst r2) /\ snd r2 = g2)
  | None, None => True
  | _, _ => False
  end.

Lemma apply_routes_rel m : forall rs sl1 sl2 g1 g2, slots_sim sl1 sl2 -> gwf g1 -> gwf g2 ->
  ar_rel g1 g2 sl1 sl2 (apply_routes rs m sl1 g1) (apply_routes rs m sl2 g2).
Proof.
  induction rs as [|[[i mode] ex] rest IH]; intros sl1 sl2 g1 g2 HS W1 W2.
  - simpl. intuition.
  - cbn [apply_routes].
    assert (HE : oexp_rel g1 g2 (if ex then expand_components g1 m else Some (m, g1))
                                (if ex then expand_components g2 m else Some (m, g2))).
    { destruct ex; [apply expand_components_rel; assumption|].
      simpl. split; [left; reflexivity|apply exp_rel_same; assumption]. }
    destruct (if ex then expand_components g1 m else Some (m, g1)) as [[m1 g1']|];
    destruct (if ex then expand_components g2 m else Some (m, g2)) as [[m2 g2']|]; simpl in HE; try contradiction; [|exact I].
    destruct HE as (Hm & Wa & Wb & T1 & T2). cbn [fst snd g_dist g_cycles g_power] in *.
    set (sl1' := match mode with RAppend => set_nth i (nth i sl1 [] ++ [m1]) sl1 | ROverwrite => set_nth i [m1] sl1 | ROther => sl1 end).
    set (sl2' := match mode with RAppend => set_nth i (nth i sl2 [] ++ [m2]) sl2 | ROverwrite => set_nth i [m2] sl2 | ROther => sl2 end).
    assert (HS' : slots_sim sl1' sl2').
    { unfold sl1', sl2'. destruct mode.
      - apply F2_set_nth; [exact HS|]. apply Forall2_app; [apply F2_nth; exact HS|constructor; [exact Hm|constructor]].
      - apply F2_set_nth; [exact HS|]. constructor; [exact Hm|constructor].
      - exact HS. }
    assert (HEQ : sl1 = sl2 -> m1 = m2 -> sl1' = sl2').
    { intros -> ->. reflexivity. }
    specialize (IH sl1' sl2' g1' g2' HS' Wa Wb).
    destruct (apply_routes rest m sl1' g1') as [[r1 h1]|], (apply_routes rest m sl2' g2') as [[r2 h2]|];
      simpl in IH |- *; try contradiction; [|exact I].
    destruct IH as (A & B & C & D & E). cbn [fst snd g_dist g_cycles g_power] in *.
    split; [exact A|]. split; [exact B|]. split; [exact C|]. split.
    + intro H. destruct (D H) as (D1 & D2 & D3). destruct (T1 D1) as (T11 & T12 & T13).
      split; [exact T11|]. split; [intro Hs; apply D2; apply HEQ; assumption|]. rewrite D3. exact T13.
    + intro H. destruct (E H) as (E1 & E2 & E3). destruct (T2 E1) as (T21 & T22 & T23).
      split; [exact T21|]. split; [intro Hs; apply E2; apply HEQ; assumption|]. rewrite E3. exact T23.
Qed.

Definition add_rel (g1 g2 : gstate) (f1 f2 : file) (a1 a2 : add_result) : Prop :=
  match a1, a2 with
  | AddOk f1' g1', AddOk f2' g2' =>
      file_sim f1' f2' /\ gwf g1' /\ gwf g2' /\
      (g_dist g1' = None -> g_dist g1 = None /\ (f1 = f2 -> f1' = f2') /\ g_dist g2' = g_dist g2) /\
      (g1' = g_init -> g1 = g_init /\ (f1 = f2 -> f1' = f2') /\ g2' = g2)
  | AddPanic w1, AddPanic w2 => w1 = w2
  | _, _ => False
  end.

Lemma file_add_rel f1 f2 g1 g2 m : file_sim f1 f2 -> gwf g1 -> gwf g2 ->
  add_rel g1 g2 f1 f2 (file_add f1 g1 m) (file_add f2 g2 m).
Proof.
  intros (Hh & Hc & Hs & Hi & Hm & Hf) W1 W2. unfold file_add. rewrite <- Hi.
  assert (K : forall rs,
    add_rel g1 g2 f1 f2
      match apply_routes rs m (f_slots f1) g1 with
      | Some (slots, g') => AddOk (mk_file (f_header f1) (f_crc f1) slots (f_inited f1) (f_unkm f1) (f_unkf f1)) g'
      | None => AddPanic 30 end
      match apply_routes rs m (f_slots f2) g2 with
      | Some (slots, g') => AddOk (mk_file (f_header f2) (f_crc f2) slots (f_inited f1) (f_unkm f2) (f_unkf f2)) g'
      | None => AddPanic 30 end).
  { intro rs. pose proof (apply_routes_rel m rs _ _ g1 g2 Hs W1 W2) as H.
    destruct (apply_routes rs m (f_slots f1) g1) as [[s1 h1]|], (apply_routes rs m (f_slots f2) g2) as [[s2 h2]|];
      simpl in H |- *; try contradiction; [|reflexivity].
    destruct H as (A & B & C & D & E). cbn [fst snd g_dist g_cycles g_power] in *.
    split; [unfold file_sim; simpl; auto 10|]. split; [exact B|]. split; [exact C|]. split.
    - intro H. destruct (D H) as (D1 & D2 & D3). split; [exact D1|]. split; [|exact D3].
      intros ->. rewrite D2; reflexivity.
    - intro H. destruct (E H) as (E1 & E2 & E3). split; [exact E1|]. split; [|exact E3].
      intros ->. rewrite E2; reflexivity. }
  destruct (f_inited f1).
  - apply K.
  - destruct (common_routes (m_num m)) eqn:R; [reflexivity|]. rewrite <- R. apply K.
Qed.

Lemma record_has_no_type_field : sindex_of c_MesgNumRecord "Type" = None.
Proof. vm_compute. reflexivity. Qed.

Lemma file_type_sim f1 f2 : file_sim f1 f2 -> file_type f1 = file_type f2.
Proof.
  intros (_ & _ & Hs & _). unfold file_type.
  pose proof (F2_nth msg_sim 0 _ _ Hs) as H.
  destruct H as [|a b la lb [->|[Ha Hb]] _]; try reflexivity.
  Local Transparent fld. unfold fld. Local Opaque fld. rewrite Ha, Hb, record_has_no_type_field. reflexivity.
Qed.

Lemma file_init_rel f1 f2 : file_sim f1 f2 ->
  match file_init f1, file_init f2 with
  | Some a, Some b => file_sim a b /\ (f1 = f2 -> a = b)
  | None, None => True
  | _, _ => False
  end.
Proof.
  intro H. unfold file_init. rewrite <- (file_type_sim _ _ H).
  destruct (ft_entry (file_type f1)) as [[[[] c] s]|]; try exact I.
  destruct H as (Hh & Hc & Hs & Hi & Hm & Hf). split.
  - unfold file_sim; cbn [f_header f_crc f_slots f_inited f_unkm f_unkf]. repeat split; auto.
    apply Forall2_app; [apply F2_firstn; exact Hs|]. apply F2_refl. intro. apply F2_refl. exact msg_sim_refl.
  - intros ->. reflexivity.
Qed.
