(* C04: concrete witnesses showing that the hypotheses of the theorems in Props/C04.v are satisfiable. *)
From Coq Require Import NArith List Bool Arith.
From FitV Require Import Model.Values Model.Bytes Model.Crc Model.IO Model.Header Model.Route Model.Decode Model.Components
  Gen.Consts Spec.CrcSpec Spec.Burst Spec.Integrity Spec.Grammar
  Proofs.C04Crc Proofs.C04IO Proofs.C04Verdict Proofs.C04Corrupt Proofs.C04Header Proofs.C04Main Proofs.C04Agree.
Import ListNotations.
Local Open Scope N_scope.

(* a 25-byte activity file (12-byte header, file_id definition and record, checksum A1 EC) and the same
   records behind a 14-byte header with stored checksum *)
Definition ex12 : list N :=
  [12; 16; 100; 0; 11; 0; 0; 0; 46; 70; 73; 84;  64; 0; 0; 0; 0; 1; 0; 1; 0;  0; 4;  161; 236].
Definition ex14_body : list N :=
  let h12 := [14; 16; 100; 0; 11; 0; 0; 0; 46; 70; 73; 84] in
  h12 ++ [lo8 (arc h12); hi8 (arc h12)] ++ [64; 0; 0; 0; 0; 1; 0; 1; 0;  0; 4].
Definition ex14 : list N := ex14_body ++ [lo8 (arc ex14_body); hi8 (arc ex14_body)].
Definition ex_rd (bs : list N) : reader := mk_reader bs [3; 0; 1; 100]%nat TEOF false 0.

(* both are accepted by Decode and by CheckIntegrity (hypotheses of C04_accept_residue,
   C04_decode_ok_integrity_ok, C04_accepted_then_corrupted), satisfy the grammar's framing
   (C04_encode_integrity_ok) and have verdict None (C04_corruption_detected) *)
Lemma ex_accepted :
  (forall bs, In bs [ex12; ex14] ->
     is_bytes bs /\ crc_verdict_with arc bs TEOF = None /\ header_ok bs = true /\ trailer_ok bs = true /\
     proto_ok (nth 1 bs 0) = true /\ (measure (ex_rd bs) < 40)%nat /\
     (exists r, decode no_opts MFull g_init (ex_rd bs) 40 = TDone r /\ dr_err r = None) /\
     (exists r, decode no_opts MCrcOnly g_init (ex_rd bs) 40 = TDone r /\ dr_err r = None)).
Proof.
  intros bs [<-|[<-|[]]];
    (split; [vm_compute; repeat constructor|]);
    (split; [vm_compute; reflexivity|]); (split; [vm_compute; reflexivity|]); (split; [vm_compute; reflexivity|]);
    (split; [vm_compute; reflexivity|]); (split; [apply Nat.ltb_lt; vm_compute; reflexivity|]);
    (split; (eexists; split; [vm_compute; reflexivity|reflexivity])).
Qed.

(* a burst that satisfies the hypotheses of (c): 13 bits starting at stream bit 100 (bytes 12..14) *)
Lemma ex_burst :
  burst16 (frame_len ex12) 100 0x1A2B /\ outside_size_fields (burst (frame_len ex12) 100 0x1A2B) = true /\
  crc_verdict_with arc (xorl ex12 (burst (frame_len ex12) 100 0x1A2B)) TEOF = Some EFileCRC /\
  (* a burst inside the header's magic is caught by the header stage instead *)
  burst16 (frame_len ex12) 64 1 /\ outside_size_fields (burst (frame_len ex12) 64 1) = true /\
  crc_verdict_with arc (xorl ex12 (burst (frame_len ex12) 64 1)) TEOF = Some ENotFit.
Proof.
  split; [split; [split; vm_compute; reflexivity|vm_compute; reflexivity]|].
  split; [vm_compute; reflexivity|]. split; [vm_compute; reflexivity|].
  split; [split; [split; vm_compute; reflexivity|vm_compute; reflexivity]|].
  split; vm_compute; reflexivity.
Qed.

(* header hypotheses of (d): ex14 stores a matching non-zero checksum; flipping one bit of it makes it mismatch *)
Lemma ex_header :
  is_bytes (firstn 14 ex14) /\ b_at ex14 0 = 14 /\ (14 <= length ex14)%nat /\ stored_hdr_crc ex14 <> 0 /\
  arc (firstn 12 ex14) = stored_hdr_crc ex14 /\ proto_ok (b_at ex14 1) = true /\ firstn 4 (skipn 8 ex14) = fit_dtype /\
  (let bad := xorl ex14 (burst 14 96 1) in
   is_bytes (firstn 14 bad) /\ b_at bad 0 = 14 /\ stored_hdr_crc bad <> 0 /\ arc (firstn 12 bad) <> stored_hdr_crc bad /\
   header_stage_with arc bad TEOF = Some EHdrCRC /\ header_check_integrity (parse_header bad) = Some true).
Proof.
  split; [vm_compute; repeat constructor|]. split; [reflexivity|]. split; [vm_compute; repeat constructor|].
  split; [vm_compute; discriminate|]. split; [vm_compute; reflexivity|]. split; [reflexivity|]. split; [reflexivity|].
  cbv zeta. split; [vm_compute; repeat constructor|]. split; [reflexivity|]. split; [vm_compute; discriminate|].
  split; [vm_compute; discriminate|]. split; vm_compute; reflexivity.
Qed.

Lemma ex_integrity_error :
  exists r, decode no_opts MFull g_init (ex_rd (xorl ex12 (burst 25 192 1))) 40 = TDone r /\ dr_err r = Some EFileCRC /\
            is_integrity EFileCRC = true /\ (measure (ex_rd (xorl ex12 (burst 25 192 1))) < 40)%nat.
Proof.
  eexists. split; [vm_compute; reflexivity|]. split; [reflexivity|]. split; [reflexivity|].
  apply Nat.ltb_lt. vm_compute. reflexivity.
Qed.
