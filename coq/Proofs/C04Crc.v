(* C04 (a): CRC algebra for byte strings of any length.
   - crc_linear: the checksum fold is XOR-linear in (state, message);
   - zero_step_injective: feeding a zero byte is injective on the 2^16 states;
   - burst16_nonzero: every non-zero error pattern confined to 16 contiguous
     stream bits (least significant bit first) has a non-zero checksum;
   - burst_detected: a frame with residue 0 has a non-zero residue after any
     such error, for frames of any length;
   - burst16_msbfirst_refuted: in the opposite bit numbering CRC-16/ARC itself
     misses the error string 01 C1 C0. *)
From Coq Require Import NArith ZArith List Lia Bool Arith.
From Coq Require Import ZifyN ZifyNat ZifyBool.
From FitV Require Import Gen.CrcTable Model.Crc Spec.CrcSpec Spec.Burst Proofs.Util Proofs.CrcProofs Proofs.C04BurstTable.
Import ListNotations.
Local Open Scope N_scope.
Ltac Zify.zify_post_hook ::= Z.div_mod_to_equations.

(* ------------------------------------------------------------ the register is 16 bits wide, whatever is fed *)
Lemma T_lt : forall i, T i < 65536.
Proof.
  intros i. destruct (N.ltb_spec i 16) as [H|H].
  - apply N.ltb_lt. apply (forall_below 16 (fun i => T i <? 65536)); [vm_compute; reflexivity|assumption].
  - unfold T. rewrite nth_overflow; [reflexivity|].
    change (length crc_table) with (N.to_nat 16). lia.
Qed.

Lemma update_byte_lt_all : forall c d, update_byte c d < 65536.
Proof.
  intros c d. unfold update_byte. change 65536 with (2 ^ 16).
  assert (H12 : forall a, N.land a 4095 < 2 ^ 16).
  { intros a. eapply N.lt_trans; [apply (land_lt_pow2 a 4095 12); reflexivity|reflexivity]. }
  repeat apply lxor_lt_pow2; try apply H12; apply T_lt.
Qed.

Lemma update_lt_all : forall data c, c < 65536 -> update c data < 65536.
Proof.
  unfold update. induction data as [|b data IH]; intros c Hc; cbn [fold_left]; [assumption|].
  apply IH, update_byte_lt_all.
Qed.

Lemma checksum_lt_all : forall data, checksum data < 65536.
Proof. intros. apply update_lt_all. reflexivity. Qed.

(* ------------------------------------------------------------ linearity *)
Lemma xorl_length : forall a e, length (xorl a e) = length a.
Proof. induction a as [|x a IH]; intros [|y e]; cbn; try reflexivity. now rewrite IH. Qed.

Lemma xorl_nil_r : forall a, xorl a [] = a.
Proof. destruct a; reflexivity. Qed.

Theorem crc_linear_from : forall a b c1 c2, length a = length b ->
  update (N.lxor c1 c2) (xorl a b) = N.lxor (update c1 a) (update c2 b).
Proof.
  unfold update. induction a as [|x a IH]; intros [|y b] c1 c2 Hl; cbn in Hl; try discriminate.
  - reflexivity.
  - cbn [xorl fold_left]. rewrite update_byte_linear. apply IH. lia.
Qed.

Theorem crc_linear : forall a b, length a = length b ->
  checksum (xorl a b) = N.lxor (checksum a) (checksum b).
Proof. intros a b H. unfold checksum. rewrite <- (crc_linear_from a b 0 0 H). reflexivity. Qed.

(* ------------------------------------------------------------ zero bytes *)
Lemma zero_step_kernel : forall c, c < 65536 -> update_byte c 0 = 0 -> c = 0.
Proof.
  intros c Hc H.
  pose proof (forall_below 65536 (fun c => negb (update_byte c 0 =? 0) || (c =? 0)) ltac:(vm_compute; reflexivity) c Hc) as K.
  apply orb_true_iff in K. destruct K as [K|K].
  - apply negb_true_iff, N.eqb_neq in K. contradiction.
  - now apply N.eqb_eq.
Qed.

Theorem zero_step_injective : forall c1 c2, c1 < 65536 -> c2 < 65536 ->
  update_byte c1 0 = update_byte c2 0 -> c1 = c2.
Proof.
  intros c1 c2 H1 H2 E. apply N.lxor_eq. apply zero_step_kernel.
  - change 65536 with (2 ^ 16). now apply lxor_lt_pow2.
  - replace 0 with (N.lxor 0 0) at 1 by reflexivity. rewrite update_byte_linear, E. apply N.lxor_nilpotent.
Qed.

Lemma update_zeros_0 : forall k, update 0 (repeat 0 k) = 0.
Proof. unfold update. induction k as [|k IH]; cbn; [reflexivity|exact IH]. Qed.

Lemma update_leading_zeros : forall k l, update 0 (repeat 0 k ++ l) = update 0 l.
Proof. intros. rewrite update_app, update_zeros_0. reflexivity. Qed.

Lemma update_trailing_zeros_nonzero : forall m c, c < 65536 -> c <> 0 -> update c (repeat 0 m) <> 0.
Proof.
  unfold update. induction m as [|m IH]; intros c Hc Hn; cbn [repeat fold_left]; [assumption|].
  apply IH; [apply update_byte_lt_all|]. intros E. apply Hn. now apply zero_step_kernel.
Qed.

(* ------------------------------------------------------------ error strings as little-endian numbers *)
Lemma err_bytes_length : forall n v, length (err_bytes n v) = n.
Proof. induction n as [|n IH]; intros v; cbn; [reflexivity|now rewrite IH]. Qed.

Lemma err_bytes_lt : forall n v, Forall (fun b => b < 256) (err_bytes n v).
Proof.
  induction n as [|n IH]; intros v; cbn; constructor; [|apply IH].
  change 255 with (N.ones 8). rewrite N.land_ones. apply N.mod_lt. discriminate.
Qed.

(* the numbering: stream bit j (bit j mod 8 of byte j div 8) of the string is bit j of the number *)
Lemma err_bytes_bit : forall n v j, (j < 8 * n)%nat ->
  N.testbit (nth (Nat.div j 8) (err_bytes n v) 0) (N.of_nat (Nat.modulo j 8)) = N.testbit v (N.of_nat j).
Proof.
  induction n as [|n IH]; intros v j Hj; [lia|].
  destruct (Nat.ltb_spec j 8) as [L|L].
  - rewrite Nat.div_small, Nat.mod_small by assumption. cbn [err_bytes nth].
    change 255 with (N.ones 8). rewrite N.land_spec, N.ones_spec_low by lia. apply andb_true_r.
  - replace j with (8 + (j - 8))%nat at 1 2 by lia.
    replace (8 + (j - 8))%nat with ((j - 8) + 1 * 8)%nat by lia.
    rewrite Nat.div_add, Nat.mod_add by discriminate.
    replace ((j - 8) / 8 + 1)%nat with (S ((j - 8) / 8)) by lia. cbn [err_bytes nth].
    rewrite IH by lia. rewrite N.shiftr_spec by apply N.le_0_l. f_equal. lia.
Qed.

Lemma err_bytes_0 : forall n, err_bytes n 0 = repeat 0 n.
Proof. induction n as [|n IH]; cbn; [reflexivity|]. now rewrite IH. Qed.

(* whole bytes of offset become leading zero bytes *)
Lemma err_bytes_shift8 : forall k n v, err_bytes (k + n) (N.shiftl v (8 * N.of_nat k)) = repeat 0 k ++ err_bytes n v.
Proof.
  induction k as [|k IH]; intros n v.
  - cbn [plus repeat app]. now rewrite N.shiftl_0_r.
  - cbn [plus err_bytes repeat app]. f_equal.
    + change 255 with (N.ones 8). rewrite N.land_ones.
      replace (8 * N.of_nat (S k)) with (8 * N.of_nat k + 8) by lia.
      rewrite N.shiftl_mul_pow2, N.pow_add_r, N.mul_assoc. apply N.mod_mul. discriminate.
    + rewrite <- IH. f_equal.
      replace (8 * N.of_nat (S k)) with (8 * N.of_nat k + 8) by lia.
      rewrite <- N.shiftl_shiftl. rewrite N.shiftr_shiftl_l by lia. now rewrite N.sub_diag, N.shiftl_0_r.
Qed.

(* a number below 2^(8a) has only zero bytes from index a on *)
Lemma err_bytes_small : forall a m v, v < 2 ^ (8 * N.of_nat a) -> err_bytes (a + m) v = err_bytes a v ++ repeat 0 m.
Proof.
  induction a as [|a IH]; intros m v Hv.
  - cbn [plus err_bytes app]. assert (v = 0) by (cbn in Hv; lia). subst. apply err_bytes_0.
  - cbn [plus err_bytes app]. f_equal. apply IH.
    rewrite N.shiftr_div_pow2. apply N.div_lt_upper_bound; [discriminate|].
    replace (8 * N.of_nat (S a)) with (8 + 8 * N.of_nat a) in Hv by lia. now rewrite N.pow_add_r in Hv.
Qed.

Lemma burst3_nonzero : forall s p, s < 8 -> 0 < p < 65536 -> update 0 (err_bytes 3 (N.shiftl p s)) <> 0.
Proof.
  intros s p Hs Hp. pose proof (burst3_table s Hs) as H. rewrite forallb_forall in H.
  assert (Hin : In p (range (N.to_nat 65535) 1)) by (apply range_in; rewrite N2Nat.id; lia).
  specialize (H p Hin).
  unfold burst3_ok in H. now apply negb_true_iff, N.eqb_neq in H.
Qed.

(* every non-zero pattern of at most 16 contiguous stream bits, anywhere in a string of any length *)
Theorem burst16_nonzero : forall n off p, burst16 n off p -> checksum (burst n off p) <> 0.
Proof.
  intros n off p [Hp Hfit]. unfold checksum, burst.
  set (k := N.to_nat (off / 8)). set (s := off mod 8).
  assert (Hs : s < 8) by (unfold s; apply N.mod_lt; discriminate).
  assert (Hoff : off = s + 8 * N.of_nat k) by (unfold s, k; rewrite N2Nat.id; pose proof (N.div_mod off 8); lia).
  set (w := N.shiftl p s).
  assert (Hw : N.shiftl p off = N.shiftl w (8 * N.of_nat k)) by (unfold w; rewrite N.shiftl_shiftl; now rewrite <- Hoff).
  assert (Hw24 : w < 2 ^ (8 * N.of_nat 3)).
  { unfold w. rewrite N.shiftl_mul_pow2. change (2 ^ (8 * N.of_nat 3)) with (65536 * 2 ^ 8).
    assert (2 ^ s <= 2 ^ 8) by (apply N.pow_le_mono_r; lia). nia. }
  assert (Hw0 : w <> 0) by (unfold w; rewrite N.shiftl_mul_pow2; pose proof (N.pow_nonzero 2 s ltac:(discriminate)); nia).
  (* the pattern lies inside the n bytes, so k < n *)
  assert (Hkn : (k < n)%nat).
  { destruct (Nat.ltb_spec k n) as [L|L]; [assumption|exfalso].
    rewrite Hw, N.shiftl_mul_pow2 in Hfit.
    assert (2 ^ (8 * N.of_nat n) <= 2 ^ (8 * N.of_nat k)) by (apply N.pow_le_mono_r; lia). nia. }
  rewrite Hw. replace n with (k + (n - k))%nat by lia.
  rewrite err_bytes_shift8, update_leading_zeros.
  pose proof (burst3_nonzero s p Hs Hp) as H3. fold w in H3.
  destruct (Nat.leb_spec 3 (n - k)) as [L|L].
  - (* the three bytes are all inside: followed by zero bytes *)
    replace (n - k)%nat with (3 + (n - k - 3))%nat by lia.
    rewrite (err_bytes_small 3 _ w Hw24), update_app.
    apply update_trailing_zeros_nonzero; [apply update_lt_all; reflexivity|exact H3].
  - (* fewer than three bytes left: the pattern's upper bytes are zero *)
    assert (Hwm : w < 2 ^ (8 * N.of_nat (n - k))).
    { rewrite Hw, N.shiftl_mul_pow2 in Hfit.
      replace (8 * N.of_nat n) with (8 * N.of_nat (n - k) + 8 * N.of_nat k) in Hfit by lia.
      rewrite N.pow_add_r in Hfit. pose proof (N.pow_nonzero 2 (8 * N.of_nat k) ltac:(discriminate)). nia. }
    intros E. apply H3.
    replace 3%nat with ((n - k) + (3 - (n - k)))%nat by lia.
    rewrite (err_bytes_small (n - k) _ w Hwm), update_app, E. apply update_zeros_0.
Qed.

(* ------------------------------------------------------------ detection *)
Theorem burst_detected : forall frame off p,
  checksum frame = 0 -> burst16 (length frame) off p ->
  checksum (xorl frame (burst (length frame) off p)) <> 0.
Proof.
  intros frame off p H0 Hb. rewrite crc_linear by (unfold burst; now rewrite err_bytes_length).
  rewrite H0, N.lxor_0_l. now apply burst16_nonzero.
Qed.

(* the corrupted string differs from the original (the error is not the zero string) *)
Lemma burst_nonzero_string : forall n off p, burst16 n off p -> burst n off p <> repeat 0 n.
Proof.
  intros n off p Hb E. apply (burst16_nonzero n off p Hb). rewrite E. apply update_zeros_0.
Qed.

(* an error string followed by untouched bytes *)
Lemma xorl_zeros : forall a m, xorl a (repeat 0 m) = a.
Proof.
  induction a as [|x a IH]; intros [|m]; cbn; try reflexivity. now rewrite N.lxor_0_r, IH.
Qed.

Lemma xorl_short : forall a e, (length e <= length a)%nat ->
  xorl a e = xorl a (e ++ repeat 0 (length a - length e)).
Proof.
  induction a as [|x a IH]; intros [|y e] Hl.
  - reflexivity.
  - cbn in Hl. lia.
  - cbn [app]. now rewrite xorl_zeros.
  - cbn [xorl app length Nat.sub]. f_equal. apply IH. cbn in Hl. lia.
Qed.

(* byte-aligned corollary: an error confined to two adjacent whole bytes (the same in both bit numberings) *)
Theorem two_byte_error_detected : forall frame k x y,
  checksum frame = 0 -> (k + 2 <= length frame)%nat -> x < 256 -> y < 256 -> (x <> 0 \/ y <> 0) ->
  checksum (xorl frame (repeat 0 k ++ [x; y])) <> 0.
Proof.
  intros frame k x y H0 Hk Hx Hy Hxy.
  assert (Hb : burst16 (length frame) (8 * N.of_nat k) (x + 256 * y)).
  { split; [lia|]. rewrite N.shiftl_mul_pow2.
    replace (8 * N.of_nat (length frame)) with (16 + 8 * N.of_nat (length frame - k - 2) + 8 * N.of_nat k) by lia.
    rewrite !N.pow_add_r. change (2 ^ 16) with 65536.
    pose proof (N.pow_nonzero 2 (8 * N.of_nat (length frame - k - 2)) ltac:(discriminate)).
    pose proof (N.pow_nonzero 2 (8 * N.of_nat k) ltac:(discriminate)). nia. }
  pose proof (burst_detected frame _ _ H0 Hb) as H.
  replace (burst (length frame) (8 * N.of_nat k) (x + 256 * y)) with ((repeat 0 k ++ [x; y]) ++ repeat 0 (length frame - length (repeat 0 k ++ [x; y]))) in H.
  - now rewrite <- xorl_short in H by (rewrite app_length, repeat_length; cbn; lia).
  - unfold burst. rewrite app_length, repeat_length. cbn [length].
    replace (length frame) with (k + (2 + (length frame - (k + 2))))%nat at 2 by lia.
    rewrite err_bytes_shift8, <- app_assoc. f_equal.
    rewrite (err_bytes_small 2 _ (x + 256 * y)) by (change (2 ^ (8 * N.of_nat 2)) with 65536; lia). f_equal.
    cbn [err_bytes]. change 255 with (N.ones 8). rewrite !N.land_ones, N.shiftr_div_pow2. change (2 ^ 8) with 256.
    f_equal; [lia|f_equal; lia].
Qed.

(* ------------------------------------------------------------ the same facts about the bitwise CRC-16/ARC *)
Lemma xorl_is_bytes : forall a e, is_bytes a -> is_bytes e -> is_bytes (xorl a e).
Proof.
  induction a as [|x a IH]; intros [|y e] Ha He; cbn; try assumption.
  inversion Ha; inversion He; subst. constructor; [|now apply IH].
  change 256 with (2 ^ 8). now apply lxor_lt_pow2.
Qed.

Theorem arc_linear : forall a b, is_bytes a -> is_bytes b -> length a = length b ->
  arc (xorl a b) = N.lxor (arc a) (arc b).
Proof.
  intros a b Ha Hb Hl. rewrite <- !checksum_is_arc by (assumption || now apply xorl_is_bytes). now apply crc_linear.
Qed.

Theorem arc_burst_detected : forall frame off p, is_bytes frame ->
  arc frame = 0 -> burst16 (length frame) off p ->
  arc (xorl frame (burst (length frame) off p)) <> 0.
Proof.
  intros frame off p Hf H0 Hb.
  rewrite <- checksum_is_arc by (apply xorl_is_bytes; [assumption|apply err_bytes_lt]).
  apply burst_detected; [now rewrite checksum_is_arc|assumption].
Qed.

(* ------------------------------------------------------------ most significant bit first: refuted *)
(* the error string 01 C1 C0 occupies stream bits 7..17 in MSB-first numbering (an 11-bit run:
   it is the big-endian number 0x707 * 2^6) and CRC-16/ARC maps it to 0: no implementation of
   the FIT checksum can detect it.  A fact about the checksum, not about this library. *)
Theorem burst16_msbfirst_refuted : exists n sh p,
  0 < p < 65536 /\ N.shiftl p sh < 2 ^ (8 * N.of_nat n) /\
  burst_msb n sh p = [0x01; 0xC1; 0xC0] /\ checksum (burst_msb n sh p) = 0 /\ arc (burst_msb n sh p) = 0.
Proof. exists 3%nat, 6, 0x707. repeat split; vm_compute; reflexivity. Qed.

