(* C10, raw reads and the abstract interpreter.

   - io.ReadFull and io.CopyN over the chunked reader oracle: with enough fuel
     they return the first n bytes of the data (or all of it, with the error
     class of the terminal condition), whatever the chunk schedule.
   - the abstract interpreter: a run that ends in a value or in a decoder
     failure depends only on the bytes it consumed. *)
From Coq Require Import NArith List Bool Arith Lia.
From FitV Require Import Model.Crc Model.IO Proofs.IOSim.
Import ListNotations.

Definition wf (rd : reader) (fuel : nat) : Prop := length (rd_data rd) + length (rd_sched rd) < fuel.

(* rd' is rd after delivering k more bytes (or everything that was left) *)
Record adv (rd rd' : reader) (k : nat) : Prop := {
  adv_data : rd_data rd' = skipn k (rd_data rd);
  adv_term : rd_term rd' = rd_term rd;
  adv_ewd : rd_ewd rd' = rd_ewd rd;
  adv_pos : rd_pos rd' = rd_pos rd + Nat.min k (length (rd_data rd));
  adv_sched : length (rd_sched rd') <= length (rd_sched rd)
}.

Definition rf_err (n : nat) (data : list N) (t : term) : option rerr :=
  if Nat.leb n (length data) then None
  else Some (match t with TFault => RFault | TEOF => match data with [] => REOF | _ => RUnexpectedEOF end end).

Definition cp_err (n : nat) (data : list N) (t : term) : option rerr :=
  if Nat.leb n (length data) then None
  else Some (match t with TFault => RFault | TEOF => REOF end).

(* ------------------------------------------------------------ list facts *)
Lemma skipn_skipn_add {A} (l : list A) a b : skipn b (skipn a l) = skipn (a + b) l.
Proof.
  revert l; induction a as [|a IH]; intros l; cbn [skipn Nat.add]; [reflexivity|].
  destruct l as [|x l]; [apply skipn_nil|apply IH].
Qed.

(* ------------------------------------------------------------ adv facts *)
Lemma adv_wf rd rd' k fuel : adv rd rd' k -> wf rd fuel -> wf rd' fuel.
Proof.
  intros [Hd _ _ _ Hs] H. unfold wf in *. rewrite Hd, skipn_length. lia.
Qed.

Lemma adv_refl rd : adv rd rd 0.
Proof. constructor; cbn [skipn]; try reflexivity; lia. Qed.

Lemma adv_trans r1 r2 r3 a b : adv r1 r2 a -> adv r2 r3 b -> adv r1 r3 (a + b).
Proof.
  intros [Hd1 Ht1 He1 Hp1 Hs1] [Hd2 Ht2 He2 Hp2 Hs2]. constructor.
  - rewrite Hd2, Hd1. apply skipn_skipn_add.
  - congruence.
  - congruence.
  - rewrite Hp2, Hp1, Hd1, skipn_length. lia.
  - lia.
Qed.

Lemma adv_weaken rd rd' a b : adv rd rd' a -> length (rd_data rd) <= a -> a <= b -> adv rd rd' b.
Proof.
  intros [Hd Ht He Hp Hs] Ha Hb. constructor; try assumption.
  - rewrite Hd. rewrite !skipn_all2 by lia. reflexivity.
  - rewrite Hp. lia.
Qed.

(* one Read call with a non-empty buffer *)
Lemma rd_read_spec rd k : 1 <= k ->
  forall bs e r', rd_read rd k = (bs, e, r') ->
  rd_data rd = bs ++ rd_data r' /\ length bs <= k /\ adv rd r' (length bs) /\
  (e = None -> length (rd_data r') + length (rd_sched r') < length (rd_data rd) + length (rd_sched rd)) /\
  (forall t, e = Some t -> t = rd_term rd /\ rd_data r' = []).
Proof.
  intros Hk bs e r'. unfold rd_read. destruct (rd_data rd) as [|b0 rest0] eqn:Ed.
  - intros H; inversion H; subst. rewrite Ed. cbn [app length].
    split; [reflexivity|]. split; [lia|]. split; [apply adv_refl|].
    split; [discriminate|]. intros t Ht; inversion Ht; split; reflexivity.
  - set (cap := match rd_sched rd with [] => k | c0 :: _ => Nat.min c0 k end).
    assert (Hcap : cap <= k) by (unfold cap; destruct (rd_sched rd); lia).
    intros H; inversion H; subst; clear H. cbn [rd_data rd_sched].
    assert (Hlen : length (firstn cap (b0 :: rest0)) = Nat.min cap (length (b0 :: rest0))) by apply firstn_length.
    split; [symmetry; apply firstn_skipn|]. split; [lia|]. split; [|split].
    + constructor; cbn [rd_data rd_sched rd_term rd_ewd rd_pos]; rewrite ?Ed; try reflexivity.
      * rewrite Hlen. destruct (Nat.le_ge_cases cap (length (b0 :: rest0))) as [L|L].
        -- now rewrite Nat.min_l by assumption.
        -- rewrite Nat.min_r by assumption. rewrite !skipn_all2 by lia. reflexivity.
      * rewrite Hlen. lia.
      * destruct (rd_sched rd); cbn [tl length]; lia.
    + intros _. rewrite skipn_length.
      destruct cap as [|cap'] eqn:Ec.
      * assert (Hs : rd_sched rd <> []) by (unfold cap in Ec; destruct (rd_sched rd); [lia|discriminate]).
        destruct (rd_sched rd); [congruence|]. cbn [tl length]. lia.
      * assert (length (tl (rd_sched rd)) <= length (rd_sched rd)) by (destruct (rd_sched rd); cbn [tl length]; lia).
        cbn [length]. lia.
    + intros t Ht. destruct (skipn cap (b0 :: rest0)) as [|y ys]; [|discriminate].
      split; [|reflexivity]. destruct (rd_ewd rd); [|discriminate]. now inversion Ht.
Qed.

(* ------------------------------------------------------------ io.ReadFull *)
Lemma io_read_full_gen : forall fuel rd n acc, wf rd fuel -> length acc <= n ->
  exists rd', io_read_full fuel rd n acc =
              Done (firstn n (acc ++ rd_data rd), rf_err n (acc ++ rd_data rd) (rd_term rd), rd') /\
              adv rd rd' (n - length acc).
Proof.
  induction fuel as [|f IH]; intros rd n acc Hwf Hacc; [unfold wf in Hwf; lia|].
  cbn [io_read_full].
  destruct (Nat.leb_spec n (length acc)) as [L|L].
  - exists rd. assert (Hn : n = length acc) by lia. subst n. split.
    + rewrite firstn_app_exact. unfold rf_err.
      replace (Nat.leb (length acc) (length (acc ++ rd_data rd))) with true
        by (symmetry; apply Nat.leb_le; rewrite app_length; lia).
      reflexivity.
    + rewrite Nat.sub_diag. apply adv_refl.
  - destruct (rd_read rd (n - length acc)) as [[bs e] r'] eqn:Er.
    assert (Hk : 1 <= n - length acc) by lia.
    destruct (rd_read_spec rd (n - length acc) Hk _ _ _ Er) as (Hd & Hl & Ha & Hn & Hs).
    destruct e as [t|].
    + destruct (Hs t eq_refl) as [-> Hnil]. rewrite Hnil, app_nil_r in Hd.
      exists r'. split.
      * rewrite Hd. unfold rf_err.
        rewrite (firstn_all2 (n := n) (acc ++ bs)) by (rewrite app_length; lia).
        destruct (Nat.leb n (length (acc ++ bs))); reflexivity.
      * eapply adv_weaken; [exact Ha| |]; [rewrite Hd|]; lia.
    + specialize (Hn eq_refl).
      assert (Hwf' : wf r' f) by (unfold wf in *; lia).
      assert (Hacc' : length (acc ++ bs) <= n) by (rewrite app_length; lia).
      destruct (IH r' n (acc ++ bs) Hwf' Hacc') as (rd'' & Heq & Hadv).
      exists rd''. split.
      * rewrite Heq, <- app_assoc, <- Hd, (adv_term _ _ _ Ha). reflexivity.
      * replace (n - length acc) with (length bs + (n - length (acc ++ bs))) by (rewrite app_length; lia).
        eapply adv_trans; eassumption.
Qed.

Theorem io_read_full_spec : forall fuel rd n, wf rd fuel ->
  exists rd', io_read_full fuel rd n [] = Done (firstn n (rd_data rd), rf_err n (rd_data rd) (rd_term rd), rd') /\ adv rd rd' n.
Proof.
  intros fuel rd n Hwf.
  destruct (io_read_full_gen fuel rd n [] Hwf) as (rd' & H1 & H2); [cbn [length]; lia|].
  exists rd'. cbn [app length] in *. rewrite Nat.sub_0_r in H2. split; assumption.
Qed.

(* ------------------------------------------------------------ io.CopyN *)
Lemma COPYBUF_pos : 1 <= COPYBUF.
Proof. unfold COPYBUF. apply Nat.lt_0_succ. Qed.

Local Opaque COPYBUF.

Lemma io_copy_n_gen : forall fuel rd n acc, wf rd fuel -> length acc <= n ->
  exists rd', io_copy_n fuel rd n acc =
              Done (firstn n (acc ++ rd_data rd), cp_err n (acc ++ rd_data rd) (rd_term rd), rd') /\
              adv rd rd' (n - length acc).
Proof.
  induction fuel as [|f IH]; intros rd n acc Hwf Hacc; [unfold wf in Hwf; lia|].
  cbn [io_copy_n].
  destruct (Nat.leb_spec n (length acc)) as [L|L].
  - exists rd. assert (Hn : n = length acc) by lia. subst n. split.
    + rewrite firstn_app_exact. unfold cp_err.
      replace (Nat.leb (length acc) (length (acc ++ rd_data rd))) with true
        by (symmetry; apply Nat.leb_le; rewrite app_length; lia).
      reflexivity.
    + rewrite Nat.sub_diag. apply adv_refl.
  - pose proof COPYBUF_pos as Hcb.
    set (want := Nat.min COPYBUF (n - length acc)).
    assert (Hk : 1 <= want) by (unfold want; lia).
    assert (Hw : want <= n - length acc) by (unfold want; lia).
    clearbody want.
    destruct (rd_read rd want) as [[bs e] r'] eqn:Er.
    destruct (rd_read_spec rd want Hk _ _ _ Er) as (Hd & Hl & Ha & Hn & Hs).
    destruct e as [t|].
    + destruct (Hs t eq_refl) as [-> Hnil]. rewrite Hnil, app_nil_r in Hd.
      exists r'. split.
      * rewrite Hd. unfold cp_err.
        rewrite (firstn_all2 (n := n) (acc ++ bs)) by (rewrite app_length; lia).
        destruct (Nat.leb n (length (acc ++ bs))); reflexivity.
      * eapply adv_weaken; [exact Ha| |]; [rewrite Hd|]; lia.
    + specialize (Hn eq_refl).
      assert (Hwf' : wf r' f) by (unfold wf in *; lia).
      assert (Hacc' : length (acc ++ bs) <= n) by (rewrite app_length; lia).
      destruct (IH r' n (acc ++ bs) Hwf' Hacc') as (rd'' & Heq & Hadv).
      exists rd''. split.
      * rewrite Heq, <- app_assoc, <- Hd, (adv_term _ _ _ Ha). reflexivity.
      * replace (n - length acc) with (length bs + (n - length (acc ++ bs))) by (rewrite app_length; lia).
        eapply adv_trans; eassumption.
Qed.

Theorem io_copy_n_spec : forall fuel rd n, wf rd fuel ->
  exists rd', io_copy_n fuel rd n [] = Done (firstn n (rd_data rd), cp_err n (rd_data rd) (rd_term rd), rd') /\ adv rd rd' n.
Proof.
  intros fuel rd n Hwf.
  destruct (io_copy_n_gen fuel rd n [] Hwf) as (rd' & H1 & H2); [cbn [length]; lia|].
  exists rd'. cbn [app length] in *. rewrite Nat.sub_0_r in H2. split; assumption.
Qed.

(* ------------------------------------------------- the abstract interpreter *)
Lemma a_take_ok k rest t n lim l x1 : a_take k (mk_ast rest t n lim) = inl (l, x1) ->
  k <= lim - n /\ k <= length rest /\ l = firstn k rest /\ x1 = mk_ast (skipn k rest) t (n + k) lim.
Proof.
  unfold a_take. cbn [a_rest a_term a_n a_limit].
  destruct (Nat.leb_spec k (Nat.min (lim - n) (length rest))) as [L|L].
  - intros H; inversion H; subst. repeat split; lia.
  - destruct (Nat.leb (lim - n) (length rest)); discriminate.
Qed.

Lemma a_take_ok_intro k rest t n lim : k <= lim - n -> k <= length rest ->
  a_take k (mk_ast rest t n lim) = inl (firstn k rest, mk_ast (skipn k rest) t (n + k) lim).
Proof.
  intros H1 H2. unfold a_take. cbn [a_rest a_term a_n a_limit].
  replace (Nat.leb k (Nat.min (lim - n) (length rest))) with true by (symmetry; apply Nat.leb_le; lia).
  reflexivity.
Qed.

Lemma a_take_err_kind k rest t n lim e : a_take k (mk_ast rest t n lim) = inr e ->
  e = (if Nat.leb (lim - n) (length rest) then IOBeyond else noEOF t).
Proof.
  unfold a_take. cbn [a_rest a_term a_n a_limit].
  destruct (Nat.leb k (Nat.min (lim - n) (length rest))); [discriminate|].
  destruct (Nat.leb (lim - n) (length rest)); intros H; inversion H; reflexivity.
Qed.

Definition prefix_ok (rest : list N) (t : term) (n lim : nat) (x' : ast) : Prop :=
  n <= a_n x' /\ a_n x' - n <= length rest /\ a_n x' <= Nat.max n lim /\
  a_rest x' = skipn (a_n x' - n) rest /\ a_limit x' = lim /\ a_term x' = t.

Lemma prefix_ok_step rest t n lim k x' : k <= lim - n -> k <= length rest ->
  prefix_ok (skipn k rest) t (n + k) lim x' -> prefix_ok rest t n lim x'.
Proof.
  intros H1 H2 (I1 & I2 & I3 & I4 & I5 & I6). rewrite skipn_length in I2.
  unfold prefix_ok. repeat split; try lia; try assumption.
  rewrite I4, skipn_skipn_add. f_equal. lia.
Qed.

Lemma run_a_prefix {S E A} : forall (p : prog S E A) rest t n lim s,
  match run_a p (mk_ast rest t n lim) s with
  | ROk _ x' _ | RFail _ x' _ =>
      n <= a_n x' /\ a_n x' - n <= length rest /\ a_n x' <= Nat.max n lim /\
      a_rest x' = skipn (a_n x' - n) rest /\ a_limit x' = lim /\ a_term x' = t
  | _ => True
  end.
Proof.
  induction p as [x|e|w|k IH|n0 k IH|k IH|k IH|s' k IH]; intros rest t n lim s; cbn [run_a].
  - cbn [a_n a_rest a_limit a_term]. rewrite Nat.sub_diag. cbn [skipn]. repeat split; lia.
  - cbn [a_n a_rest a_limit a_term]. rewrite Nat.sub_diag. cbn [skipn]. repeat split; lia.
  - exact I.
  - destruct (a_take 1 (mk_ast rest t n lim)) as [[l x1]|e] eqn:Et; [|exact I].
    destruct (a_take_ok _ _ _ _ _ _ _ Et) as (H1 & H2 & -> & ->).
    specialize (IH (hd 0%N (firstn 1 rest)) (skipn 1 rest) t (n + 1) lim s).
    destruct (run_a (k (hd 0%N (firstn 1 rest))) (mk_ast (skipn 1 rest) t (n + 1) lim) s); try exact I;
      apply (prefix_ok_step rest t n lim 1); assumption.
  - destruct (a_take n0 (mk_ast rest t n lim)) as [[l x1]|e] eqn:Et; [|exact I].
    destruct (a_take_ok _ _ _ _ _ _ _ Et) as (H1 & H2 & -> & ->).
    specialize (IH (firstn n0 rest) (skipn n0 rest) t (n + n0) lim s).
    destruct (run_a (k (firstn n0 rest)) (mk_ast (skipn n0 rest) t (n + n0) lim) s); try exact I;
      apply (prefix_ok_step rest t n lim n0); assumption.
  - cbn [a_n a_limit]. apply IH.
  - apply IH.
  - apply IH.
Qed.

(* the prefix condition on the replacement input, after k bytes were taken *)
Lemma ext_step (rest rest' : list N) n k m :
  n + k <= m -> k <= length rest ->
  firstn (m - n) rest' = firstn (m - n) rest -> m - n <= length rest' ->
  k <= length rest' /\ firstn k rest' = firstn k rest /\
  firstn (m - (n + k)) (skipn k rest') = firstn (m - (n + k)) (skipn k rest) /\
  m - (n + k) <= length (skipn k rest') /\
  skipn (m - (n + k)) (skipn k rest') = skipn (m - n) rest'.
Proof.
  intros Hm Hk Hf Hl. split; [lia|]. split; [|split; [|split]].
  - assert (H : firstn k (firstn (m - n) rest') = firstn k (firstn (m - n) rest)) by (rewrite Hf; reflexivity).
    rewrite !firstn_firstn in H. rewrite Nat.min_l in H by lia. exact H.
  - rewrite !firstn_skipn_comm. replace (k + (m - (n + k))) with (m - n) by lia. rewrite Hf. reflexivity.
  - rewrite skipn_length. lia.
  - rewrite skipn_skipn_add. f_equal. lia.
Qed.

Lemma run_a_ext {S E A} : forall (p : prog S E A) rest t n lim s,
  match run_a p (mk_ast rest t n lim) s with
  | ROk a x' s' =>
      forall rest' t', firstn (a_n x' - n) rest' = firstn (a_n x' - n) rest -> a_n x' - n <= length rest' ->
      run_a p (mk_ast rest' t' n lim) s = ROk a (mk_ast (skipn (a_n x' - n) rest') t' (a_n x') lim) s'
  | RFail e x' s' =>
      forall rest' t', firstn (a_n x' - n) rest' = firstn (a_n x' - n) rest -> a_n x' - n <= length rest' ->
      run_a p (mk_ast rest' t' n lim) s = RFail e (mk_ast (skipn (a_n x' - n) rest') t' (a_n x') lim) s'
  | _ => True
  end.
Proof.
  induction p as [x|e|w|k IH|n0 k IH|k IH|k IH|s' k IH]; intros rest t n lim s; cbn [run_a].
  - cbn [a_n]. intros rest' t' _ _. rewrite Nat.sub_diag. reflexivity.
  - cbn [a_n]. intros rest' t' _ _. rewrite Nat.sub_diag. reflexivity.
  - exact I.
  - destruct (a_take 1 (mk_ast rest t n lim)) as [[l x1]|e] eqn:Et; [|exact I].
    destruct (a_take_ok _ _ _ _ _ _ _ Et) as (H1 & H2 & -> & ->).
    pose proof (run_a_prefix (k (hd 0%N (firstn 1 rest))) (skipn 1 rest) t (n + 1) lim s) as HP.
    specialize (IH (hd 0%N (firstn 1 rest)) (skipn 1 rest) t (n + 1) lim s).
    destruct (run_a (k (hd 0%N (firstn 1 rest))) (mk_ast (skipn 1 rest) t (n + 1) lim) s) as [a x' s1|e x' s1|e x' s1|w|];
      try exact I; intros rest' t' Hf Hl; destruct HP as (P1 & _);
      destruct (ext_step rest rest' n 1 (a_n x') P1 H2 Hf Hl) as (E1 & E2 & E3 & E4 & E5);
      rewrite (a_take_ok_intro 1 rest' t' n lim H1 E1), E2, (IH (skipn 1 rest') t' E3 E4), E5; reflexivity.
  - destruct (a_take n0 (mk_ast rest t n lim)) as [[l x1]|e] eqn:Et; [|exact I].
    destruct (a_take_ok _ _ _ _ _ _ _ Et) as (H1 & H2 & -> & ->).
    pose proof (run_a_prefix (k (firstn n0 rest)) (skipn n0 rest) t (n + n0) lim s) as HP.
    specialize (IH (firstn n0 rest) (skipn n0 rest) t (n + n0) lim s).
    destruct (run_a (k (firstn n0 rest)) (mk_ast (skipn n0 rest) t (n + n0) lim) s) as [a x' s1|e x' s1|e x' s1|w|];
      try exact I; intros rest' t' Hf Hl; destruct HP as (P1 & _);
      destruct (ext_step rest rest' n n0 (a_n x') P1 H2 Hf Hl) as (E1 & E2 & E3 & E4 & E5);
      rewrite (a_take_ok_intro n0 rest' t' n lim H1 E1), E2, (IH (skipn n0 rest') t' E3 E4), E5; reflexivity.
  - cbn [a_n a_limit]. apply IH.
  - apply IH.
  - apply IH.
Qed.

Lemma run_a_ext_ok {S E A} : forall (p : prog S E A) rest t n lim s a x' s',
  run_a p (mk_ast rest t n lim) s = ROk a x' s' ->
  forall rest' t', firstn (a_n x' - n) rest' = firstn (a_n x' - n) rest -> a_n x' - n <= length rest' ->
  run_a p (mk_ast rest' t' n lim) s = ROk a (mk_ast (skipn (a_n x' - n) rest') t' (a_n x') lim) s'.
Proof.
  intros p rest t n lim s a x' s' H. pose proof (run_a_ext p rest t n lim s) as HE.
  rewrite H in HE. exact HE.
Qed.

Lemma run_a_ext_fail {S E A} : forall (p : prog S E A) rest t n lim s e x' s',
  run_a p (mk_ast rest t n lim) s = RFail e x' s' ->
  forall rest' t', firstn (a_n x' - n) rest' = firstn (a_n x' - n) rest -> a_n x' - n <= length rest' ->
  run_a p (mk_ast rest' t' n lim) s = RFail e (mk_ast (skipn (a_n x' - n) rest') t' (a_n x') lim) s'.
Proof.
  intros p rest t n lim s e x' s' H. pose proof (run_a_ext p rest t n lim s) as HE.
  rewrite H in HE. exact HE.
Qed.

(* an I/O error of the abstract interpreter: the run needed a byte beyond what
   was available *)
Lemma run_a_ioerr {S E A} : forall (p : prog S E A) rest t n lim s e x' s',
  run_a p (mk_ast rest t n lim) s = RIOErr e x' s' ->
  e = (if Nat.leb (lim - a_n x') (length (a_rest x')) then IOBeyond else noEOF t).
Proof.
  induction p as [x|e0|w|k IH|n0 k IH|k IH|k IH|s0 k IH]; intros rest t n lim s e x' s'; cbn [run_a]; try discriminate.
  - destruct (a_take 1 (mk_ast rest t n lim)) as [[l x1]|e1] eqn:Et.
    + destruct (a_take_ok _ _ _ _ _ _ _ Et) as (H1 & H2 & -> & ->). apply IH.
    + intros H; inversion H; subst. cbn [a_n a_rest]. eapply a_take_err_kind; eassumption.
  - destruct (a_take n0 (mk_ast rest t n lim)) as [[l x1]|e1] eqn:Et.
    + destruct (a_take_ok _ _ _ _ _ _ _ Et) as (H1 & H2 & -> & ->). apply IH.
    + intros H; inversion H; subst. cbn [a_n a_rest]. eapply a_take_err_kind; eassumption.
  - cbn [a_n a_limit]. apply IH.
  - apply IH.
  - apply IH.
Qed.

Print Assumptions io_read_full_spec.
Print Assumptions io_copy_n_spec.
Print Assumptions run_a_ext_ok.
