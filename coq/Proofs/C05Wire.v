(* C05: the values on the wire equal the values in the File: every field of
   every record the recogniser returns for Encode's output matches the struct
   field it was written from (Spec/Grammar.v: field_matches). *)
From Coq Require Import NArith ZArith List Bool Lia String.
From Coq Require Import ZifyN ZifyNat ZifyBool.
From FitV Require Import Model.Values Model.Bytes Model.Base Model.Profile Model.Crc Model.Header
  Model.Components Model.Route Model.Encode Spec.CrcSpec Spec.Grammar Spec.RoundTrip
  Proofs.Util Proofs.CrcProofs Proofs.EncodeProofs Proofs.C05Grammar Gen.Consts Gen.ProfileData Gen.RoutingData.
Import ListNotations.
Local Open Scope N_scope.
Ltac Zify.zify_post_hook ::= Z.div_mod_to_equations.

(* ---------------------------------------------------------------- numbers *)
Lemma le_num_le_bytes n : forall x, le_num (le_bytes n x) = x mod 256 ^ N.of_nat n.
Proof.
  induction n as [|n IH]; intros x.
  - cbn [le_bytes le_num N.of_nat]. now rewrite N.pow_0_r, N.mod_1_r.
  - cbn [le_bytes le_num]. rewrite IH, Nat2N.inj_succ, N.pow_succ_r'.
    rewrite N.mod_mul_r; [reflexivity|discriminate|apply N.pow_nonzero; discriminate].
Qed.

Lemma num_of_put_int be n x : num_of be (put_int be n x) = x mod 256 ^ N.of_nat n.
Proof.
  unfold num_of, put_int, be_num. destruct be; [rewrite rev_involutive|]; apply le_num_le_bytes.
Qed.

Lemma num_of_put_int_small be n x : x < 256 ^ N.of_nat n -> num_of be (put_int be n x) = x.
Proof. intros H. rewrite num_of_put_int. now apply N.mod_small. Qed.

Definition bits_ok (b : N) : bool := (b =? 8) || (b =? 16) || (b =? 32) || (b =? 64).

Lemma bits_ok_pow b : bits_ok b = true -> 2 ^ b = 256 ^ N.of_nat (nbytes b) /\ N.of_nat (nbytes b) = b / 8 /\ b = 8 * (b / 8).
Proof.
  unfold bits_ok. intros H. repeat (apply orb_true_iff in H as [H|H]); apply N.eqb_eq in H; subst b; repeat split; reflexivity.
Qed.

Lemma of_signed_lt bits z : of_signed bits z < 2 ^ bits.
Proof.
  unfold of_signed. assert (H : 2 ^ bits <> 0) by (apply N.pow_nonzero; discriminate).
  assert (Hz : (0 < Z.of_N (2 ^ bits))%Z) by lia.
  pose proof (Z.mod_pos_bound z (Z.of_N (2 ^ bits)) Hz) as Hb. apply N2Z.inj_lt. rewrite Z2N.id by lia. lia.
Qed.

(* time.go: a whole second inside the FIT range is written as it is *)
Lemma encode_time_whole s : (-9223372036 <= s <= 9223372036)%Z -> encode_time s 0 = Z.to_N (s mod 4294967296)%Z.
Proof.
  intros H. unfold encode_time, sub_timebase, max_i64, min_i64. rewrite Z.add_0_r.
  rewrite Z.gtb_ltb. rewrite (proj2 (Z.ltb_ge _ _)) by lia. rewrite (proj2 (Z.ltb_ge _ _)) by lia.
  now rewrite Z.quot_mul by discriminate.
Qed.

(* ---------------------------------------------------------------- profile facts for the value comparison *)
Definition native_ty (ty : gotype) : bool := match ty with TU b | TI b | TF b => bits_ok b | _ => false end.

(* per profile entry: the grammar's own base-type table agrees with the
   library's on the size; native fields have fixed-width Go types; an array
   field has an invalid value of the element width *)
Definition entry_ok2 (gmn : N) (pf : pfield) : bool :=
  let t := pf_t pf in let bt := fit_base t in
  match b_size bt, field_type gmn (pf_sindex pf) with
  | Some bs, Some ty =>
      opt_eq (base_size_of bt) bs && (0 <? bs) &&
      (if fit_kind t =? kind_native then
         (bt =? base_string) ||
         (if fit_array t then
            native_ty (elem_type ty) &&
            match b_invalid bt, invalid_type bt with
            | Some iv, Some ity => native_ty ity && val_has_type ity iv
            | _, _ => false
            end
          else native_ty ty)
       else negb (fit_array t) && negb (bt =? base_string))
  | _, None => true
  | None, _ => false
  end.

Definition msg_ok2 (m : msgdesc) : bool :=
  (md_num m <? fields_len) && forallb (fun e => entry_ok2 (md_num m) (snd e)) (md_entries m) &&
  nodup_n (map fst (md_entries m)).

Lemma profile_msgs_ok2 : forallb msg_ok2 messages = true.
Proof. vm_compute. reflexivity. Qed.

(* ---------------------------------------------------------------- scalars *)
Lemma native_scalar_matches be pf ty v p bs :
  (fit_kind (pf_t pf) =? kind_native) = true -> native_ty ty = true -> scalar_size ty = Some bs ->
  val_has_type ty v = true -> bw be ty v = EOk p ->
  exists want, scalar_num pf bs v = Some want /\ opt_eqb want (num_of be p) = true.
Proof.
  intros Hk Hn Hs Hv H. unfold scalar_num.
  destruct ty; try discriminate; cbn [native_ty] in Hn; destruct (bits_ok_pow _ Hn) as (Hp & Hnb & H8);
    cbn [scalar_size] in Hs; inversion Hs; subst bs; clear Hs;
    destruct v; try discriminate; cbn [val_has_type] in Hv; cbn [bw] in H; inversion H; subst p; clear H; rewrite Hk.
  - apply N.ltb_lt in Hv. eexists. split; [reflexivity|]. cbn [opt_eqb].
    rewrite (N.mod_small _ _ Hv), num_of_put_int_small by (rewrite <- Hp; exact Hv). apply N.eqb_refl.
  - eexists. split; [reflexivity|]. cbn [opt_eqb]. rewrite <- H8.
    rewrite num_of_put_int_small by (rewrite <- Hp; apply of_signed_lt). apply N.eqb_refl.
  - apply N.ltb_lt in Hv. eexists. split; [reflexivity|]. cbn [opt_eqb].
    rewrite (N.mod_small _ _ Hv), num_of_put_int_small by (rewrite <- Hp; exact Hv). apply N.eqb_refl.
Qed.

(* local timestamps: the instant is within int64 nanoseconds of the FIT epoch (time.Sub does not saturate) *)
Definition time_sane (pf : pfield) (v : goval) : bool :=
  match v with
  | VTime s _ _ => if fit_kind (pf_t pf) =? kind_timelocal then z_in (-9223372036) 9223372036 s else true
  | _ => true
  end.

Lemma u32_in_range_some z n : u32_in_range z = Some n -> (0 <= z < 4294967296)%Z /\ n = Z.to_N z.
Proof.
  unfold u32_in_range. destruct ((0 <=? z)%Z && (z <? 4294967296)%Z) eqn:E; [|discriminate].
  intros H. inversion H. split; [lia|reflexivity].
Qed.

Lemma num_of_put_int4 be x : x < 4294967296 -> num_of be (put_int be 4 x) = x.
Proof. intros H. apply num_of_put_int_small. exact H. Qed.

Lemma other_scalar_matches be pf ty v p bs :
  (fit_kind (pf_t pf) =? kind_native) = false -> time_sane pf v = true -> encode_value be pf ty v = EOk p ->
  exists want, scalar_num pf bs v = Some want /\ opt_eqb want (num_of be p) = true.
Proof.
  intros Hk Hts H. unfold encode_value in H. cbv zeta in H. unfold scalar_num. cbv zeta. rewrite Hk in H.
  destruct (fit_kind (pf_t pf) =? kind_timeutc) eqn:K1.
  { destruct v; try discriminate. inversion H; subst p; clear H.
    eexists. split; [reflexivity|]. destruct (nsec =? 0) eqn:En; [|reflexivity]. apply N.eqb_eq in En. subst nsec.
    destruct (u32_in_range sec) as [n|] eqn:Eu; [|reflexivity]. apply u32_in_range_some in Eu as [Hr ->]. cbn [opt_eqb].
    rewrite encode_time_whole by lia. rewrite Z.mod_small by lia.
    rewrite num_of_put_int4 by lia. apply N.eqb_refl. }
  destruct (fit_kind (pf_t pf) =? kind_timelocal) eqn:K2.
  { destruct v; try discriminate. inversion H; subst p; clear H.
    cbn [time_sane] in Hts. rewrite K2 in Hts. unfold z_in in Hts. apply andb_true_iff in Hts as [Hlo Hhi].
    eexists. split; [reflexivity|]. destruct (nsec =? 0) eqn:En; [|reflexivity]. apply N.eqb_eq in En. subst nsec.
    set (off := match zone with Some o => o | None => 0%Z end).
    destruct (u32_in_range (sec + off)) as [n|] eqn:Eu; [|reflexivity]. apply u32_in_range_some in Eu as [Hr ->]. cbn [opt_eqb].
    unfold encode_time_local. fold off. rewrite encode_time_whole by lia.
    rewrite Z2N.id by (apply Z.mod_pos_bound; lia). rewrite Zplus_mod_idemp_l, Z.mod_small by lia.
    rewrite num_of_put_int4 by lia. apply N.eqb_refl. }
  destruct (fit_kind (pf_t pf) =? kind_lat) eqn:K3.
  { destruct v; try discriminate. inversion H; subst p; clear H.
    eexists. split; [reflexivity|]. cbn [opt_eqb]. rewrite num_of_put_int4 by apply (of_signed_lt 32). apply N.eqb_refl. }
  destruct (fit_kind (pf_t pf) =? kind_lng) eqn:K4; [|discriminate].
  destruct v; try discriminate. inversion H; subst p; clear H.
  eexists. split; [reflexivity|]. cbn [opt_eqb]. rewrite num_of_put_int4 by apply (of_signed_lt 32). apply N.eqb_refl.
Qed.

(* ---------------------------------------------------------------- fields *)
Lemma chunk_one (l : list N) : l <> [] -> chunk (List.length l) (List.length l) l = [l].
Proof.
  intros Hne. destruct l as [|a r]; [congruence|]. cbn [List.length chunk].
  change (firstn (S (List.length r)) (a :: r)) with (a :: firstn (List.length r) r).
  change (skipn (S (List.length r)) (a :: r)) with (skipn (List.length r) r).
  rewrite firstn_all, skipn_all. destruct (List.length r); reflexivity.
Qed.

Lemma bytes_eqb_refl l : bytes_eqb l l = true.
Proof. unfold bytes_eqb. destruct (list_eq_dec N.eq_dec l l); [reflexivity|congruence]. Qed.

Definition arr_short (v : goval) : bool := match v with VList l => N.of_nat (List.length l) <? 256 | _ => true end.

Lemma entry_ok2_parts gmn pf ty : entry_ok2 gmn pf = true -> field_type gmn (pf_sindex pf) = Some ty ->
  exists bs, b_size (fit_base (pf_t pf)) = Some bs /\ base_size_of (fit_base (pf_t pf)) = Some bs /\ 0 < bs /\
    (if fit_kind (pf_t pf) =? kind_native then
       (fit_base (pf_t pf) =? base_string) ||
       (if fit_array (pf_t pf) then
          native_ty (elem_type ty) &&
          match b_invalid (fit_base (pf_t pf)), invalid_type (fit_base (pf_t pf)) with
          | Some iv, Some ity => native_ty ity && val_has_type ity iv
          | _, _ => false
          end
        else native_ty ty)
     else negb (fit_array (pf_t pf)) && negb (fit_base (pf_t pf) =? base_string)) = true.
Proof.
  unfold entry_ok2. cbv zeta. intros H Hty. rewrite Hty in H. destruct (b_size _) as [bs|]; cbv beta iota in H; [|discriminate].
  apply andb_true_iff in H as [H H3]. apply andb_true_iff in H as [H1 H2].
  destruct (base_size_of _) as [x|]; [|discriminate]. cbn [opt_eq] in H1. apply N.eqb_eq in H1. subst x.
  apply N.ltb_lt in H2. exists bs. auto.
Qed.

Lemma scalar_field_matches be gmn pf ty v p :
  entry_ok gmn pf = true -> entry_ok2 gmn pf = true -> field_type gmn (pf_sindex pf) = Some ty ->
  fit_array (pf_t pf) = false ->
  val_has_type ty v = true -> time_sane pf v = true ->
  write_field be pf ty v = EOk p -> field_matches be pf (fit_base (pf_t pf)) p v = true.
Proof.
  intros Hok Hok2 Hty Ha Hv Hts H.
  pose proof (write_field_len _ _ _ _ _ _ Hok Hty H) as Hlen.
  destruct (entry_ok2_parts _ _ _ Hok2 Hty) as (bs & Ebs & Ebz & Hpos & Hk).
  unfold entry_ok in Hok. cbv zeta in Hok. rewrite Ebs, Hty, Ha in Hok.
  apply andb_true_iff in Hok as [_ Hok].
  unfold write_field in H. rewrite Ha in H. cbn [negb] in H. rewrite Ha in Hk.
  unfold field_matches. cbv zeta. rewrite N.eqb_refl. cbn [negb]. rewrite Ebz, Ha.
  destruct (fit_kind (pf_t pf) =? kind_native) eqn:Ekn.
  - rewrite (encode_value_native _ _ _ _ Ekn) in H.
    destruct (fit_base (pf_t pf) =? base_string) eqn:Es.
    + destruct v; try discriminate. unfold encode_string in H. destruct (pf_length pf =? 0); [discriminate|].
      destruct (utf8_valid _); [|discriminate]. inversion H; subst p. apply bytes_eqb_refl.
    + cbn [orb] in Hk, Hok. apply andb_true_iff in Hok as [Hs Hf]. apply N.eqb_eq in Hf. rewrite Hf in Hlen.
      destruct (scalar_size ty) as [s|] eqn:Ess; [|discriminate]. cbn [opt_eq] in Hs. apply N.eqb_eq in Hs. subst s.
      destruct (native_scalar_matches be pf ty v p bs Ekn Hk Ess Hv H) as (want & Hw & Hm).
      rewrite Hw. rewrite <- Hlen, Nat2N.id, chunk_one by (intros ->; cbn in Hlen; lia).
      cbn [map elems_match]. now rewrite Hm.
  - apply N.eqb_eq in Hok. rewrite Hok in Hlen.
    destruct (fit_base (pf_t pf) =? base_string) eqn:Es; [rewrite andb_false_r in Hk; discriminate|].
    destruct (other_scalar_matches be pf ty v p bs Ekn Hts H) as (want & Hw & Hm).
    rewrite Hw.
    assert (Hbs4 : bs = 4).
    { unfold fsize in Hok. rewrite Ebs, Es, Ha in Hok. unfold field_def_ok in *. 
      destruct (N.lt_ge_cases bs 256) as [Hlt|Hge]; [rewrite N.mod_small in Hok by exact Hlt; exact Hok|].
      exfalso. clear - Ebs Hge. unfold b_size, tbl in Ebs.
      assert (T : forallb (fun o => match o with Some s => s <? 256 | None => true end) Gen.BaseTables.base_size = true) by (vm_compute; reflexivity).
      rewrite forallb_forall in T.
      destruct (nth_in_or_default (N.to_nat (fit_base (pf_t pf))) Gen.BaseTables.base_size None) as [Hin|Hd]; [|rewrite Hd in Ebs; discriminate].
      apply T in Hin. rewrite Ebs in Hin. apply N.ltb_lt in Hin. lia. }
    subst bs. rewrite <- Hlen, Nat2N.id, chunk_one by (intros ->; cbn in Hlen; lia).
    cbn [map elems_match]. now rewrite Hm.
Qed.

(* ---------------------------------------------------------------- arrays *)
Lemma chunk_nil k fuel : chunk k fuel [] = [].
Proof. destruct fuel; reflexivity. Qed.

Lemma chunk_concat k : forall (qs : list (list N)) fuel, (0 < k)%nat -> Forall (fun q => List.length q = k) qs ->
  (List.length qs <= fuel)%nat -> chunk k fuel (List.concat qs) = qs.
Proof.
  induction qs as [|q qs IH]; intros fuel Hk Hq Hf; cbn [List.concat].
  - apply chunk_nil.
  - inversion Hq; subst. destruct fuel as [|f]; [cbn in Hf; lia|]. cbn [List.length] in Hf.
    destruct q as [|a q']; [cbn in Hk; lia|].
    change (chunk (List.length (a :: q')) (S f) ((a :: q') ++ List.concat qs))
      with (firstn (List.length (a :: q')) ((a :: q') ++ List.concat qs) :: chunk (List.length (a :: q')) f (skipn (List.length (a :: q')) ((a :: q') ++ List.concat qs))).
    rewrite firstn_len_app, skipn_len_app, IH; [reflexivity|assumption|assumption|lia].
Qed.

Lemma concat_length_eq k : forall (qs : list (list N)), Forall (fun q => List.length q = k) qs ->
  List.length (List.concat qs) = (List.length qs * k)%nat.
Proof. induction 1 as [|q qs Hq HF IH]; [reflexivity|]. cbn [List.concat List.length]. rewrite app_length, IH, Hq. lia. Qed.

Definition elem_ok (be : bool) (pf : pfield) (bs : N) (x : goval) (q : list N) : Prop :=
  List.length q = N.to_nat bs /\ exists w, scalar_num pf bs x = Some w /\ opt_eqb w (num_of be q) = true.

Lemma elems_chain be pf bs : forall xs qs, Forall2 (elem_ok be pf bs) xs qs ->
  exists want, all_some (map (scalar_num pf bs) xs) = Some want /\ elems_match want (map (num_of be) qs) = true.
Proof.
  induction 1 as [|x q xs qs (Hl & w & Hw & Hm) HF (want & Ha & He)].
  - exists []. split; reflexivity.
  - exists (w :: want). cbn [map all_some elems_match]. rewrite Hw, Ha, Hm, He. split; reflexivity.
Qed.

Lemma firstn_pad {A} (l : list A) iv L :
  firstn L (l ++ repeat iv L) = firstn (Nat.min L (List.length l)) l ++ repeat iv (L - Nat.min L (List.length l)).
Proof.
  rewrite firstn_app. destruct (Nat.le_gt_cases L (List.length l)) as [Hle|Hgt].
  - rewrite Nat.min_l by exact Hle. replace (L - List.length l)%nat with 0%nat by lia. rewrite Nat.sub_diag. reflexivity.
  - rewrite Nat.min_r by lia. rewrite (firstn_all2 l) by lia. rewrite firstn_all. f_equal.
    clear. assert (G : forall n m, (n <= m)%nat -> firstn n (repeat iv m) = repeat iv n).
    { induction n as [|n IH]; intros m Hm; [reflexivity|]. destruct m as [|m]; [lia|]. cbn [repeat firstn]. rewrite IH by lia. reflexivity. }
    apply G. lia.
Qed.

Lemma vht_slice t : forall l, val_has_type (TSlice t) (VList l) = true -> Forall (fun x => val_has_type t x = true) l.
Proof.
  induction l as [|x r IH]; intros H; [constructor|]. cbn [val_has_type] in H. apply andb_true_iff in H as [H1 H2].
  constructor; [exact H1|]. apply IH. exact H2.
Qed.

Lemma Forall_firstn {A} (Pp : A -> Prop) n : forall l, Forall Pp l -> Forall Pp (firstn n l).
Proof. induction n as [|n IH]; intros l H; [constructor|]. destruct l; [constructor|]. inversion H; subst. cbn [firstn]. constructor; auto. Qed.

Lemma Forall2_map_left {A B C} (R : B -> C -> Prop) (g : A -> B) : forall l l', Forall2 R (map g l) l' -> Forall2 (fun x y => R (g x) y) l l'.
Proof.
  induction l as [|x l IH]; intros l' H; inversion H; subst; constructor; auto.
Qed.

Lemma Forall2_repeat_left {B C} (R : B -> C -> Prop) (b : B) : forall n l', Forall2 R (repeat b n) l' -> Forall (R b) l' /\ List.length l' = n.
Proof.
  induction n as [|n IH]; intros l' H; inversion H as [|? ? ? ? Hhd Htl]; subst; [split; [constructor|reflexivity]|].
  destruct (IH _ Htl) as [G1 G2]. split; [constructor; assumption|cbn; now rewrite G2].
Qed.

Lemma Forall2_repeat_right {B C} (R : B -> C -> Prop) (b : B) : forall l', Forall (R b) l' -> Forall2 R (repeat b (List.length l')) l'.
Proof. induction 1; cbn [List.length repeat]; constructor; assumption. Qed.

Lemma array_field_matches be gmn pf ty v p :
  entry_ok gmn pf = true -> entry_ok2 gmn pf = true -> field_type gmn (pf_sindex pf) = Some ty ->
  fit_array (pf_t pf) = true ->
  val_has_type ty v = true -> arr_short v = true ->
  write_field be pf ty v = EOk p -> field_matches be pf (fit_base (pf_t pf)) p v = true.
Proof.
  intros Hok Hok2 Hty Ha Hv Hshort H.
  destruct (entry_ok2_parts _ _ _ Hok2 Hty) as (bs & Ebs & Ebz & Hpos & Hk).
  unfold entry_ok in Hok. cbv zeta in Hok. rewrite Ebs, Hty, Ha in Hok.
  apply andb_true_iff in Hok as [_ Hok]. apply andb_true_iff in Hok as [Ekn Hok]. rewrite Ekn, Ha in Hk.
  unfold write_field in H. cbv zeta in H. rewrite Ha in H. cbn [negb] in H.
  destruct (fit_base (pf_t pf) =? base_string) eqn:Es; [discriminate|]. cbn [orb] in Hok, Hk.
  apply andb_true_iff in Hok as [Hok Hinv]. apply andb_true_iff in Hok as [_ Hel].
  apply andb_true_iff in Hk as [Hne Hk].
  destruct (b_invalid (fit_base (pf_t pf))) as [iv|] eqn:Eiv; [|discriminate].
  destruct (invalid_type (fit_base (pf_t pf))) as [ity|] eqn:Eity; [|discriminate].
  apply andb_true_iff in Hk as [Hnity Hviv].
  destruct (scalar_size (elem_type ty)) as [s1|] eqn:Es1; [|discriminate]. cbn [opt_eq] in Hel. apply N.eqb_eq in Hel. subst s1.
  destruct (scalar_size ity) as [s2|] eqn:Es2; [|discriminate]. cbn [opt_eq] in Hinv. apply N.eqb_eq in Hinv. subst s2.
  unfold field_matches. cbv zeta. rewrite N.eqb_refl. cbn [negb]. rewrite Ebz, Es, Ha, Eiv.
  destruct (b_known _) as [kn|]; [|discriminate].
  assert (Hl : exists l, (match v with VList l => Some l | VNil => Some [] | _ => None end) = Some l /\
                         Forall (fun x => val_has_type (elem_type ty) x = true) l /\ N.of_nat (List.length l) < 256).
  { destruct ty; try discriminate. cbn [elem_type]. destruct v; try discriminate.
    - exists []. repeat split; constructor.
    - exists l. split; [reflexivity|]. split; [now apply vht_slice|]. cbn [arr_short] in Hshort. now apply N.ltb_lt. }
  destruct Hl as (l & El & Hvl & Hll). rewrite El in H |- *.
  rewrite (N.mod_small _ _ Hll) in H.
  set (L := pf_length pf) in *.
  set (mx := if L <? N.of_nat (List.length l) then L else N.of_nat (List.length l)) in *.
  assert (Hmx : N.to_nat mx = Nat.min (N.to_nat L) (List.length l)).
  { subst mx. destruct (L <? N.of_nat (List.length l)) eqn:E; [apply N.ltb_lt in E|apply N.ltb_ge in E]; lia. }
  assert (Hnp : N.to_nat (L - mx) = (N.to_nat L - Nat.min (N.to_nat L) (List.length l))%nat) by lia.
  rewrite firstn_pad, <- Hnp, <- Hmx.
  apply econcat_parts in H as (parts & HF & ->).
  apply Forall2_app_inv_l in HF as (parts1 & parts2 & HF1 & HF2 & ->).
  apply Forall2_map_left in HF1.
  assert (G1 : Forall2 (elem_ok be pf bs) (firstn (N.to_nat mx) l) parts1).
  { pose proof (Forall_firstn _ (N.to_nat mx) _ Hvl) as Hvf. clear - HF1 Hvf Ekn Es Hne Es1.
    induction HF1 as [|x q xs qs Hq HF IH]; [constructor|]. inversion Hvf; subst. constructor; [|now apply IH].
    rewrite (encode_value_native _ _ _ _ Ekn), Es in Hq. split.
    - apply (bw_len _ _ _ _ _ Es1) in Hq. lia.
    - eapply native_scalar_matches; eassumption. }
  assert (G2 : Forall2 (elem_ok be pf bs) (repeat iv (N.to_nat (L - mx))) parts2).
  { destruct (N.to_nat (L - mx)) as [|k] eqn:En.
    - inversion HF2. constructor.
    - destruct (negb kn); [inversion HF2; discriminate|].
      apply Forall2_repeat_left in HF2 as [HA HL]. rewrite <- HL. apply Forall2_repeat_right.
      eapply Forall_impl; [|exact HA]. intros q Hq. cbv beta in Hq.
      rewrite (encode_value_native _ _ _ _ Ekn), Es in Hq. split.
      + apply (bw_len _ _ _ _ _ Es2) in Hq. lia.
      + eapply native_scalar_matches; eassumption. }
  pose proof (Forall2_app G1 G2) as G.
  destruct (elems_chain _ _ _ _ _ G) as (want & Hw & Hm). rewrite Hw.
  assert (Hlens : Forall (fun q : list N => List.length q = N.to_nat bs) (parts1 ++ parts2)).
  { clear - G. induction G as [|x q xs qs [Hq _] HF IH]; constructor; assumption. }
  rewrite chunk_concat; [exact Hm|lia|exact Hlens|].
  rewrite (concat_length_eq _ _ Hlens). clear - Hpos. destruct (N.to_nat bs) eqn:E; [lia|]. nia.
Qed.

(* ---------------------------------------------------------------- records *)
Lemma find_msg_ok2 gmn m : find_msg gmn = Some m -> msg_ok2 m = true.
Proof.
  intros H. apply find_msg_in in H. pose proof profile_msgs_ok2 as T. rewrite forallb_forall in T. now apply T.
Qed.

Lemma find_unique {A} (l : list (N * A)) : nodup_n (map fst l) = true -> forall e, In e l -> find (fun x => fst x =? fst e) l = Some e.
Proof.
  induction l as [|a l IH]; intros Hn e Hin; [contradiction|]. cbn [map nodup_n] in Hn. apply andb_true_iff in Hn as [Ha Hn].
  cbn [find]. destruct Hin as [->|Hin]; [now rewrite N.eqb_refl|].
  destruct (fst a =? fst e) eqn:E; [|now apply IH].
  exfalso. apply N.eqb_eq in E. apply negb_true_iff in Ha. rewrite <- not_true_iff_false in Ha. apply Ha.
  apply existsb_exists. exists (fst e). split; [apply in_map; exact Hin|now apply N.eqb_eq].
Qed.

Lemma from_profile_get_field gmn pf : from_profile gmn pf ->
  get_field gmn (pf_num pf) = Some pf /\ entry_ok2 gmn pf = true.
Proof.
  intros (i & Hi). apply by_sindex_in in Hi as (md & e & _ & He & <- & Efm).
  pose proof (find_msg_ok2 _ _ Efm) as Hok2. pose proof (find_msg_num _ _ Efm) as Hnum.
  destruct (msg_ok_parts _ (find_msg_ok _ _ Efm)) as (_ & _ & _ & Hfst).
  unfold msg_ok2 in Hok2. apply andb_true_iff in Hok2 as [Hok2 Hnd]. apply andb_true_iff in Hok2 as [Hlen Hent].
  rewrite Hnum in Hlen, Hent. apply N.ltb_lt in Hlen. split.
  - unfold get_field. replace (fields_len <=? gmn) with false by (symmetry; apply N.leb_gt; exact Hlen).
    rewrite Efm, <- (Hfst e He), (find_unique _ Hnd e He). reflexivity.
  - rewrite forallb_forall in Hent. now apply Hent.
Qed.

Lemma vals_typed_nth : forall layout vals i nm ty v, vals_typed layout vals = true ->
  nth_error layout i = Some (nm, ty) -> nth_error vals i = Some v -> val_has_type ty v = true.
Proof.
  induction layout as [|[n0 t0] lr IH]; intros vals i nm ty v H Hl Hv; [destruct i; discriminate|].
  destruct vals as [|v0 vr]; [discriminate|]. cbn [vals_typed] in H. apply andb_true_iff in H as [H0 Hr].
  destruct i as [|i]; cbn [nth_error] in Hl, Hv.
  - inversion Hl; inversion Hv; subst. exact H0.
  - eapply IH; eassumption.
Qed.

(* what the comparison needs from the values: arrays shorter than 256 elements
   (writeField computes byte(value.Len())) and times within int64 nanoseconds of
   the FIT epoch (time.Sub saturates beyond) *)
Definition val_sane (v : goval) : bool :=
  match v with
  | VTime s _ _ => z_in (-9223372036) 9223372036 s
  | VList l => N.of_nat (List.length l) <? 256
  | _ => true
  end.
Definition msg_sane (m : msg) : bool := forallb val_sane (m_fields m).
Definition file_sane (f : file) : bool := forallb msg_sane (file_msgs f).

(* the field clause of record_matches *)
Definition fields_match (m : msg) (r : grec) : bool :=
  forallb (fun f =>
     let '(num, bt, raw) := f in
     match get_field (m_num m) num with
     | Some pf =>
         match nth_error (m_fields m) (pf_sindex pf) with
         | Some v => field_matches (gr_be r) pf bt raw v
         | None => false
         end
     | None => false
     end) (gr_fields r).

Lemma rec_fields_match be m r :
  rec_of be m r -> vals_typed (msg_layout (m_num m)) (m_fields m) = true -> msg_sane m = true ->
  gr_gmn r = m_num m /\ gr_be r = be /\ fields_match m r = true.
Proof.
  intros (fields & parts & Hfp & HF & ->) Hty Hsane. split; [reflexivity|]. split; [reflexivity|].
  unfold fields_match, grec_of. cbn [gr_fields gr_be].
  induction HF as [|pf p fields parts Hp HF IH]; [reflexivity|].
  inversion Hfp as [|? ? Hpf Hfp']; subst. cbn [combine map forallb fst snd]. rewrite (IH Hfp'), andb_true_r.
  destruct (from_profile_get_field _ _ Hpf) as [Hg Hok2]. rewrite Hg.
  pose proof (from_profile_entry_ok _ _ Hpf) as Hok.
  unfold field_out in Hp. destruct (nth_error (m_fields m) (pf_sindex pf)) as [v|] eqn:Ev; [|discriminate].
  destruct (field_type (m_num m) (pf_sindex pf)) as [ty|] eqn:Ety; [|discriminate].
  assert (Hv : val_has_type ty v = true).
  { unfold field_type in Ety. destruct (nth_error (msg_layout (m_num m)) (pf_sindex pf)) as [[nm t]|] eqn:El; [|discriminate].
    inversion Ety; subst t. eapply vals_typed_nth; eassumption. }
  assert (Hvs : val_sane v = true).
  { unfold msg_sane in Hsane. rewrite forallb_forall in Hsane. apply Hsane. eapply nth_error_In; eassumption. }
  destruct (fit_array (pf_t pf)) eqn:Ea.
  - eapply array_field_matches; try eassumption. destruct v; try reflexivity. exact Hvs.
  - eapply scalar_field_matches; try eassumption. unfold time_sane. destruct v; try reflexivity.
    destruct (fit_kind _ =? kind_timelocal); [exact Hvs|reflexivity].
Qed.

Lemma slots_wf_typed : forall descs i slots, slots_wf i descs slots = true ->
  Forall (fun m => vals_typed (msg_layout (m_num m)) (m_fields m) = true) (visible i slots).
Proof.
  induction descs as [|[[nm multi] mn] dr IH]; intros i slots H.
  - destruct slots; [constructor|discriminate].
  - destruct slots as [|s sr]; [discriminate|]. cbn [slots_wf] in H. cbn [visible].
    apply andb_true_iff in H as [H Hrest]. apply andb_true_iff in H as [H _]. apply andb_true_iff in H as [Hmsgs _].
    apply Forall_app. split; [|now apply IH].
    destruct (Nat.eqb i 3 || Nat.eqb i 4); [constructor|].
    apply Forall_forall. intros m Hin. rewrite forallb_forall in Hmsgs. apply Hmsgs in Hin.
    unfold msg_wf in Hin. apply andb_true_iff in Hin as [Hn Ht]. apply N.eqb_eq in Hn. now rewrite Hn.
Qed.

(* C05, values: every field of every record on the wire matches the struct field of the File *)
Theorem encode_wire_fields f be bs f' :
  wf_file f = true -> wf_header (f_header f) = true -> file_sane f = true ->
  encode f be = EOk (bs, f') -> N.of_nat (List.length bs) < 4294967296 ->
  exists recs, grammar bs = Some recs /\
    Forall2 (fun m r => gr_gmn r = m_num m /\ gr_be r = be /\ fields_match m r = true) (file_msgs f) recs.
Proof.
  intros Hwf Hh Hsane Henc Hlen.
  destruct (encode_grammar f be bs f' Hwf Hh Henc Hlen) as (recs & Hg & HF).
  exists recs. split; [exact Hg|].
  assert (Hty : Forall (fun m => vals_typed (msg_layout (m_num m)) (m_fields m) = true) (file_msgs f)).
  { unfold wf_file in Hwf. destruct (f_inited f) as [ft|]; [|discriminate]. apply andb_true_iff in Hwf as [_ Hwf].
    destruct (ft_entry ft) as [[[ok cn] descs]|]; [|discriminate]. destruct ok; [|discriminate].
    unfold file_msgs. rewrite <- visible_0. eapply slots_wf_typed; eassumption. }
  unfold file_sane in Hsane. rewrite forallb_forall in Hsane.
  remember (file_msgs f) as msgs eqn:Emsgs. clear Emsgs Hg.
  revert Hty Hsane. induction HF as [|m r ms rs Hr HF IH]; intros Hty Hsane; [constructor|].
  inversion Hty; subst. constructor.
  - apply (rec_fields_match be m r Hr); [assumption|]. apply Hsane. now left.
  - apply IH; [assumption|]. intros x Hx. apply Hsane. now right.
Qed.

(* FULL STATEMENT (refuted without file_sane): an array of 256 elements is written as all-invalid,
   because writeField computes byte(value.Len()) *)
Theorem encode_wire_array256_refuted :
  exists be pf ty v p, write_field be pf ty v = EOk p /\ val_has_type ty v = true /\
    field_matches be pf (fit_base (pf_t pf)) p v = false.
Proof.
  exists false, (mk_pfield 0 0 (N.lor 0x20 0x02) 2), (TSlice (TU 8)), (VList (repeat (VU 1) 256)).
  eexists. split; [vm_compute; reflexivity|]. split; vm_compute; reflexivity.
Qed.
