(* C07, value equality between two generations.
   Generation 1 is a File f1 (typically one that Decode returned: arrays may be longer than the
   profile length, strings longer than the profile length - 1); generation 2 is Decode (Encode f1).

     1. Encode cuts arrays to the profile length and strings to length - 1 exactly as trunc_msg of
        Spec/RoundTrip.v does: Encode f1 and Encode (trunc_file f1) write the same bytes
        (encode_trunc), under two side conditions:
          - arrays_short: every array holds fewer than 256 elements (writeField computes
            byte(value.Len()), C05Wire.encode_wire_array256_refuted);
          - len1_strings_empty: a string held in a field whose profile length is below 2 is
            empty.  Six string fields of the profile have length 1; for them Encode writes one 0
            byte for any non-empty string (the field is in the definition), whereas the truncated
            value "" is skipped: the bytes differ (len1_string_differs).
     2. trunc_file f1 is again a wf_file with the same header, so the C06 round trip applies to it
        as soon as it is in the C06 domain (generations_eq, generations_eq_decoded). *)
From Coq Require Import NArith ZArith List Bool Lia String.
From Coq Require Import ZifyN ZifyNat ZifyBool.
From FitV Require Import Model.Values Model.Bytes Model.Base Model.Profile Model.Reflect Model.Components Model.Route
  Model.Crc Model.Header Model.IO Model.Decode Model.Encode Spec.Grammar Spec.RoundTrip Spec.RouteSpec
  Proofs.Util Proofs.EncodeProofs Proofs.C05Grammar Proofs.C05Wire Proofs.C05Complete Proofs.C06Denote Proofs.C06Route
  Proofs.C06RoundTrip Proofs.C07Reencode Proofs.C07DecodeWf Proofs.C07Integrity Proofs.EncExamples
  Gen.Consts Gen.ProfileData Gen.RoutingData.
Import ListNotations.
Local Open Scope N_scope.
Ltac Zify.zify_post_hook ::= Z.div_mod_to_equations.

(* ================================================================ 1. definitions *)
Definition trunc_file (f : file) : file :=
  mk_file (f_header f) (f_crc f) (map (map trunc_msg) (f_slots f)) (f_inited f) (f_unkm f) (f_unkf f).

(* a check of every struct field value against the profile entry that owns it *)
Fixpoint fields_chk (chk : pfield -> goval -> bool) (gmn : N) (i : nat) (vals : list goval) : bool :=
  match vals with
  | [] => true
  | v :: r => (match pfield_of_sindex gmn i with Some pf => chk pf v | None => true end) && fields_chk chk gmn (S i) r
  end.

(* a string held in a field whose profile length is below 2 is empty *)
Definition len1_ok (pf : pfield) (v : goval) : bool :=
  match v with VStr (_ :: _) => negb (pf_length pf <? 2) | _ => true end.
Definition msg_len1_ok (m : msg) : bool := fields_chk len1_ok (m_num m) 0 (m_fields m).
Definition len1_strings_empty (f : file) : bool := forallb msg_len1_ok (file_msgs f).

(* every array holds fewer than 256 elements (the array part of C05Wire.file_sane) *)
Definition msg_arrays_short (m : msg) : bool := forallb arr_short (m_fields m).
Definition arrays_short (f : file) : bool := forallb msg_arrays_short (file_msgs f).

Lemma val_sane_arr_short v : val_sane v = true -> arr_short v = true.
Proof. destruct v; cbn [val_sane arr_short]; auto. Qed.

Lemma file_sane_arrays_short f : file_sane f = true -> arrays_short f = true.
Proof.
  unfold file_sane, arrays_short. intros H. rewrite forallb_forall in H. apply forallb_forall. intros m Hm.
  specialize (H m Hm). unfold msg_sane in H. unfold msg_arrays_short. rewrite forallb_forall in H. apply forallb_forall.
  intros v Hv. apply val_sane_arr_short. now apply H.
Qed.

(* ================================================================ 2. lists *)
Lemma map_fields_length f gmn : forall l k, List.length (map_fields f gmn k l) = List.length l.
Proof. induction l as [|v r IH]; intros k; cbn [map_fields List.length]; [reflexivity|now rewrite IH]. Qed.

Lemma map_fields_nth_error f gmn : forall l k i,
  nth_error (map_fields f gmn k l) i =
  match nth_error l i with
  | Some v => Some (match pfield_of_sindex gmn (k + i) with Some pf => f pf v | None => v end)
  | None => None
  end.
Proof.
  induction l as [|v r IH]; intros k i; destruct i as [|i]; cbn [map_fields nth_error]; try reflexivity.
  - now rewrite Nat.add_0_r.
  - rewrite IH. replace (S k + i)%nat with (k + S i)%nat by lia. reflexivity.
Qed.

Lemma forallb_firstn {A} (p : A -> bool) n : forall l, forallb p l = true -> forallb p (firstn n l) = true.
Proof.
  induction n as [|n IH]; intros l H; [reflexivity|]. destruct l as [|x r]; [reflexivity|].
  cbn [firstn forallb] in *. apply andb_true_iff in H as [H1 H2]. rewrite H1. now apply IH.
Qed.

(* ================================================================ 3. finite checks over the generated profile *)
Definition entry_arr_pos (pf : pfield) : bool := if fit_array (pf_t pf) then 0 <? pf_length pf else true.
Lemma profile_arrays_pos : forallb (fun m => forallb (fun e => entry_arr_pos (snd e)) (md_entries m)) messages = true.
Proof. vm_compute. reflexivity. Qed.

Definition inv_ok (iv : goval) : bool := match iv with VStr (_ :: _) => false | _ => true end.
Lemma profile_inv_strings : forallb (fun m => forallb inv_ok (md_invalid m)) messages = true.
Proof. vm_compute. reflexivity. Qed.

Lemma from_profile_arr_pos gmn pf : from_profile gmn pf -> fit_array (pf_t pf) = true -> 0 < pf_length pf.
Proof.
  intros (i & Hi) Ha. apply by_sindex_in in Hi as (md & e & Hm & He & <- & _).
  pose proof profile_arrays_pos as T. rewrite forallb_forall in T. specialize (T md Hm).
  rewrite forallb_forall in T. specialize (T e He). unfold entry_arr_pos in T. rewrite Ha in T. now apply N.ltb_lt in T.
Qed.

Lemma all_invalid_inv_ok gmn inv : mesg_all_invalid gmn = Some inv -> forallb inv_ok (m_fields inv) = true.
Proof.
  intros H. apply mesg_all_invalid_eq in H as (md & Ef & ->). cbn [m_fields].
  apply find_msg_in in Ef. pose proof profile_inv_strings as T. rewrite forallb_forall in T. now apply T.
Qed.

(* ================================================================ 4. one field *)
Lemma encode_string_trunc s L : encode_string (firstn (N.to_nat L - 1) s) L = encode_string s L.
Proof.
  unfold encode_string. destruct (L =? 0); [reflexivity|]. cbv zeta.
  set (k := (N.to_nat L - 1)%nat). rewrite firstn_length.
  replace (Nat.min (Nat.min k (List.length s)) k) with (Nat.min (List.length s) k) by lia.
  rewrite firstn_firstn.
  replace (Nat.min (Nat.min (List.length s) k) k) with (Nat.min (List.length s) k) by lia. reflexivity.
Qed.

Lemma write_field_trunc be pf ty v : arr_short v = true ->
  write_field be pf ty (trunc_field pf v) = write_field be pf ty v.
Proof.
  intros Hs. unfold trunc_field. cbv zeta. destruct (fit_array (pf_t pf)) eqn:Ea.
  - destruct v as [| | | | | | | |l|]; try reflexivity. unfold write_field. cbv zeta. rewrite Ea. cbn [negb].
    destruct (fit_base (pf_t pf) =? base_string); [reflexivity|]. destruct (b_known _) as [kn|]; [|reflexivity].
    cbn [arr_short] in Hs. apply N.ltb_lt in Hs. rewrite firstn_length.
    set (L := pf_length pf) in *. set (n := List.length l) in *.
    assert (E1 : N.of_nat (Nat.min (N.to_nat L) n) mod 256 = N.of_nat (Nat.min (N.to_nat L) n)) by (apply N.mod_small; lia).
    assert (E2 : N.of_nat n mod 256 = N.of_nat n) by (apply N.mod_small; lia).
    rewrite E1, E2.
    assert (Hmx : (if L <? N.of_nat (Nat.min (N.to_nat L) n) then L else N.of_nat (Nat.min (N.to_nat L) n)) =
                  (if L <? N.of_nat n then L else N.of_nat n)).
    { destruct (L <? N.of_nat (Nat.min (N.to_nat L) n)) eqn:E3; destruct (L <? N.of_nat n) eqn:E4; lia. }
    rewrite Hmx. set (mx := if L <? N.of_nat n then L else N.of_nat n).
    assert (Hle : mx <= L) by (subst mx; destruct (L <? N.of_nat n) eqn:E4; lia).
    rewrite firstn_firstn. replace (Nat.min (N.to_nat mx) (N.to_nat L)) with (N.to_nat mx) by lia. reflexivity.
  - destruct (fit_base (pf_t pf) =? base_string) eqn:Es; [|reflexivity].
    destruct v as [| | |s| | | | | |]; try reflexivity. unfold write_field. cbv zeta. rewrite Ea. cbn [negb].
    unfold encode_value. cbv zeta. rewrite Es.
    destruct (fit_kind (pf_t pf) =? kind_timeutc); [reflexivity|].
    destruct (fit_kind (pf_t pf) =? kind_timelocal); [reflexivity|].
    destruct (fit_kind (pf_t pf) =? kind_lat); [reflexivity|].
    destruct (fit_kind (pf_t pf) =? kind_lng); [reflexivity|].
    destruct (fit_kind (pf_t pf) =? kind_native); [|reflexivity].
    apply encode_string_trunc.
Qed.

(* ================================================================ 5. one message *)
(* getEncodeMesgDef selects the same fields *)
Lemma def_fields_trunc gmn : forall vals invs i,
  fields_chk len1_ok gmn i vals = true -> forallb inv_ok invs = true ->
  def_fields gmn i (map_fields trunc_field gmn i vals) invs = def_fields gmn i vals invs.
Proof.
  induction vals as [|v vr IH]; intros invs i H Hinv; [reflexivity|].
  destruct invs as [|iv ir]; [reflexivity|].
  cbn [fields_chk] in H. apply andb_true_iff in H as [Hv Hr].
  cbn [forallb] in Hinv. apply andb_true_iff in Hinv as [Hiv Hir].
  cbn [map_fields def_fields]. rewrite (IH ir (S i) Hr Hir).
  destruct (pfield_of_sindex gmn i) as [pf|] eqn:Ep; [|reflexivity].
  pose proof (pfs_by _ _ _ Ep) as [Hg _]. pose proof (pfs_from _ _ _ Ep) as Hfp. rewrite Hg.
  unfold trunc_field. cbv zeta. destruct (fit_array (pf_t pf)) eqn:Ea.
  - destruct v as [| | | | | | | |l|]; try reflexivity.
    destruct (b_known (fit_base (pf_t pf))); [|reflexivity].
    destruct l as [|x l]; [now rewrite firstn_nil|].
    pose proof (from_profile_arr_pos _ _ Hfp Ea) as Hpos.
    destruct (N.to_nat (pf_length pf)) as [|k] eqn:EL; [lia|]. reflexivity.
  - destruct (fit_base (pf_t pf) =? base_string) eqn:Es; [|reflexivity].
    destruct v as [| | |s| | | | | |]; try reflexivity.
    replace (goval_eqb (VStr (firstn (N.to_nat (pf_length pf) - 1) s)) iv) with (goval_eqb (VStr s) iv); [reflexivity|].
    destruct iv as [| | |t| | | | | |]; try reflexivity.
    destruct t as [|b t]; [|discriminate Hiv].
    destruct s as [|c s]; [now rewrite firstn_nil|].
    cbn [len1_ok] in Hv. apply negb_true_iff in Hv. apply N.ltb_ge in Hv.
    destruct (N.to_nat (pf_length pf) - 1)%nat as [|k] eqn:EL; [lia|].
    cbn [firstn goval_eqb]. destruct (list_eq_dec N.eq_dec (c :: s) []); [discriminate|].
    destruct (list_eq_dec N.eq_dec (c :: firstn k s) []); [discriminate|]. reflexivity.
Qed.

Lemma get_encode_mesg_def_trunc m : msg_len1_ok m = true ->
  get_encode_mesg_def (trunc_msg m) = get_encode_mesg_def m.
Proof.
  intros H. unfold get_encode_mesg_def, trunc_msg. cbn [m_num m_fields].
  destruct (mesg_all_invalid (m_num m)) as [inv|] eqn:Ei; [|reflexivity].
  rewrite map_fields_length. destruct (negb _); [reflexivity|].
  apply def_fields_trunc; [exact H|]. eapply all_invalid_inv_ok; eassumption.
Qed.

(* writeMesg writes the same bytes *)
Lemma write_mesg_trunc be m fields : Forall (from_profile (m_num m)) fields -> msg_arrays_short m = true ->
  write_mesg be (trunc_msg m) fields = write_mesg be m fields.
Proof.
  intros Hfp Hs. unfold write_mesg. f_equal. f_equal. apply map_ext_in. intros pf Hin.
  rewrite Forall_forall in Hfp. pose proof (from_profile_sindex _ _ (Hfp pf Hin)) as Hp.
  unfold trunc_msg. cbn [m_num m_fields]. rewrite map_fields_nth_error. cbn [Nat.add]. rewrite Hp.
  destruct (nth_error (m_fields m) (pf_sindex pf)) as [v|] eqn:En; [|reflexivity].
  destruct (field_type (m_num m) (pf_sindex pf)) as [ty|]; [|reflexivity].
  apply write_field_trunc. unfold msg_arrays_short in Hs. rewrite forallb_forall in Hs. apply Hs.
  eapply nth_error_In; eassumption.
Qed.

Definition msg_cond (m : msg) : Prop := msg_len1_ok m = true /\ msg_arrays_short m = true.

Lemma encode_def_and_data_trunc be m : msg_cond m -> encode_def_and_data be (trunc_msg m) = encode_def_and_data be m.
Proof.
  intros [H1 H2]. unfold encode_def_and_data. rewrite (get_encode_mesg_def_trunc m H1).
  destruct (get_encode_mesg_def m) as [fs| |] eqn:E; cbn [ebind]; try reflexivity.
  change (m_num (trunc_msg m)) with (m_num m).
  rewrite (write_mesg_trunc be m fs (get_def_from _ _ E) H2). reflexivity.
Qed.

(* ================================================================ 6. slots *)
Lemma collect_fields_trunc : forall ms acc, Forall msg_cond ms ->
  collect_fields (map trunc_msg ms) acc = collect_fields ms acc.
Proof.
  induction ms as [|m r IH]; intros acc H; [reflexivity|]. inversion H as [|? ? [H1 _] Hr]; subst.
  cbn [map collect_fields]. rewrite (get_encode_mesg_def_trunc m H1).
  destruct (get_encode_mesg_def m); cbn [ebind]; auto.
Qed.

Lemma last_trunc_num : forall ms d, m_num (last (map trunc_msg ms) d) = m_num (last ms d).
Proof.
  induction ms as [|m r IH]; intros d; [reflexivity|]. destruct r as [|m2 r2]; [reflexivity|].
  change (last (map trunc_msg (m :: m2 :: r2)) d) with (last (map trunc_msg (m2 :: r2)) d).
  change (last (m :: m2 :: r2) d) with (last (m2 :: r2) d). apply IH.
Qed.

Definition slice_body (be : bool) (ms : list msg) : eres (list N) :=
  ebind (collect_fields ms []) (fun fields =>
  ebind (write_def_mesg be (m_num (last ms (mk_msg 0 []))) fields) (fun d =>
  ebind (econcat (map (fun m => write_mesg be m fields) ms)) (fun body => EOk (d ++ body)))).

Lemma encode_slice_body be ms : ms <> [] -> encode_slice be ms = slice_body be ms.
Proof. destruct ms; [congruence|reflexivity]. Qed.

Lemma encode_slice_trunc be mn ms : Forall (fun m => m_num m = mn) ms -> Forall msg_cond ms ->
  encode_slice be (map trunc_msg ms) = encode_slice be ms.
Proof.
  intros Hm Hc. destruct ms as [|m0 mr] eqn:Ems; [reflexivity|]. rewrite <- Ems in *.
  assert (Hne : ms <> []) by (rewrite Ems; discriminate).
  assert (Hne' : map trunc_msg ms <> []) by (rewrite Ems; discriminate).
  rewrite (encode_slice_body be _ Hne), (encode_slice_body be _ Hne'). unfold slice_body.
  rewrite (collect_fields_trunc ms [] Hc), last_trunc_num.
  destruct (collect_fields ms []) as [fs| |] eqn:Ec; cbn [ebind]; try reflexivity.
  destruct (write_def_mesg be _ fs); cbn [ebind]; try reflexivity.
  destruct (collect_fields_inv mn ms [] fs Hm (Forall_nil _) I Ec) as [Hfp _].
  f_equal. f_equal. rewrite map_map. apply map_ext_in. intros m Hin.
  rewrite Forall_forall in Hm, Hc. destruct (Hc m Hin) as [_ H2]. apply write_mesg_trunc; [|exact H2].
  now rewrite (Hm m Hin).
Qed.

Lemma encode_slot_trunc be multi mn ms : Forall (fun m => m_num m = mn) ms -> Forall msg_cond ms ->
  encode_slot be multi (map trunc_msg ms) = encode_slot be multi ms.
Proof.
  intros Hm Hc. unfold encode_slot. destruct multi; [now apply (encode_slice_trunc be mn)|].
  f_equal. rewrite map_map. apply map_ext_in. intros m Hin. rewrite Forall_forall in Hc.
  apply encode_def_and_data_trunc. now apply Hc.
Qed.

Lemma encode_slots_trunc be : forall descs i slots,
  slots_wf i descs slots = true -> Forall msg_cond (visible i slots) ->
  encode_slots be i descs (map (map trunc_msg) slots) = encode_slots be i descs slots.
Proof.
  induction descs as [|[[nm multi] mn] dr IH]; intros i slots Hwf Hc; [reflexivity|].
  destruct slots as [|s sr]; [reflexivity|]. cbn [slots_wf] in Hwf. cbn [visible] in Hc.
  apply andb_true_iff in Hwf as [Hwf Hrest]. apply andb_true_iff in Hwf as [Hwf _]. apply andb_true_iff in Hwf as [Hmsgs _].
  apply Forall_app in Hc as [Hc1 Hc2].
  cbn [map encode_slots]. rewrite (IH (S i) sr Hrest Hc2).
  destruct (Nat.eqb i 3 || Nat.eqb i 4); [reflexivity|].
  rewrite (encode_slot_trunc be multi mn s (msgs_wf_num _ _ Hmsgs) Hc1). reflexivity.
Qed.

(* ================================================================ 7. the File *)
Lemma uval_trunc_field pf v : uval (trunc_field pf v) = uval v.
Proof.
  unfold trunc_field. cbv zeta. destruct (fit_array (pf_t pf)); [now destruct v|].
  destruct (fit_base (pf_t pf) =? base_string); [now destruct v|reflexivity].
Qed.

Lemma uval_nth_trunc gmn : forall l k i,
  uval (nth i (map_fields trunc_field gmn k l) VOther) = uval (nth i l VOther).
Proof.
  induction l as [|v r IH]; intros k i; destruct i as [|i]; cbn [map_fields nth]; try reflexivity.
  - destruct (pfield_of_sindex gmn k); [apply uval_trunc_field|reflexivity].
  - apply IH.
Qed.

(* FileId.Type is a scalar: truncation does not move it *)
Lemma file_type_trunc f : file_type (trunc_file f) = file_type f.
Proof.
  unfold file_type, trunc_file. cbn [f_slots]. destruct (f_slots f) as [|s0 sr]; [reflexivity|].
  cbn [map nth]. destruct s0 as [|m r]; [reflexivity|]. cbn [map].
  unfold fld, trunc_msg. cbn [m_num m_fields]. destruct (sindex_of (m_num m) "Type"); [|reflexivity].
  apply uval_nth_trunc.
Qed.

Lemma trunc_file_header f : f_header (trunc_file f) = f_header f.
Proof. reflexivity. Qed.
Lemma trunc_file_inited f : f_inited (trunc_file f) = f_inited f.
Proof. reflexivity. Qed.
Lemma trunc_file_slots f : f_slots (trunc_file f) = map (map trunc_msg) (f_slots f).
Proof. reflexivity. Qed.

Lemma file_msgs_cond f : len1_strings_empty f = true -> arrays_short f = true -> Forall msg_cond (visible 0 (f_slots f)).
Proof.
  unfold len1_strings_empty, arrays_short, file_msgs. rewrite <- visible_0. intros H1 H2.
  rewrite forallb_forall in H1, H2. apply Forall_forall. intros m Hm. split; auto.
Qed.

(* Encode writes the same bytes for f and for trunc_file f *)
Theorem encode_trunc f be bs f' :
  wf_file f = true -> len1_strings_empty f = true -> arrays_short f = true ->
  encode f be = EOk (bs, f') -> exists f'', encode (trunc_file f) be = EOk (bs, f'').
Proof.
  intros Hwf H1 H2. unfold encode. rewrite file_type_trunc, trunc_file_header, trunc_file_inited, trunc_file_slots.
  unfold wf_file in Hwf. destruct (f_inited f) as [ft|]; [|discriminate].
  apply andb_true_iff in Hwf as [Eft Hwf]. apply N.eqb_eq in Eft. subst ft.
  destruct (ft_entry (file_type f)) as [[[ok cn] descs]|]; [|discriminate]. destruct ok; [|discriminate].
  destruct (negb (file_type f =? file_type f)); [discriminate|].
  rewrite (encode_slots_trunc be descs 0 (f_slots f) Hwf (file_msgs_cond f H1 H2)).
  destruct (encode_slots be 0 descs (f_slots f)) as [data| |]; cbn [ebind]; try discriminate.
  destruct (header_marshal _) as [hdr hcrc]. intros H. injection H as Hbs _. rewrite Hbs. eexists. reflexivity.
Qed.

(* ---------------------------------------------------------------- trunc_file f is well formed *)
Lemma val_has_type_trunc ty pf v : val_has_type ty v = true -> val_has_type ty (trunc_field pf v) = true.
Proof.
  intros H. unfold trunc_field. cbv zeta. destruct (fit_array (pf_t pf)).
  - destruct v as [| | | | | | | |l|]; try exact H. destruct ty; try discriminate H.
    rewrite slice_typed in H |- *. now apply forallb_firstn.
  - destruct (fit_base (pf_t pf) =? base_string); [|exact H].
    destruct v as [| | |s| | | | | |]; try exact H. destruct ty; try discriminate H.
    cbn [val_has_type] in H |- *. now apply forallb_firstn.
Qed.

Lemma vals_typed_trunc gmn : forall layout vals k, vals_typed layout vals = true ->
  vals_typed layout (map_fields trunc_field gmn k vals) = true.
Proof.
  induction layout as [|[nm ty] lr IH]; intros vals k H; destruct vals as [|v vr]; try discriminate H; [reflexivity|].
  cbn [vals_typed] in H. apply andb_true_iff in H as [H0 Hr]. cbn [map_fields vals_typed].
  rewrite (IH vr (S k) Hr), andb_true_r.
  destruct (pfield_of_sindex gmn k); [now apply val_has_type_trunc|exact H0].
Qed.

Lemma msg_wf_trunc mn m : msg_wf mn m = true -> msg_wf mn (trunc_msg m) = true.
Proof.
  unfold msg_wf, trunc_msg. cbn [m_num m_fields]. intros H. apply andb_true_iff in H as [Hn Ht].
  rewrite Hn. cbn [andb]. now apply vals_typed_trunc.
Qed.

Lemma slots_wf_trunc : forall descs i slots, slots_wf i descs slots = true ->
  slots_wf i descs (map (map trunc_msg) slots) = true.
Proof.
  induction descs as [|[[nm multi] mn] dr IH]; intros i slots H; destruct slots as [|s sr]; try discriminate H; [reflexivity|].
  cbn [slots_wf] in H. apply andb_true_iff in H as [H Hrest]. apply andb_true_iff in H as [H H3]. apply andb_true_iff in H as [H1 H2].
  cbn [map slots_wf]. rewrite map_length, H2, H3, (IH (S i) sr Hrest), !andb_true_r.
  rewrite forallb_forall in H1. apply forallb_forall. intros m' Hin. apply in_map_iff in Hin as (m & <- & Hin).
  apply msg_wf_trunc. now apply H1.
Qed.

Theorem wf_file_trunc f : wf_file f = true -> wf_file (trunc_file f) = true.
Proof.
  unfold wf_file. rewrite file_type_trunc, trunc_file_inited, trunc_file_slots.
  destruct (f_inited f) as [ft|]; [|discriminate]. intros H. apply andb_true_iff in H as [H1 H2]. rewrite H1. cbn [andb].
  destruct (ft_entry ft) as [[[ok cn] descs]|]; [|discriminate]. destruct ok; [|discriminate]. now apply slots_wf_trunc.
Qed.

(* ================================================================ 8. two generations *)
(* C07, values: Decode of what Encode wrote for f1 returns the content of trunc_file f1 (f1 with every
   array cut to its profile length and every string to length - 1), compared as C06 compares. *)
Theorem generations_eq f1 be bs f1' o g rd fuel extra :
  wf_file f1 = true -> wf_header (f_header f1) = true ->
  proto_ok (h_proto (f_header f1)) = true -> h_profile (f_header f1) < 65536 ->
  len1_strings_empty f1 = true -> arrays_short f1 = true ->
  in_domain (trunc_file f1) = true -> ginv g ->
  encode f1 be = EOk (bs, f1') -> N.of_nat (List.length bs) < 4294967296 ->
  rd_data rd = bs ++ extra -> (List.length (rd_data rd) + List.length (rd_sched rd) < fuel)%nat ->
  exists rd' f2 g' q h,
    entry_Decode o g rd fuel = TDone (mk_dres None h (Some f2) rd' g' q) /\
    content_eq6 (trunc_file f1) f2 = true /\ ginv g' /\
    rd_data rd' = extra /\ rd_pos rd' = (rd_pos rd + List.length bs)%nat.
Proof.
  intros Hwf Hh Hpo Hpr H1 H2 Hdom Hg Henc Hlen Hrd Hfuel.
  destruct (encode_trunc f1 be bs f1' Hwf H1 H2 Henc) as (f'' & Henc').
  destruct (roundtrip (trunc_file f1) be bs f'' o g rd fuel extra (wf_file_trunc f1 Hwf) Hh Hpo Hpr Hdom Hg Henc' Hlen Hrd Hfuel)
    as (rd' & f2 & g' & q & Hdec & Hc & Hg' & Hd & Hp).
  exists rd', f2, g', q. eexists. split; [exact Hdec|]. auto.
Qed.

(* with file_sane of C05Wire in place of arrays_short *)
Corollary generations_eq_sane f1 be bs f1' o g rd fuel extra :
  wf_file f1 = true -> wf_header (f_header f1) = true ->
  proto_ok (h_proto (f_header f1)) = true -> h_profile (f_header f1) < 65536 ->
  len1_strings_empty f1 = true -> file_sane f1 = true ->
  in_domain (trunc_file f1) = true -> ginv g ->
  encode f1 be = EOk (bs, f1') -> N.of_nat (List.length bs) < 4294967296 ->
  rd_data rd = bs ++ extra -> (List.length (rd_data rd) + List.length (rd_sched rd) < fuel)%nat ->
  exists rd' f2 g' q h,
    entry_Decode o g rd fuel = TDone (mk_dres None h (Some f2) rd' g' q) /\
    content_eq6 (trunc_file f1) f2 = true /\ ginv g' /\
    rd_data rd' = extra /\ rd_pos rd' = (rd_pos rd + List.length bs)%nat.
Proof. intros Hwf Hh Hpo Hpr H1 H2. apply generations_eq; auto using file_sane_arrays_short. Qed.

(* generation 1 is a File Decode returned (FileId.Type still naming its container): well-formedness and
   the header conditions come from the decoder (C07DecodeWf.decode_wf, C07Integrity.decode_file_header) *)
Corollary generations_eq_decoded o0 g0 rd0 fuel0 h0 f1 rd0' g0' q0 be bs f1' o g rd fuel extra :
  Forall (fun b => b < 256) (rd_data rd0) ->
  entry_Decode o0 g0 rd0 fuel0 = TDone (mk_dres None h0 (Some f1) rd0' g0' q0) ->
  f_inited f1 = Some (file_type f1) ->
  len1_strings_empty f1 = true -> arrays_short f1 = true ->
  in_domain (trunc_file f1) = true -> ginv g ->
  encode f1 be = EOk (bs, f1') -> N.of_nat (List.length bs) < 4294967296 ->
  rd_data rd = bs ++ extra -> (List.length (rd_data rd) + List.length (rd_sched rd) < fuel)%nat ->
  exists rd' f2 g' q h,
    entry_Decode o g rd fuel = TDone (mk_dres None h (Some f2) rd' g' q) /\
    content_eq6 (trunc_file f1) f2 = true /\ ginv g' /\
    rd_data rd' = extra /\ rd_pos rd' = (rd_pos rd + List.length bs)%nat.
Proof.
  intros Hb Hd Hi H1 H2 Hdom Hg Henc Hlen Hrd Hfuel.
  destruct (decode_file_header _ _ _ _ _ _ _ _ _ Hb Hd) as (Hh & Hwh & Hpo & Hpr).
  assert (Hwf : wf_file f1 = true) by (eapply decode_wf; [exact Hb|exact Hd|exact Hi|reflexivity]).
  rewrite <- Hh in Hwh, Hpo, Hpr.
  eapply generations_eq; eassumption.
Qed.

(* ================================================================ 9. examples *)
(* the activity File of Proofs/EncExamples.v with a product name of 25 bytes (profile length 20) and,
   in both records, a speed_1s array of 6 elements (profile length 5): not in the C06 domain itself *)
Definition gen_fileid : msg := set_fld ex_fileid "ProductName" (VStr (repeat 65 25)).
Definition gen_record : msg := set_fld ex_record "Speed1s" (VList [VU 1; VU 2; VU 3; VU 4; VU 5; VU 6]).
Definition gen_slots : list (list msg) :=
  match ft_entry 4 with
  | Some (_, _, descs) =>
      map (fun d => let '(_, _, mn) := d in if mn =? 20 then [gen_record; gen_record] else []) descs
  | None => []
  end.
Definition gen_file : file :=
  mk_file (new_header 32 true) 0 ([gen_fileid] :: tl gen_slots) (Some 4) None None.

Definition enc_small (f : file) (be : bool) : bool :=
  match encode f be with EOk (bs, _) => N.of_nat (List.length bs) <? 4294967296 | _ => false end.
Definition same_bytes (f f' : file) (be : bool) : bool :=
  match encode f be, encode f' be with EOk (a, _), EOk (b, _) => bytes_eqb a b | _, _ => false end.

(* the hypotheses of generations_eq are satisfiable by a File outside the C06 domain *)
Example generations_example :
  wf_file gen_file && wf_header (f_header gen_file) && proto_ok (h_proto (f_header gen_file)) &&
  (h_profile (f_header gen_file) <? 65536) && len1_strings_empty gen_file && arrays_short gen_file &&
  in_domain (trunc_file gen_file) && negb (in_domain gen_file) &&
  enc_small gen_file true && enc_small gen_file false &&
  same_bytes gen_file (trunc_file gen_file) true && same_bytes gen_file (trunc_file gen_file) false = true.
Proof. vm_compute. reflexivity. Qed.

(* both side conditions are necessary.
   A session whose opponent_name (message 18 field 84, profile length 1) is "A": Encode writes the
   field (one 0 byte), for the truncated value "" it leaves the field out. *)
Definition one_slot (mn : N) (m : msg) : list (list msg) :=
  match ft_entry 4 with
  | Some (_, _, descs) => map (fun d => let '(_, _, mn') := d in if mn' =? mn then [m] else []) descs
  | None => []
  end.
Definition len1_session : msg :=
  match mesg_all_invalid 18 with Some m => set_fld m "OpponentName" (VStr [65]) | None => mk_msg 18 [] end.
Definition len1_file : file :=
  mk_file (new_header 32 true) 0 ([ex_fileid] :: tl (one_slot 18 len1_session)) (Some 4) None None.

Example len1_string_differs :
  wf_file len1_file && arrays_short len1_file && negb (len1_strings_empty len1_file) &&
  enc_small len1_file false && enc_small (trunc_file len1_file) false &&
  negb (same_bytes len1_file (trunc_file len1_file) false) = true.
Proof. vm_compute. reflexivity. Qed.

(* A record whose speed_1s array holds 256 elements: byte(Len) is 0, Encode writes five invalid
   elements; for the truncated array it writes the first five. *)
Definition long_record : msg := set_fld ex_record "Speed1s" (VList (repeat (VU 1) 256)).
Definition long_file : file :=
  mk_file (new_header 32 true) 0 ([ex_fileid] :: tl (one_slot 20 long_record)) (Some 4) None None.

Example array256_differs :
  wf_file long_file && len1_strings_empty long_file && negb (arrays_short long_file) &&
  enc_small long_file false && enc_small (trunc_file long_file) false &&
  negb (same_bytes long_file (trunc_file long_file) false) = true.
Proof. vm_compute. reflexivity. Qed.

(* the whole chain computed on gen_file: generation 2 has the content of trunc_file gen_file (C06
   comparator) and agrees with generation 1 under the C07 comparator *)
Example generations_run :
  forallb (fun be : bool =>
    match encode gen_file be with
    | EOk (bs, _) =>
        match entry_Decode no_opts g_init (mk_reader (bs ++ [7; 7]) [2; 0; 5]%nat TEOF true 0) (10 + List.length bs) with
        | TDone r =>
            match dr_err r, dr_file r with
            | None, Some f2 => content_eq6 (trunc_file gen_file) f2 && content_eq7 gen_file f2 && negb (content_eq6 gen_file f2)
            | _, _ => false
            end
        | _ => false
        end
    | _ => false
    end) [false; true] = true.
Proof. vm_compute. reflexivity. Qed.

(* the hypotheses of generations_eq_decoded on a decoded File: StreamDenoteDecode.ok_reader *)
Example generations_decoded_example :
  match entry_Decode no_opts g_init StreamDenoteDecode.ok_reader 200 with
  | TDone r =>
      match dr_err r, dr_file r with
      | None, Some f1 =>
          opt_n_eqb (f_inited f1) (Some (file_type f1)) && len1_strings_empty f1 && arrays_short f1 &&
          in_domain (trunc_file f1) && enc_small f1 true && enc_small f1 false
      | _, _ => false
      end
  | _ => false
  end = true.
Proof. vm_compute. reflexivity. Qed.
