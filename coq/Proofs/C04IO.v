(* C04 (b), raw stages: what Go's io.ReadFull and io.CopyN (Model/IO.v) return over a reader
   oracle, for every chunk schedule: with enough fuel they deliver exactly the next n bytes, or
   an error when fewer than n bytes remain. *)
From Coq Require Import NArith List Bool Arith Lia.
From FitV Require Import Model.Crc Model.IO.
Import ListNotations.

Definition measure (r : reader) : nat := length (rd_data r) + length (rd_sched r).

(* r' is r after delivering the bytes [got] *)
Record adv (r r' : reader) (got : list N) : Prop := {
  adv_data : rd_data r = got ++ rd_data r';
  adv_pos : rd_pos r' = rd_pos r + length got;
  adv_term : rd_term r' = rd_term r;
  adv_ewd : rd_ewd r' = rd_ewd r;
  adv_meas : measure r' <= measure r
}.

Lemma adv_refl r : adv r r [].
Proof. constructor; cbn; try reflexivity; lia. Qed.

Lemma adv_trans r1 r2 r3 g1 g2 : adv r1 r2 g1 -> adv r2 r3 g2 -> adv r1 r3 (g1 ++ g2).
Proof.
  intros [A1 A2 A3 A4 A5] [B1 B2 B3 B4 B5]. constructor.
  - rewrite A1, B1. now rewrite app_assoc.
  - rewrite B2, A2, app_length. lia.
  - congruence.
  - congruence.
  - lia.
Qed.

Lemma rd_read_spec r k : 0 < k -> forall bs e r', rd_read r k = (bs, e, r') ->
  adv r r' bs /\ length bs <= k /\ (e = None -> measure r' < measure r) /\ (e <> None -> rd_data r' = []).
Proof.
  intros Hk bs e r' H. unfold rd_read in H. destruct (rd_data r) as [|b0 rest0] eqn:Ed.
  - inversion H; subst. split; [|split; [cbn; lia|split; [discriminate|intros _; exact Ed]]].
    constructor; cbn; try reflexivity; try lia.
  - set (cap := match rd_sched r with [] => k | c :: _ => Nat.min c k end) in H.
    assert (Hcap : cap <= k) by (unfold cap; destruct (rd_sched r); lia).
    inversion H; subst; clear H.
    assert (Hlen : length (firstn cap (b0 :: rest0)) <= k) by (rewrite firstn_length; lia).
    split; [|split; [exact Hlen|split]].
    + constructor; cbn [rd_data rd_pos rd_term rd_ewd]; try reflexivity.
      * rewrite Ed. symmetry. apply firstn_skipn.
      * unfold measure. cbn [rd_data rd_sched]. rewrite Ed, skipn_length.
        destruct (rd_sched r); cbn [tl length]; lia.
    + intros _. unfold measure. cbn [rd_data rd_sched]. rewrite Ed, skipn_length.
      unfold cap. destruct (rd_sched r) as [|c t]; cbn [tl length]; lia.
    + intros He. cbn [rd_data]. destruct (skipn cap (b0 :: rest0)); [reflexivity|]. exfalso. now apply He.
Qed.

(* ------------------------------------------------------------------ io.ReadFull *)
Ltac now_done :=
  rewrite app_nil_r; split; [reflexivity|]; split; [apply adv_refl|]; split; [lia|];
  split; [intros _; lia|intros X; now elim X].

Lemma io_read_full_done : forall fuel rd n acc res e rd',
  io_read_full fuel rd n acc = Done (res, e, rd') -> length acc <= n ->
  exists got, res = acc ++ got /\ adv rd rd' got /\ length res <= n /\
              (e = None -> length res = n) /\ (e <> None -> length res < n /\ rd_data rd' = []).
Proof.
  induction fuel as [|f IH]; intros rd n acc res e rd' H Hacc.
  - cbn in H. destruct (Nat.leb_spec n (length acc)); [|discriminate].
    inversion H; subst. exists []. now_done.
  - cbn [io_read_full] in H. destruct (Nat.leb_spec n (length acc)) as [L|L].
    + inversion H; subst. exists []. now_done.
    + destruct (rd_read rd (n - length acc)) as [[bs e1] r1] eqn:Er.
      destruct (rd_read_spec rd (n - length acc) ltac:(lia) _ _ _ Er) as (Ha & Hl & Hm & Hd).
      assert (Hacc' : length (acc ++ bs) <= n) by (rewrite app_length; lia).
      destruct e1 as [t|].
      * destruct (Nat.leb_spec n (length (acc ++ bs))) as [L2|L2]; inversion H; subst; exists bs.
        -- split; [reflexivity|]. split; [exact Ha|]. split; [lia|]. split; [intros _; lia|intros X; now elim X].
        -- split; [reflexivity|]. split; [exact Ha|]. split; [lia|]. split; [discriminate|intros _; split; [lia|apply Hd; discriminate]].
      * destruct (IH r1 n (acc ++ bs) res e rd' H Hacc') as (got & -> & Ha2 & Hr & Hn & Hs).
        exists (bs ++ got). rewrite app_assoc. split; [reflexivity|]. split; [eapply adv_trans; eassumption|].
        split; [assumption|]. split; assumption.
Qed.

Lemma io_read_full_total : forall fuel rd n acc, measure rd < fuel -> io_read_full fuel rd n acc <> OutOfFuel.
Proof.
  induction fuel as [|f IH]; intros rd n acc Hm; [lia|].
  cbn [io_read_full]. destruct (Nat.leb_spec n (length acc)) as [L|L]; [discriminate|].
  destruct (rd_read rd (n - length acc)) as [[bs e1] r1] eqn:Er.
  destruct (rd_read_spec rd (n - length acc) ltac:(lia) _ _ _ Er) as (Ha & Hl & Hmm & Hd).
  destruct e1 as [t|].
  - destruct (Nat.leb n (length (acc ++ bs))); discriminate.
  - apply IH. specialize (Hmm eq_refl). lia.
Qed.

(* ------------------------------------------------------------------ io.CopyN *)
Lemma COPYBUF_pos : 1 <= COPYBUF. Proof. apply Nat.leb_le. vm_compute. reflexivity. Qed.

Lemma io_copy_n_done : forall fuel rd n acc res e rd',
  io_copy_n fuel rd n acc = Done (res, e, rd') -> length acc <= n ->
  exists got, res = acc ++ got /\ adv rd rd' got /\ length res <= n /\
              (e = None -> length res = n) /\ (e <> None -> length res < n /\ rd_data rd' = []).
Proof.
  induction fuel as [|f IH]; intros rd n acc res e rd' H Hacc.
  - cbn in H. destruct (Nat.leb_spec n (length acc)); [|discriminate].
    inversion H; subst. exists []. now_done.
  - cbn [io_copy_n] in H. destruct (Nat.leb_spec n (length acc)) as [L|L].
    + inversion H; subst. exists []. now_done.
    + pose proof COPYBUF_pos as HC.
      destruct (rd_read rd (Nat.min COPYBUF (n - length acc))) as [[bs e1] r1] eqn:Er.
      destruct (rd_read_spec rd (Nat.min COPYBUF (n - length acc)) ltac:(lia) _ _ _ Er) as (Ha & Hl & Hm & Hd).
      assert (Hacc' : length (acc ++ bs) <= n) by (rewrite app_length; lia).
      destruct e1 as [t|].
      * destruct (Nat.leb_spec n (length (acc ++ bs))) as [L2|L2]; inversion H; subst; exists bs.
        -- split; [reflexivity|]. split; [exact Ha|]. split; [lia|]. split; [intros _; lia|intros X; now elim X].
        -- split; [reflexivity|]. split; [exact Ha|]. split; [lia|]. split; [discriminate|intros _; split; [lia|apply Hd; discriminate]].
      * destruct (IH r1 n (acc ++ bs) res e rd' H Hacc') as (got & -> & Ha2 & Hr & Hn & Hs).
        exists (bs ++ got). rewrite app_assoc. split; [reflexivity|]. split; [eapply adv_trans; eassumption|].
        split; [assumption|]. split; assumption.
Qed.

Lemma io_copy_n_total : forall fuel rd n acc, measure rd < fuel -> io_copy_n fuel rd n acc <> OutOfFuel.
Proof.
  induction fuel as [|f IH]; intros rd n acc Hm; [lia|].
  cbn [io_copy_n]. destruct (Nat.leb_spec n (length acc)) as [L|L]; [discriminate|].
  pose proof COPYBUF_pos as HC.
  destruct (rd_read rd (Nat.min COPYBUF (n - length acc))) as [[bs e1] r1] eqn:Er.
  destruct (rd_read_spec rd (Nat.min COPYBUF (n - length acc)) ltac:(lia) _ _ _ Er) as (Ha & Hl & Hmm & Hd).
  destruct e1 as [t|].
  - destruct (Nat.leb n (length (acc ++ bs))); discriminate.
  - apply IH. specialize (Hmm eq_refl). lia.
Qed.

(* ------------------------------------------------------------------ "the next n bytes, or an error" *)
(* the common shape of both: started with an empty accumulator *)
Definition next_n (rd rd' : reader) (n : nat) (res : list N) (e : option rerr) : Prop :=
  adv rd rd' res /\
  (e = None -> res = firstn n (rd_data rd) /\ length res = n /\ n <= length (rd_data rd) /\ rd_data rd' = skipn n (rd_data rd)) /\
  (e <> None -> length (rd_data rd) < n /\ res = rd_data rd /\ rd_data rd' = []).

Lemma next_n_of_done rd rd' n res e :
  (exists got, res = [] ++ got /\ adv rd rd' got /\ length res <= n /\
               (e = None -> length res = n) /\ (e <> None -> length res < n /\ rd_data rd' = [])) ->
  next_n rd rd' n res e.
Proof.
  intros (got & -> & Ha & Hle & Hn & Hs). cbn [app] in *. split; [assumption|]. split.
  - intros He. specialize (Hn He). pose proof (adv_data _ _ _ Ha) as Hd. rewrite Hd.
    rewrite <- Hn. rewrite firstn_app, Nat.sub_diag, firstn_all. cbn [firstn]. rewrite app_nil_r.
    repeat split; try reflexivity.
    + rewrite app_length. lia.
    + rewrite skipn_app, skipn_all, Nat.sub_diag. reflexivity.
  - intros He. destruct (Hs He) as [Hlt Hnil]. pose proof (adv_data _ _ _ Ha) as Hd. rewrite Hnil, app_nil_r in Hd.
    rewrite Hd. repeat split; assumption.
Qed.

Theorem io_read_full_spec : forall fuel rd n, measure rd < fuel ->
  exists res e rd', io_read_full fuel rd n [] = Done (res, e, rd') /\ next_n rd rd' n res e.
Proof.
  intros fuel rd n Hm. destruct (io_read_full fuel rd n []) as [[[res e] rd']|] eqn:E.
  - exists res, e, rd'. split; [reflexivity|]. apply next_n_of_done. apply (io_read_full_done _ _ _ _ _ _ _ E). cbn; lia.
  - exfalso. now apply (io_read_full_total fuel rd n [] Hm).
Qed.

Theorem io_copy_n_spec : forall fuel rd n, measure rd < fuel ->
  exists res e rd', io_copy_n fuel rd n [] = Done (res, e, rd') /\ next_n rd rd' n res e.
Proof.
  intros fuel rd n Hm. destruct (io_copy_n fuel rd n []) as [[[res e] rd']|] eqn:E.
  - exists res, e, rd'. split; [reflexivity|]. apply next_n_of_done. apply (io_copy_n_done _ _ _ _ _ _ _ E). cbn; lia.
  - exfalso. now apply (io_copy_n_total fuel rd n [] Hm).
Qed.

(* the error classes of the two raw reads *)
Lemma io_read_full_err : forall fuel rd n acc res e rd',
  io_read_full fuel rd n acc = Done (res, Some e, rd') ->
  e = match rd_term rd with TFault => RFault | TEOF => match res with [] => REOF | _ => RUnexpectedEOF end end.
Proof.
  induction fuel as [|f IH]; intros rd n acc res e rd' H.
  - cbn in H. destruct (Nat.leb n (length acc)); discriminate.
  - cbn [io_read_full] in H. destruct (Nat.leb n (length acc)); [discriminate|].
    destruct (rd_read rd (n - length acc)) as [[bs e1] r1] eqn:Er.
    assert (Ht : rd_term r1 = rd_term rd /\ (forall t, e1 = Some t -> t = rd_term rd)).
    { unfold rd_read in Er. destruct (rd_data rd) as [|b0 rest0].
      - inversion Er; subst. split; [reflexivity|]. intros t Ht; now inversion Ht.
      - inversion Er; subst. cbn [rd_term]. split; [reflexivity|]. intros t Ht.
        destruct (skipn _ _); [destruct (rd_ewd rd)|]; now inversion Ht. }
    destruct Ht as [Ht1 Ht2]. destruct e1 as [t|].
    + rewrite (Ht2 t eq_refl) in H. destruct (Nat.leb n (length (acc ++ bs))); inversion H; subst. reflexivity.
    + rewrite <- Ht1. eapply IH. eassumption.
Qed.
