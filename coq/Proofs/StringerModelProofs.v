(* C20 -- generic part about the stringer's table construction: for ANY type
   name and ANY list of constants (values fitting the type's width), the String
   method that [stringer_model] builds prints Type(n) for every value that is
   not the value of a constant.  (The instance-level theorems do not depend on
   this file.) *)
From Coq Require Import NArith List String Ascii Bool Lia.
From FitV Require Import Model.Stringer Spec.StringSpec Proofs.Util Proofs.StringerProofs.
Import ListNotations.
Local Open Scope N_scope.

Definition vals (l : list (string * N)) : list N := map snd l.

(* ---- sorting and de-duplication keep the set of values ---- *)

Lemma insert_stable_In x l y : In y (insert_stable x l) <-> y = x \/ In y l.
Proof.
  induction l as [|a l IH]; simpl.
  - intuition.
  - destruct (snd x <=? snd a); simpl; [intuition|]. rewrite IH. intuition.
Qed.

Lemma sort_stable_In l y : In y (sort_stable l) <-> In y l.
Proof.
  unfold sort_stable. induction l as [|a l IH]; simpl; [reflexivity|].
  rewrite insert_stable_In, IH. intuition.
Qed.

Lemma dedup_aux_In last l y : In y (dedup_aux last l) -> In y l.
Proof.
  revert last. induction l as [|a l IH]; intros last; simpl; [auto|].
  destruct (snd a =? last); simpl; intros H.
  - right. eapply IH, H.
  - destruct H as [H|H]; [now left|right; eapply IH, H].
Qed.

Lemma dedup_In l y : In y (dedup l) -> In y l.
Proof.
  destruct l as [|a l]; simpl; [auto|]. intros [H|H]; [now left|right; eapply dedup_aux_In, H].
Qed.

(* ---- runs ---- *)

Lemma range_snoc n : forall s, range (S n) s = range n s ++ [s + N.of_nat n].
Proof.
  induction n as [|n IH]; intros s.
  - simpl. now rewrite N.add_0_r.
  - change (range (S (S n)) s) with (s :: range (S n) (s + 1)). rewrite IH. simpl.
    do 3 f_equal. lia.
Qed.

(* a run: non-empty, values lo, lo+1, ... *)
Definition is_run (r : list (string * N)) : Prop :=
  r <> [] /\ vals r = range (List.length r) (first_value r).

Lemma split_runs_aux_spec l : forall cur last lo,
  cur <> [] -> vals (rev cur) = range (List.length cur) lo -> last + 1 = lo + N.of_nat (List.length cur) ->
  Forall is_run (split_runs_aux cur last l) /\ List.concat (split_runs_aux cur last l) = rev cur ++ l.
Proof.
  assert (Hfirst : forall cur lo, cur <> [] -> vals (rev cur) = range (List.length cur) lo -> first_value (rev cur) = lo).
  { intros cur lo Hne H. unfold vals in H. rewrite <- (rev_length cur) in H.
    destruct (rev cur) as [|a r] eqn:E.
    - apply (f_equal (@List.length _)) in E. rewrite rev_length in E. destruct cur; [congruence|discriminate].
    - simpl in H. now injection H. }
  induction l as [|x l IH]; intros cur last lo Hne Hv Hlast; simpl.
  - split; [|now rewrite app_nil_r]. constructor; [|constructor].
    split.
    + intros E. apply (f_equal (@List.length _)) in E. rewrite rev_length in E. destruct cur; [congruence|discriminate].
    + rewrite rev_length, (Hfirst cur lo) by assumption. exact Hv.
  - destruct (N.eqb_spec (snd x) (last + 1)) as [E|NE].
    + destruct (IH (x :: cur) (snd x) lo) as [F C].
      * discriminate.
      * simpl rev. unfold vals. rewrite map_app. fold (vals (rev cur)). rewrite Hv. simpl List.length.
        rewrite range_snoc. simpl. do 2 f_equal. lia.
      * simpl List.length. lia.
      * split; [exact F|]. rewrite C. simpl. now rewrite <- app_assoc.
    + destruct (IH [x] (snd x) (snd x)) as [F C].
      * discriminate.
      * reflexivity.
      * simpl. lia.
      * split.
        -- constructor; [|exact F]. split.
           ++ intros E. apply (f_equal (@List.length _)) in E. rewrite rev_length in E. destruct cur; [congruence|discriminate].
           ++ rewrite rev_length, (Hfirst cur lo) by assumption. exact Hv.
        -- simpl. rewrite C. reflexivity.
Qed.

Lemma split_runs_spec l : Forall is_run (split_runs l) /\ List.concat (split_runs l) = l.
Proof.
  destruct l as [|x l]; simpl; [split; [constructor|reflexivity]|].
  apply (split_runs_aux_spec l [x] (snd x) (snd x)); [discriminate|reflexivity|simpl; lia].
Qed.

Lemma first_value_hd r : first_value r = hd 0 (vals r).
Proof. destruct r; reflexivity. Qed.

Lemma last_value_run r : is_run r -> last_value r = first_value r + N.of_nat (List.length r) - 1.
Proof.
  intros [Hne Hv]. unfold last_value. rewrite first_value_hd. unfold vals. rewrite map_rev. fold (vals r). rewrite Hv.
  destruct (List.length r) as [|n] eqn:E; [destruct r; [congruence|discriminate]|].
  rewrite range_snoc, rev_app_distr. simpl. lia.
Qed.

Lemma run_covers r v : is_run r -> in_iv v (first_value r, last_value r) = true -> In v (vals r).
Proof.
  intros Hr H. rewrite (last_value_run r Hr) in H. destruct Hr as [Hne Hv]. rewrite Hv.
  unfold in_iv in H. simpl in H. apply andb_true_iff in H as [H1 H2]. apply N.leb_le in H1. apply N.leb_le in H2.
  apply range_in. destruct r; [congruence|]. simpl List.length in *. lia.
Qed.

Lemma case_interval_build r : is_run r -> case_interval (build_case r) = (first_value r, last_value r).
Proof.
  intros [Hne _]. destruct r as [|x [|y r]]; [congruence|reflexivity|reflexivity].
Qed.

Lemma end_offsets_length run : forall off, List.length (end_offsets off run) = List.length run.
Proof. induction run as [|x r IH]; intros off; simpl; [reflexivity|now rewrite IH]. Qed.

Lemma map_entries_keys l : forall off, map (fun e => (fst e, fst e)) (map_entries off l) = map (fun v => (v, v)) (vals l).
Proof. induction l as [|x l IH]; intros off; simpl; [reflexivity|now rewrite IH]. Qed.

Lemma in_concat_vals (runs : list (list (string * N))) r v : In r runs -> In v (vals r) -> In v (vals (List.concat runs)).
Proof.
  intros Hr Hv. unfold vals in *. apply in_map_iff in Hv as [x [E Hx]]. apply in_map_iff. exists x. split; [assumption|].
  apply in_concat. now exists r.
Qed.

Local Arguments N.sub : simpl never.
Local Arguments N.of_nat : simpl never.
Local Arguments N.pow : simpl never.
Local Arguments N.add : simpl never.

(* GENERIC over all constant sets *)
Theorem stringer_model_other bits tname consts v :
  bits <= 63 -> (forall c, In c consts -> snd c < 2 ^ bits) -> v < 2 ^ bits -> ~ In v (vals consts) ->
  string_of bits (stringer_model tname consts) v = Some (other_text tname v).
Proof.
  intros Hbits Hfit Hv Hnot.
  set (values := map (fun c => (trim_prefix (fst c) tname, snd c)) consts).
  set (L := dedup (sort_stable values)).
  assert (HL : forall x, In x L -> In (snd x) (vals consts) /\ snd x < 2 ^ bits).
  { intros x Hx. apply dedup_In in Hx. apply -> sort_stable_In in Hx. unfold values in Hx. apply in_map_iff in Hx as [c [E Hc]].
    subst x. simpl. split; [unfold vals; now apply in_map|now apply Hfit]. }
  destruct (split_runs_spec L) as [Hruns Hcat].
  assert (Hin : forall r, In r (split_runs L) -> forall w, In w (vals r) -> In w (vals consts) /\ w < 2 ^ bits).
  { intros r Hr w Hw. assert (Hw' : In w (vals L)) by (rewrite <- Hcat; eapply in_concat_vals; eauto).
    unfold vals in Hw'. apply in_map_iff in Hw' as [x [E Hx]]. subst w. now apply HL. }
  rewrite Forall_forall in Hruns.
  assert (Hfall : fallback (stringer_model tname consts) v = other_text tname v).
  { unfold fallback, other_text, stringer_model. simpl. rewrite format_int64_small.
    - now rewrite append_assoc.
    - eapply N.lt_le_trans; [exact Hv|]. apply N.pow_le_mono_r; [discriminate|assumption]. }
  rewrite <- Hfall. apply string_of_outside; [|assumption|].
  - (* shape_ok *)
    unfold shape_ok, stringer_model. fold values. fold L. simpl.
    destruct (split_runs L) as [|r [|r2 rest]] eqn:ER.
    + simpl. reflexivity.
    + simpl. specialize (Hruns r (or_introl eq_refl)). pose proof (last_value_run r Hruns) as Hlast.
      destruct Hruns as [Hne Hvals].
      unfold opt_offset. destruct (first_value r =? 0) eqn:E0; [reflexivity|].
      rewrite N.eqb_refl. simpl.
      unfold index_of_run. simpl List.length. rewrite end_offsets_length.
      replace (N.of_nat (S (List.length r)) - 1) with (N.of_nat (List.length r)) by lia.
      assert (Hf : In (first_value r) (vals r)).
      { rewrite first_value_hd. destruct r; [congruence|now left]. }
      assert (Hl : In (last_value r) (vals r)).
      { unfold last_value. rewrite first_value_hd. unfold vals. rewrite map_rev.
        destruct (rev (map snd r)) as [|a t] eqn:E.
        - apply (f_equal (@List.length _)) in E. rewrite rev_length, map_length in E. destruct r; [congruence|discriminate].
        - simpl. apply in_rev. rewrite E. now left. }
      destruct (Hin r (or_introl eq_refl) _ Hf) as [_ Hf'].
      destruct (Hin r (or_introl eq_refl) _ Hl) as [_ Hl'].
      apply N.ltb_lt in Hf'. rewrite Hf'. simpl. apply N.leb_le.
      assert (Hpos : 0 < N.of_nat (List.length r)) by (destruct r; [congruence|simpl List.length; lia]).
      lia.
    + destruct (N.of_nat (List.length (r :: r2 :: rest)) <=? 10); reflexivity.
  - (* outside the domain *)
    destruct (in_domain v (domain (stringer_model tname consts))) eqn:ED; [|reflexivity].
    exfalso. apply Hnot.
    unfold in_domain, domain, stringer_model in ED. fold values in ED. fold L in ED. simpl in ED.
    assert (Hmulti : forall runs, (forall r, In r runs -> is_run r) ->
               existsb (in_iv v) (map case_interval (map build_case runs)) = true -> exists r, In r runs /\ In v (vals r)).
    { intros runs Hr H. apply existsb_exists in H as [iv [Hiv Hv']]. rewrite map_map in Hiv.
      apply in_map_iff in Hiv as [r [E Hr']]. subst iv. rewrite case_interval_build in Hv' by now apply Hr.
      exists r. split; [assumption|]. apply run_covers; [now apply Hr|assumption]. }
    assert (Hmap : forall runs, existsb (in_iv v) (map (fun e => (fst e, fst e)) (map_entries 0 (List.concat runs))) = true ->
               In v (vals (List.concat runs))).
    { intros runs H. rewrite map_entries_keys in H. apply existsb_exists in H as [iv [Hiv Hv']].
      apply in_map_iff in Hiv as [w [E Hw]]. subst iv. unfold in_iv in Hv'. simpl in Hv'.
      apply andb_true_iff in Hv' as [H1 H2]. apply N.leb_le in H1. apply N.leb_le in H2.
      assert (w = v) by lia. now subst. }
    destruct (split_runs L) as [|r [|r2 rest]] eqn:ER.
    + simpl in ED. discriminate.
    + simpl in ED. pose proof (Hruns r (or_introl eq_refl)) as Hr. pose proof (last_value_run r Hr) as Hlast.
      unfold index_of_run in ED. simpl List.length in ED. rewrite end_offsets_length in ED.
      assert (Hn : N.of_nat (S (List.length r)) - 1 = N.of_nat (List.length r)) by lia.
      rewrite Hn in ED.
      destruct (N.of_nat (List.length r) =? 0) eqn:E0; [discriminate|].
      apply N.eqb_neq in E0.
      assert (Hlo : match opt_offset (first_value r) with Some k => k | None => 0 end = first_value r).
      { unfold opt_offset. destruct (N.eqb_spec (first_value r) 0) as [->|]; reflexivity. }
      rewrite Hlo in ED. simpl in ED. rewrite orb_false_r in ED.
      apply (Hin r (or_introl eq_refl)). apply run_covers; [assumption|]. now rewrite Hlast.
    + destruct (N.of_nat (List.length (r :: r2 :: rest)) <=? 10).
      * simpl m_shape in ED. cbv iota in ED.
        destruct (Hmulti (r :: r2 :: rest) Hruns ED) as [r' [Hr' Hv']]. now apply (Hin r' Hr').
      * unfold build_map in ED. cbv iota beta zeta in ED.
        apply Hmap in ED. rewrite Hcat in ED.
        unfold vals in ED. apply in_map_iff in ED as [x [E Hx]]. subst v. now apply HL.
Qed.
