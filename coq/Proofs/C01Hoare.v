(* C01: a small weakest-precondition calculus over the abstract interpreter
   run_a, for proving that decoder programs never reach Panic.
   [np p x s Q]: running p from (x, s) does not panic (and does not run out of
   fuel); if it returns a value, Q holds of the value and the final states.
   Errors (RFail, RIOErr) are normal returns. *)
From Coq Require Import NArith List Bool Arith Lia.
From FitV Require Import Model.IO Proofs.IOSim.
Import ListNotations.

Definition np {S E A} (p : prog S E A) (x : ast) (s : S) (Q : A -> ast -> S -> Prop) : Prop :=
  match run_a p x s with
  | ROk a x' s' => Q a x' s'
  | RFail _ _ _ | RIOErr _ _ _ => True
  | RPanic _ | ROutOfFuel => False
  end.

Lemma run_a_bind {S E A B} : forall (p : prog S E A) (f : A -> prog S E B) x s,
  run_a (bind p f) x s =
  match run_a p x s with
  | ROk a x' s' => run_a (f a) x' s'
  | RFail e x' s' => RFail e x' s'
  | RIOErr e x' s' => RIOErr e x' s'
  | RPanic w => RPanic w
  | ROutOfFuel => ROutOfFuel
  end.
Proof.
  induction p as [a|e|w|k IH|n k IH|k IH|k IH|s' k IH]; intros f x s; cbn [bind run_a]; try reflexivity.
  - destruct (a_take 1 x) as [[l x']|e]; [apply IH|reflexivity].
  - destruct (a_take n x) as [[l x']|e]; [apply IH|reflexivity].
  - apply IH.
  - apply IH.
  - apply IH.
Qed.

Lemma np_bind {S E A B} (p : prog S E A) (f : A -> prog S E B) x s Q :
  np p x s (fun a x' s' => np (f a) x' s' Q) -> np (bind p f) x s Q.
Proof. unfold np. rewrite run_a_bind. destruct (run_a p x s); auto. Qed.

Lemma np_conseq {S E A} (p : prog S E A) x s (Q Q' : A -> ast -> S -> Prop) :
  np p x s Q -> (forall a x' s', Q a x' s' -> Q' a x' s') -> np p x s Q'.
Proof. unfold np. destruct (run_a p x s); auto. Qed.

Lemma np_ret {S E A} (a : A) x (s : S) (Q : A -> ast -> S -> Prop) : Q a x s -> np (@Ret S E A a) x s Q.
Proof. exact (fun H => H). Qed.
Lemma np_fail {S E A} (e : E) x (s : S) (Q : A -> ast -> S -> Prop) : np (@Fail S E A e) x s Q.
Proof. exact I. Qed.
Lemma np_get {S E A} (k : S -> prog S E A) x s Q : np (k s) x s Q -> np (Get k) x s Q.
Proof. exact (fun H => H). Qed.
Lemma np_put {S E A} (s' : S) (k : prog S E A) x s Q : np k x s' Q -> np (Put s' k) x s Q.
Proof. exact (fun H => H). Qed.
Lemma np_more {S E A} (k : bool -> prog S E A) x s Q : np (k (Nat.ltb (a_n x) (a_limit x))) x s Q -> np (More k) x s Q.
Proof. exact (fun H => H). Qed.

(* ---- the input invariant: what remains to be read are bytes, and the count
   of consumed bytes never exceeds the limit *)
Definition isbyte (b : N) : Prop := (b < 256)%N.
Definition AInv (x : ast) : Prop := Forall isbyte (a_rest x) /\ a_n x <= a_limit x.

Lemma Forall_firstn {A} (P : A -> Prop) k : forall l, Forall P l -> Forall P (firstn k l).
Proof. induction k as [|k IH]; intros [|a l] H; cbn; try constructor; inversion H; subst; auto. Qed.
Lemma Forall_skipn {A} (P : A -> Prop) k : forall l, Forall P l -> Forall P (skipn k l).
Proof. induction k as [|k IH]; intros [|a l] H; cbn; auto. inversion H; subst; auto. Qed.

Lemma a_take_ok k x l x' : a_take k x = inl (l, x') -> AInv x ->
  Forall isbyte l /\ length l = k /\ AInv x' /\ a_n x' = a_n x + k /\ a_limit x' = a_limit x.
Proof.
  unfold a_take. destruct (Nat.leb_spec k (Nat.min (a_limit x - a_n x) (length (a_rest x)))) as [L|L];
    [|destruct (Nat.leb _ _); discriminate].
  intros H [Hb Hn]. inversion H; subst; clear H. cbn.
  repeat split.
  - now apply Forall_firstn.
  - rewrite firstn_length. lia.
  - now apply Forall_skipn.
  - cbn. lia.
Qed.

Lemma hd_byte l : Forall isbyte l -> isbyte (hd 0%N l).
Proof. intros H. destruct l; cbn; [unfold isbyte; lia|now inversion H]. Qed.

Lemma np_read_byte {S E A} (k : N -> prog S E A) x (s : S) Q : AInv x ->
  (forall b x', isbyte b -> AInv x' -> a_n x' = a_n x + 1 -> a_limit x' = a_limit x -> np (k b) x' s Q) ->
  np (ReadByte k) x s Q.
Proof.
  intros HA H. unfold np. cbn [run_a]. destruct (a_take 1 x) as [[l x']|e] eqn:Et; [|exact I].
  destruct (a_take_ok _ _ _ _ Et HA) as (Hb & _ & HA' & Hn & Hl).
  apply (H (hd 0%N l) x'); auto using hd_byte.
Qed.

Lemma np_read_full {S E A} n (k : list N -> prog S E A) x (s : S) Q : AInv x ->
  (forall l x', Forall isbyte l -> length l = n -> AInv x' -> a_n x' = a_n x + n -> a_limit x' = a_limit x -> np (k l) x' s Q) ->
  np (ReadFull n k) x s Q.
Proof.
  intros HA H. unfold np. cbn [run_a]. destruct (a_take n x) as [[l x']|e] eqn:Et; [|exact I].
  destruct (a_take_ok _ _ _ _ Et HA) as (Hb & Hlen & HA' & Hn & Hl).
  now apply (H l x').
Qed.

(* ---- for every program: the count of consumed bytes only grows *)
Lemma run_a_mono {S E A} : forall (p : prog S E A) x s,
  match run_a p x s with
  | ROk _ x' _ | RFail _ x' _ | RIOErr _ x' _ => a_n x <= a_n x'
  | _ => True
  end.
Proof.
  induction p as [a|e|w|k IH|n k IH|k IH|k IH|s' k IH]; intros x s; cbn [run_a]; try lia; try exact I; try apply IH.
  - destruct (a_take 1 x) as [[l x']|e] eqn:Et; [|lia].
    assert (Hn : a_n x <= a_n x').
    { unfold a_take in Et. destruct (Nat.leb 1 _); [|destruct (Nat.leb _ _); discriminate]. inversion Et; subst; cbn; lia. }
    specialize (IH (hd 0%N l) x' s). destruct (run_a (k (hd 0%N l)) x' s); try exact I; lia.
  - destruct (a_take n x) as [[l x']|e] eqn:Et; [|lia].
    assert (Hn : a_n x <= a_n x').
    { unfold a_take in Et. destruct (Nat.leb n _); [|destruct (Nat.leb _ _); discriminate]. inversion Et; subst; cbn; lia. }
    specialize (IH l x' s). destruct (run_a (k l) x' s); try exact I; lia.
Qed.

(* strengthening a postcondition with the monotonicity of the byte count *)
Lemma np_mono {S E A} (p : prog S E A) x s Q : np p x s Q -> np p x s (fun a x' s' => Q a x' s' /\ a_n x <= a_n x').
Proof. unfold np. pose proof (run_a_mono p x s) as H. destruct (run_a p x s); auto. Qed.
