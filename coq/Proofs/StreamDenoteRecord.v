(* Stream-level decode = denote, layer 3: one record.  Running parse_record on the bytes of a
   record the reference semantics accepts consumes exactly those bytes, cannot fail, panic or hit an
   I/O error, and re-establishes the invariant with the state denote_record returns. *)
From Coq Require Import NArith ZArith List Bool Lia Arith.
From Coq Require Import ZifyN ZifyNat ZifyBool.
From FitV Require Import Proofs.Util Model.Values Model.Bytes Model.Base Model.Profile Model.Reflect Model.IO
  Model.Route Model.Components Model.Decode Spec.FitSyntax Spec.RouteSpec Spec.ProfileWf Proofs.ProfileProofs
  Proofs.RouteProofs Proofs.DecodeLemmas Gen.Consts
  Proofs.StreamDenoteBase Proofs.StreamDenoteArith Proofs.StreamDenoteDefs Proofs.StreamDenoteDef
  Proofs.StreamDenoteField Proofs.StreamDenoteData.
Import ListNotations.
Local Open Scope N_scope.
Ltac Zify.zify_post_hook ::= Z.div_mod_to_equations.

Lemma ast_at_nil_app l tl t n lim : ast_at [] (l ++ tl) t n lim = ast_at l tl t n lim.
Proof. reflexivity. Qed.

(* ------------------------------------------------------------ payload and developer bytes *)

Lemma data_fields_known o dm d base : dm_ok dm d -> known_msg (sd_gmn d) = true ->
  forall m1 ref1 s pay dev tl t n lim,
  List.length pay = payload_size d -> List.length dev = sd_devsize d -> all_bytes pay = true ->
  time_rel (ds_hasts s) (ds_ts s) (ds_lastoff s) ref1 ->
  (o_unkf o = true -> ds_unkf s = base) ->
  (n + List.length pay + List.length dev <= lim)%nat ->
  exists hs' ts' lo' uf',
    run_a (parse_data_fields o dm true (Some m1)) (ast_at (pay ++ dev) tl t n lim) s =
      ROk (Some (fst (fst (denote_fields (sd_be d) (sd_gmn d) (sd_fds d) pay m1 ref1 []))))
          (ast_at [] tl t (n + List.length pay + List.length dev) lim) (st_upd s hs' ts' lo' uf') /\
    time_rel hs' ts' lo' (snd (fst (denote_fields (sd_be d) (sd_gmn d) (sd_fds d) pay m1 ref1 []))) /\
    (o_unkf o = true -> uf' = counts (sd_gmn d) (snd (denote_fields (sd_be d) (sd_gmn d) (sd_fds d) pay m1 ref1 [])) base) /\
    (o_unkf o = false -> uf' = ds_unkf s).
Proof.
  intros (Hbe & Hgmn & Hfds & Hdev & Hcompat & Hcanon) Hkn m1 ref1 s pay dev tl t n lim Hlp Hld Hbytes Htime Hunk Hlim.
  unfold parse_data_fields. rewrite run_bind. rewrite Hfds. rewrite ast_at_app.
  destruct (fields_known o dm (sd_be d) (sd_gmn d) base Hkn Hgmn Hbe (sd_fds d) pay m1 ref1 [] s (dev ++ tl) t n lim
              Hcompat Hcanon Hlp Hbytes Htime Hunk ltac:(lia))
    as (hs' & ts' & lo' & uf' & Hrun & Ht & Hu1 & Hu2).
  rewrite Hrun. cbn [rbind]. rewrite ast_at_nil_app. rewrite run_bind.
  rewrite skip_dev_ok by (try (rewrite Hdev; exact Hld); lia). cbn [rbind run_a].
  exists hs', ts', lo', uf'. repeat split; auto.
Qed.

Lemma data_fields_unknown o dm d : dm_ok dm d -> known_msg (sd_gmn d) = false ->
  forall s pay dev tl t n lim,
  List.length pay = payload_size d -> List.length dev = sd_devsize d ->
  (n + List.length pay + List.length dev <= lim)%nat ->
  run_a (parse_data_fields o dm false None) (ast_at (pay ++ dev) tl t n lim) s =
  ROk None (ast_at [] tl t (n + List.length pay + List.length dev) lim) s.
Proof.
  intros (Hbe & Hgmn & Hfds & Hdev & Hcompat & Hcanon) Hkn s pay dev tl t n lim Hlp Hld Hlim.
  unfold parse_data_fields. rewrite run_bind. rewrite Hfds. rewrite ast_at_app.
  rewrite fields_unknown by (try (rewrite Hgmn; exact Hkn); try exact Hlp; lia).
  cbn [rbind]. rewrite ast_at_nil_app. rewrite run_bind.
  rewrite skip_dev_ok by (try (rewrite Hdev; exact Hld); lia). reflexivity.
Qed.

(* ------------------------------------------------------------ storing the message *)

Lemma add_msg_ok ft m x s : In ft valid_file_types -> f_inited (ds_file s) = Some ft ->
  exists f' g', file_add (ds_file s) (ds_g s) m = AddOk f' g' /\ f_inited f' = Some ft /\
                run_a (add_msg m) x s = ROk tt x (with_file s f' g').
Proof.
  intros Hft Hi. destruct (add_no_panic ft Hft (ds_file s) (ds_g s) m Hi) as (f' & g' & Ha & Hi' & _).
  exists f', g'. repeat split; try assumption.
  unfold add_msg, get_st, put_st. cbn [bind]. rewrite run_get. rewrite Ha. reflexivity.
Qed.

(* ------------------------------------------------------------ the invariant after a data record *)

Lemma Inv_data_known o pre fb gb ft s ss hs' ts' lo' uf' f' g' m2 ref2 uf2 :
  Inv o pre fb gb ft s ss ->
  time_rel hs' ts' lo' ref2 ->
  (o_unkf o = true -> uf' = uf2) ->
  file_add (ds_file s) (ds_g s) m2 = AddOk f' g' -> f_inited f' = Some ft ->
  Inv o pre fb gb ft (with_file (st_upd s hs' ts' lo' uf') f' g')
      (mk_sstate (ss_env ss) ref2 (ss_msgs ss ++ [m2]) (ss_unkm ss) uf2).
Proof.
  intros HI Ht Hu Ha Hi. destruct HI as [H1 H2 H3 H4 H5 H6 H7 H8 (ms & Hms & Hadds)].
  constructor; cbn [with_file st_upd ds_defs ds_ts ds_lastoff ds_hasts ds_unkf ds_unkm ds_file ds_g ss_env ss_ref ss_msgs ss_unkm ss_unkf];
    try assumption.
  exists (ms ++ [m2]). split; [rewrite Hms; now rewrite app_assoc|]. rewrite adds_app, Hadds. exact Ha.
Qed.

Lemma Inv_data_unknown o pre fb gb ft s ss hs' ts' lo' q' gmn ref2 :
  Inv o pre fb gb ft s ss ->
  time_rel hs' ts' lo' ref2 ->
  Inv o pre fb gb ft
      (mk_dstate (ds_defs s) ts' lo' (ds_unkf s) (if o_unkm o then bump1 gmn (ds_unkm s) else ds_unkm s) (ds_file s) (ds_g s) q' hs')
      (mk_sstate (ss_env ss) ref2 (ss_msgs ss) (count1 gmn (ss_unkm ss)) (ss_unkf ss)).
Proof.
  intros HI Ht. destruct HI as [H1 H2 H3 H4 H5 H6 H7 H8 H9].
  constructor; cbn [ds_defs ds_ts ds_lastoff ds_hasts ds_unkf ds_unkm ds_file ds_g ss_env ss_ref ss_msgs ss_unkm ss_unkf];
    try assumption.
  intros Ho. rewrite Ho. rewrite bump1_count1. now rewrite (H5 Ho).
Qed.

(* ------------------------------------------------------------ small moves of the invariant *)

Lemma Inv_time o pre fb gb ft s env ref msgs unkm unkf ts lo ref' :
  Inv o pre fb gb ft s (mk_sstate env ref msgs unkm unkf) -> time_rel (ds_hasts s) ts lo ref' ->
  Inv o pre fb gb ft (with_time s ts lo) (mk_sstate env ref' msgs unkm unkf).
Proof.
  intros [H1 H2 H3 H4 H5 H6 H7 H8 H9] Ht.
  constructor; cbn [with_time ds_defs ds_ts ds_lastoff ds_hasts ds_unkf ds_unkm ds_file ds_g ss_env ss_ref ss_msgs ss_unkm ss_unkf] in *;
    assumption.
Qed.

Lemma Inv_unkm o pre fb gb ft s env ref msgs unkm unkf gmn :
  Inv o pre fb gb ft s (mk_sstate env ref msgs unkm unkf) ->
  Inv o pre fb gb ft (if o_unkm o then with_unkm s (bump1 gmn (ds_unkm s)) else s)
      (mk_sstate env ref msgs (count1 gmn unkm) unkf).
Proof.
  intros [H1 H2 H3 H4 H5 H6 H7 H8 H9].
  destruct (o_unkm o) eqn:Eo;
    constructor; cbn [with_unkm ds_defs ds_ts ds_lastoff ds_hasts ds_unkf ds_unkm ds_file ds_g ss_env ss_ref ss_msgs ss_unkm ss_unkf] in *;
    try assumption.
  - intros _. rewrite bump1_count1. now rewrite (H5 eq_refl).
  - intros Hc. rewrite Eo in Hc. discriminate.
Qed.

Definition tail_k (om : option msg) : P unit := match om with Some m => add_msg m | None => Ret tt end.

(* known message: fields, developer bytes, File.add *)
Lemma known_tail o pre fb gb ft s1 env ref1 msgs unkm unkf dm d m1 pay dev tl t n lim :
  Inv o pre fb gb ft s1 (mk_sstate env ref1 msgs unkm unkf) -> dm_ok dm d -> known_msg (sd_gmn d) = true ->
  List.length pay = payload_size d -> List.length dev = sd_devsize d -> all_bytes pay = true ->
  (n + List.length pay + List.length dev <= lim)%nat ->
  exists s',
    run_a (bind (parse_data_fields o dm true (Some m1)) tail_k) (ast_at (pay ++ dev) tl t n lim) s1 =
      ROk tt (ast_at [] tl t (n + List.length pay + List.length dev) lim) s' /\
    Inv o pre fb gb ft s'
        (mk_sstate env (snd (fst (denote_fields (sd_be d) (sd_gmn d) (sd_fds d) pay m1 ref1 [])))
                   (msgs ++ [fst (fst (denote_fields (sd_be d) (sd_gmn d) (sd_fds d) pay m1 ref1 []))]) unkm
                   (fold_left (fun acc k => count2 (sd_gmn d) k acc)
                              (snd (denote_fields (sd_be d) (sd_gmn d) (sd_fds d) pay m1 ref1 [])) unkf)).
Proof.
  intros HI Hdm Hkn Hlp Hld Hbytes Hlim.
  destruct (data_fields_known o dm d unkf Hdm Hkn m1 ref1 s1 pay dev tl t n lim Hlp Hld Hbytes
              (inv_time _ _ _ _ _ _ _ HI) (inv_unkf _ _ _ _ _ _ _ HI) Hlim)
    as (hs' & ts' & lo' & uf' & Hrun & Ht & Hu1 & Hu2).
  rewrite run_bind, Hrun. cbn [rbind tail_k].
  destruct (add_msg_ok ft (fst (fst (denote_fields (sd_be d) (sd_gmn d) (sd_fds d) pay m1 ref1 [])))
              (ast_at [] tl t (n + List.length pay + List.length dev) lim) (st_upd s1 hs' ts' lo' uf')
              (inv_ft _ _ _ _ _ _ _ HI) (inv_inited _ _ _ _ _ _ _ HI))
    as (f' & g' & Ha & Hi' & Hrun2).
  rewrite Hrun2. eexists. split; [reflexivity|].
  exact (Inv_data_known o pre fb gb ft s1 _ hs' ts' lo' uf' f' g' _ _ _ HI Ht Hu1 Ha Hi').
Qed.

Lemma unknown_tail o dm d s1 pay dev tl t n lim :
  dm_ok dm d -> known_msg (sd_gmn d) = false ->
  List.length pay = payload_size d -> List.length dev = sd_devsize d ->
  (n + List.length pay + List.length dev <= lim)%nat ->
  run_a (bind (parse_data_fields o dm false None) tail_k) (ast_at (pay ++ dev) tl t n lim) s1 =
  ROk tt (ast_at [] tl t (n + List.length pay + List.length dev) lim) s1.
Proof.
  intros Hdm Hkn Hlp Hld Hlim. rewrite run_bind.
  rewrite (data_fields_unknown o dm d Hdm Hkn) by assumption. reflexivity.
Qed.

(* ------------------------------------------------------------ the compressed-timestamp step *)

Lemma roll_rel r off : off < 32 -> time_rel true (roll r off) off (Some (roll r off)).
Proof.
  intros Ho. cbn [time_rel]. split; [reflexivity|]. split; [reflexivity|].
  unfold roll. change (2 ^ 32) with 4294967296. lia.
Qed.

Lemma model_roll ts lo r off : ts = r -> lo = r mod 32 ->
  (ts + (off + 32 - lo) mod 32) mod 2 ^ 32 = roll r off.
Proof. intros -> ->. reflexivity. Qed.

(* ------------------------------------------------------------ one data record *)

Lemma sstate_eta ss : ss = mk_sstate (ss_env ss) (ss_ref ss) (ss_msgs ss) (ss_unkm ss) (ss_unkf ss).
Proof. destruct ss; reflexivity. Qed.

Lemma data_record_ok o pre fb gb ft s ss b (compressed : bool) l offo pay dev ss' tl t n lim :
  Inv o pre fb gb ft s ss ->
  (if compressed then N.shiftr (N.land b c_compressedLocalMesgNumMask) 5 else N.land b c_localMesgNumMask) = l ->
  match offo with
  | None => compressed = false
  | Some off => compressed = true /\ N.land b c_compressedTimeMask = off /\ off < 32
  end ->
  all_bytes pay = true ->
  denote_data ss l offo pay dev = Some ss' ->
  (n + List.length pay + List.length dev <= lim)%nat ->
  exists s',
    run_a (bind (parse_data_message o b compressed) tail_k) (ast_at (pay ++ dev) tl t n lim) s =
      ROk tt (ast_at [] tl t (n + List.length pay + List.length dev) lim) s' /\
    Inv o pre fb gb ft s' ss'.
Proof.
  intros HI Hloc Hoff Hbytes Hden Hlim.
  unfold denote_data in Hden.
  destruct (lookup_def (ss_env ss) l) as [d|] eqn:El; [|discriminate].
  pose proof (inv_env16 _ _ _ _ _ _ _ HI l d El) as Hl16.
  pose proof (inv_defs _ _ _ _ _ _ _ HI l Hl16) as Hslot. rewrite El in Hslot.
  destruct (nth (N.to_nat l) (ds_defs s) None) as [dm|] eqn:Enth; [|contradiction]. cbn [slot_rel] in Hslot.
  destruct (negb (Nat.eqb (List.length pay) (payload_size d)) || negb (Nat.eqb (List.length dev) (sd_devsize d))) eqn:Elen;
    [discriminate|].
  apply orb_false_elim in Elen. destruct Elen as [Elp Eld].
  apply negb_false_iff, Nat.eqb_eq in Elp. apply negb_false_iff, Nat.eqb_eq in Eld.
  pose proof Hslot as (Hbe & Hgmn & Hfds & Hdevs & Hcompat & Hcanon).
  rewrite run_bind. rewrite (data_message_uses_own_slot o b compressed _ s dm) by (rewrite Hloc; exact Enth).
  rewrite <- run_bind.
  unfold data_message_with. rewrite Hgmn.
  rewrite (sstate_eta ss) in HI.
  destruct (known_msg (sd_gmn d)) eqn:Ekn.
  - (* known message *)
    destruct (mesg_all_invalid (sd_gmn d)) as [m0|] eqn:Emai; [|discriminate].
    rewrite bind_ret.
    destruct offo as [off|].
    + destruct Hoff as (-> & Hoffb & Hoff32). cbn [negb].
      unfold get_st. cbn [bind]. rewrite run_get.
      destruct (ss_ref ss) as [r|] eqn:Eref.
      * (* reference present: the rollover rule *)
        destruct (inv_time _ _ _ _ _ _ _ HI) as (Hh & Hts & Hlo). cbn [ss_ref] in *.
        rewrite Hh. cbn [negb].
        rewrite Hoffb. rewrite (model_roll _ _ r off Hts Hlo).
        pose proof (roll_rel r off Hoff32) as Hrr. rewrite <- Hh in Hrr.
        pose proof (Inv_time _ _ _ _ _ _ _ _ _ _ _ _ _ _ HI Hrr) as HI1.
        unfold put_st. cbn [bind]. rewrite run_put.
        destruct (get_field (sd_gmn d) c_fieldNumTimeStamp) as [p|] eqn:Eg.
        -- destruct (entry_sound _ _ _ Eg) as (md & Em & F).
           rewrite (ef_type _ _ _ _ F).
           assert (Hty : gotype_of_fit (pf_t p) = TTime).
           { pose proof (ef_ts _ _ _ _ F eq_refl) as Hk.
             assert (Ha : fit_array (pf_t p) = false) by (apply (ef_scalar_kinds _ _ _ _ F); rewrite Hk; discriminate).
             unfold gotype_of_fit. rewrite Hk, Ha. reflexivity. }
           rewrite Hty. cbn [set_time].
           destruct (known_tail o pre fb gb ft _ _ _ _ _ _ dm d
                       (msg_set m0 (pf_sindex p) (decode_date_time (roll r off))) pay dev tl t n lim
                       HI1 Hslot Ekn Elp Eld Hbytes Hlim) as (s' & Hrun & HI').
           exists s'. split; [exact Hrun|].
           change (msg_set m0 (pf_sindex p) (decode_date_time (roll r off)))
             with (mk_msg (m_num m0) (set_at (pf_sindex p) (time_of (roll r off)) (m_fields m0))) in HI'.
           unfold roll in HI'.
           destruct (denote_fields (sd_be d) (sd_gmn d) (sd_fds d) pay _ _ []) as [[m2 ref2] unl].
           cbn [fst snd] in HI'. inversion Hden; subst ss'. exact HI'.
        -- destruct (known_tail o pre fb gb ft _ _ _ _ _ _ dm d m0 pay dev tl t n lim
                       HI1 Hslot Ekn Elp Eld Hbytes Hlim) as (s' & Hrun & HI').
           exists s'. split; [exact Hrun|]. unfold roll in HI'.
           destruct (denote_fields (sd_be d) (sd_gmn d) (sd_fds d) pay _ _ []) as [[m2 ref2] unl].
           cbn [fst snd] in HI'. inversion Hden; subst ss'. exact HI'.
      * (* no reference yet: the record stays unstamped *)
        pose proof (inv_time _ _ _ _ _ _ _ HI) as Hts. cbn [ss_ref time_rel] in Hts. rewrite Hts.
        cbn [negb].
        destruct (known_tail o pre fb gb ft _ _ _ _ _ _ dm d m0 pay dev tl t n lim
                    HI Hslot Ekn Elp Eld Hbytes Hlim) as (s' & Hrun & HI').
        exists s'. split; [exact Hrun|].
        destruct (denote_fields (sd_be d) (sd_gmn d) (sd_fds d) pay _ _ []) as [[m2 ref2] unl].
        cbn [fst snd] in HI'. inversion Hden; subst ss'. exact HI'.
    + subst compressed. cbn [negb].
      destruct (known_tail o pre fb gb ft _ _ _ _ _ _ dm d m0 pay dev tl t n lim
                  HI Hslot Ekn Elp Eld Hbytes Hlim) as (s' & Hrun & HI').
      exists s'. split; [exact Hrun|].
      assert (Hd : denote_fields (sd_be d) (sd_gmn d) (sd_fds d) pay m0
                     (match ss_ref ss with Some r => Some r | None => None end) [] =
                   denote_fields (sd_be d) (sd_gmn d) (sd_fds d) pay m0 (ss_ref ss) [])
        by (destruct (ss_ref ss); reflexivity).
      destruct (ss_ref ss) as [r|] eqn:Eref;
        destruct (denote_fields (sd_be d) (sd_gmn d) (sd_fds d) pay m0 _ []) as [[m2 ref2] unl];
        cbn [fst snd] in HI'; inversion Hden; subst ss'; exact HI'.
  - (* unknown message *)
    pose proof (Inv_unkm _ _ _ _ _ _ _ _ _ _ _ (sd_gmn d) HI) as HIu.
    set (su := if o_unkm o then with_unkm s (bump1 (sd_gmn d) (ds_unkm s)) else s) in *.
    assert (Hpre : forall (k : option msg -> P (option msg)) x,
              run_a (bind (bind (bind (if o_unkm o then put_st (with_unkm s (bump1 (sd_gmn d) (ds_unkm s))) else Ret tt)
                                      (fun _ => Ret None)) k) tail_k) x s =
              run_a (bind (k None) tail_k) x su).
    { intros k x. unfold su. destruct (o_unkm o); reflexivity. }
    destruct offo as [off|].
    + destruct Hoff as (-> & Hoffb & Hoff32).
      match goal with |- exists s', run_a (bind (bind _ ?k) tail_k) _ _ = _ /\ _ => rewrite (Hpre k) end.
      cbn [negb]. unfold get_st. cbn [bind]. rewrite run_get.
      destruct (ss_ref ss) as [r|] eqn:Eref.
      * destruct (inv_time _ _ _ _ _ _ _ HIu) as (Hh & Hts & Hlo). cbn [ss_ref] in *.
        rewrite Hh. cbn [negb].
        rewrite Hoffb. rewrite (model_roll _ _ r off Hts Hlo).
        pose proof (roll_rel r off Hoff32) as Hrr. rewrite <- Hh in Hrr.
        pose proof (Inv_time _ _ _ _ _ _ _ _ _ _ _ _ _ _ HIu Hrr) as HI1.
        unfold put_st. cbn [bind]. rewrite run_put.
        rewrite (unknown_no_field _ c_fieldNumTimeStamp Ekn).
        rewrite (unknown_tail o dm d _ pay dev tl t n lim Hslot Ekn Elp Eld Hlim).
        eexists. split; [reflexivity|]. inversion Hden; subst ss'. exact HI1.
      * pose proof (inv_time _ _ _ _ _ _ _ HIu) as Hts. cbn [ss_ref time_rel] in Hts. rewrite Hts.
        cbn [negb].
        rewrite (unknown_tail o dm d _ pay dev tl t n lim Hslot Ekn Elp Eld Hlim).
        eexists. split; [reflexivity|]. inversion Hden; subst ss'. exact HIu.
    + subst compressed.
      match goal with |- exists s', run_a (bind (bind _ ?k) tail_k) _ _ = _ /\ _ => rewrite (Hpre k) end.
      cbn [negb].
      rewrite (unknown_tail o dm d _ pay dev tl t n lim Hslot Ekn Elp Eld Hlim).
      eexists. split; [reflexivity|]. inversion Hden; subst ss'.
      destruct (ss_ref ss); exact HIu.
Qed.
