(* C04: what Encode writes passes CheckIntegrity.  encode_framing / encode_framed (Proofs/EncodeProofs.v, C05)
   say the encoder model's output has the grammar's framing; grammar_integrity_ok (Proofs/C04Corrupt.v) says such a
   string is accepted.  Hypotheses on the File's header, exactly: wf_header (size 12 or 14, one-byte protocol
   version, data type ".FIT": what NewHeader makes) and a protocol major version the decoder supports. *)
From Coq Require Import NArith ZArith List Bool Arith Lia String.
From FitV Require Import Model.Values Model.Bytes Model.Crc Model.IO Model.Header Model.Route Model.Decode Model.Encode Gen.Consts
  Spec.CrcSpec Spec.Integrity Spec.Grammar Proofs.CrcProofs Proofs.EncodeProofs Proofs.C04IO Proofs.C04Corrupt Proofs.C04Main.
Import ListNotations.
Local Open Scope N_scope.

Lemma encode_second_byte f be bs f' :
  wf_header (f_header f) = true -> encode f be = EOk (bs, f') -> N.of_nat (List.length bs) < 4294967296 ->
  nth 1 bs 0 = h_proto (f_header f).
Proof.
  intros Hwf Henc Hlen.
  destruct (encode_framed f be bs f' Hwf Henc Hlen) as (data & hc & crc & _ & _ & _ & H). cbv zeta in H.
  destruct H as (_ & _ & _ & _ & [(_ & -> & _)|(_ & -> & _)]); reflexivity.
Qed.

Theorem encode_output_accepted : forall f be bs f',
  wf_header (f_header f) = true -> proto_ok (h_proto (f_header f)) = true ->
  encode f be = EOk (bs, f') -> N.of_nat (List.length bs) < 4294967296 ->
  forall o g fuel rd, rd_data rd = bs -> (measure rd < fuel)%nat ->
  exists r, decode o MCrcOnly g rd fuel = TDone r /\ dr_err r = None /\
            rd_pos (dr_rd r) = (rd_pos rd + List.length bs)%nat.
Proof.
  intros f be bs f' Hwf Hp Henc Hlen o g fuel rd Hd Hm.
  destruct (encode_framing f be bs f' Hwf Henc Hlen) as (Hb & Hh & Ht & _).
  apply (encode_integrity_ok bs (is_bytes_of_forallb _ Hb) Hh Ht); try assumption.
  now rewrite (encode_second_byte f be bs f' Hwf Henc Hlen).
Qed.

(* hypotheses satisfiable: the example File of the encoder proofs *)
From FitV Require Import Proofs.EncExamples.
Lemma ex_encode_hyps :
  wf_header (f_header ex_file) = true /\ proto_ok (h_proto (f_header ex_file)) = true /\
  exists bs f', encode ex_file true = EOk (bs, f') /\ N.of_nat (List.length bs) < 4294967296.
Proof.
  split; [vm_compute; reflexivity|]. split; [vm_compute; reflexivity|].
  destruct (encode ex_file true) as [[bs f']| |] eqn:E; [|vm_compute in E; discriminate|vm_compute in E; discriminate].
  exists bs, f'. split; [reflexivity|]. vm_compute in E. inversion E; subst. vm_compute. reflexivity.
Qed.
