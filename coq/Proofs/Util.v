(* Small shared lemmas: ranges over N for finite checks lifted with forallb_forall. *)
From Coq Require Import NArith List Lia Bool.
Import ListNotations.
Local Open Scope N_scope.

Fixpoint range (n : nat) (s : N) : list N :=
  match n with O => [] | S k => s :: range k (s + 1) end.

Lemma range_in n : forall s x, s <= x < s + N.of_nat n -> In x (range n s).
Proof.
  induction n as [|n IH]; intros s x H; simpl.
  - lia.
  - destruct (N.eq_dec s x) as [->|Hne]; [now left|right]. apply IH. lia.
Qed.

Lemma in_range n : forall s x, In x (range n s) -> s <= x < s + N.of_nat n.
Proof.
  induction n as [|n IH]; intros s x H; simpl in H.
  - contradiction.
  - destruct H as [->|H]; [lia|]. apply IH in H. lia.
Qed.

Lemma range_length n s : length (range n s) = n.
Proof. revert s; induction n as [|n IH]; intros s; simpl; [reflexivity|now rewrite IH]. Qed.

(* all x < k satisfy a boolean predicate, from one computation *)
Lemma forall_below (k : N) (p : N -> bool) :
  forallb p (range (N.to_nat k) 0) = true -> forall x, x < k -> p x = true.
Proof.
  intros H x Hx. rewrite forallb_forall in H. apply H, range_in. rewrite N2Nat.id. lia.
Qed.

Lemma lxor_lt_pow2 a b n : a < 2 ^ n -> b < 2 ^ n -> N.lxor a b < 2 ^ n.
Proof.
  intros Ha Hb.
  destruct (N.eq_dec (N.lxor a b) 0) as [E|NE]; [rewrite E; apply N.neq_0_lt_0, N.pow_nonzero; discriminate|].
  apply N.log2_lt_pow2; [lia|].
  eapply N.le_lt_trans; [apply N.log2_lxor|].
  destruct (N.eq_dec a 0) as [->|Na]; destruct (N.eq_dec b 0) as [->|Nb]; simpl.
  - exfalso. apply NE. reflexivity.
  - rewrite N.max_r by apply N.le_0_l. apply N.log2_lt_pow2; lia.
  - rewrite N.max_l by apply N.le_0_l. apply N.log2_lt_pow2; lia.
  - apply N.max_lub_lt; apply N.log2_lt_pow2; lia.
Qed.

Lemma land_lt_pow2 a b n : b < 2 ^ n -> N.land a b < 2 ^ n.
Proof.
  intros Hb.
  destruct (N.eq_dec (N.land a b) 0) as [E|NE]; [rewrite E; apply N.neq_0_lt_0, N.pow_nonzero; discriminate|].
  apply N.log2_lt_pow2; [lia|].
  eapply N.le_lt_trans; [apply N.log2_land|].
  destruct (N.eq_dec b 0) as [->|Nb]; [rewrite N.land_0_r in NE; congruence|].
  eapply N.le_lt_trans; [apply N.le_min_r|]. apply N.log2_lt_pow2; lia.
Qed.

Lemma shiftr_le a k : N.shiftr a k <= a.
Proof. rewrite N.shiftr_div_pow2. apply N.div_le_upper_bound; [apply N.pow_nonzero; discriminate|].
  pose proof (N.pow_nonzero 2 k ltac:(discriminate)) as H. nia. Qed.
