(* C20 -- instance part: the checker of Proofs/StringerProofs.v and the
   stringer's table construction evaluated on every generated type of
   Gen.TypesData (regenerated from types.go / types_string.go on every run). *)
From Coq Require Import NArith List String Ascii Bool Lia.
From FitV Require Import Model.Stringer Spec.StringSpec Proofs.Util Proofs.StringerProofs Gen.TypesData.
Import ListNotations.
Local Open Scope N_scope.

Lemma all_types_ok : forallb type_ok types = true.
Proof. vm_compute. reflexivity. Qed.

Lemma tables_eq :
  map t_rep types = map (fun T => stringer_model (t_name T) (t_consts T)) types.
Proof. vm_compute. reflexivity. Qed.

(* the stringer is asked for exactly the generated types, in declaration order *)
Lemma listed_are_declared : listed_types = map t_name types.
Proof. vm_compute. reflexivity. Qed.

Lemma type_ok_all T : In T types -> type_ok T = true.
Proof. intros H. pose proof all_types_ok as A. rewrite forallb_forall in A. now apply A. Qed.

(* every constant of every generated type prints one of the names of its value,
   without the type prefix *)
Lemma string_of_const : forall T, In T types -> forall n v, In (n, v) (t_consts T) ->
  exists s, type_string T v = Some s /\ In s (names_of (t_name T) (t_consts T) v).
Proof. intros T HT n v Hin. eapply type_ok_const; [now apply type_ok_all|exact Hin]. Qed.

(* every other value of the type's width -- 2^8, 2^16 and 2^32 alike -- prints as Type(n) *)
Lemma string_of_other : forall T, In T types -> forall v, v < 2 ^ t_bits T ->
  ~ is_const_value (t_consts T) v -> type_string T v = Some (other_text (t_name T) v).
Proof. intros T HT v Hv Hnot. apply type_ok_other; [now apply type_ok_all|assumption|exact Hnot]. Qed.

(* the intervals / keys tested by the String method are exactly the constant values *)
Lemma runs_cover : forall T, In T types -> forall v,
  in_domain v (domain (t_rep T)) = true <-> is_const_value (t_consts T) v.
Proof. intros T HT v. apply type_ok_cover. now apply type_ok_all. Qed.

(* the checked-in tables are what the modelled stringer algorithm produces *)
Lemma tables_are_stringer_output : forall T, In T types ->
  t_rep T = stringer_model (t_name T) (t_consts T).
Proof. exact (map_eq_pointwise _ _ _ tables_eq). Qed.

(* no String method of a generated type can panic *)
Lemma string_of_total : forall T, In T types -> forall v, v < 2 ^ t_bits T -> type_string T v <> None.
Proof.
  intros T HT v Hv.
  destruct (in_dec N.eq_dec v (map snd (t_consts T))) as [Hin|Hnot].
  - apply in_map_iff in Hin as [[n v'] [E Hin]]. simpl in E. subst v'.
    destruct (string_of_const T HT n v Hin) as [s [E _]]. now rewrite E.
  - now rewrite (string_of_other T HT v Hv Hnot).
Qed.

(* ---------- concrete instances (non-vacuity) ---------- *)

Lemma in_types_by_name name T :
  find (fun X => String.eqb (t_name X) name) types = Some T -> In T types.
Proof. intros H. now apply find_some in H. Qed.

Lemma Weight_in_types : In ty_Weight types.
Proof. apply (in_types_by_name "Weight"). vm_compute. reflexivity. Qed.

Lemma GarminProduct_in_types : In ty_GarminProduct types.
Proof. apply (in_types_by_name "GarminProduct"). vm_compute. reflexivity. Qed.

Lemma ActivityClass_in_types : In ty_ActivityClass types.
Proof. apply (in_types_by_name "ActivityClass"). vm_compute. reflexivity. Qed.

Lemma LocaltimeIntoDay_in_types : In ty_LocaltimeIntoDay types.
Proof. apply (in_types_by_name "LocaltimeIntoDay"). vm_compute. reflexivity. Qed.
