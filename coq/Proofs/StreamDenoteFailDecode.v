(* C16 counts_on_failure at the entry point.  The loop-level theorems of StreamDenoteFail.v
   composed with the file_id prologue, File.init, the header and the buffered reader:
   Decode on a file whose data part is cut inside a record fails with an I/O error, and the
   unknown-message / unknown-field lists of the partial File it returns lie, count for count,
   between the reference counts of the completed records and those including the record in flight.
   A. the prologue keeps the keys of the counter lists distinct;
   B. the abstract run of data_prog on a truncated data part;
   C. the entry point over a reader oracle. *)
From Coq Require Import NArith ZArith List Bool Lia Arith.
From Coq Require Import ZifyN ZifyNat ZifyBool.
From FitV Require Import Proofs.Util Model.Values Model.Bytes Model.Base Model.Profile Model.Reflect Model.Crc Model.IO
  Model.Header Model.Route Model.Components Model.Decode Spec.FitSyntax Spec.RouteSpec Proofs.RouteProofs
  Proofs.DecodeLemmas Gen.Consts Proofs.IOSim
  Proofs.StreamDenoteBase Proofs.StreamDenoteDefs Proofs.StreamDenoteDef Proofs.StreamDenoteData
  Proofs.StreamDenoteRecord Proofs.StreamDenoteLoop Proofs.StreamDenoteLift Proofs.StreamDenoteMain
  Proofs.StreamDenoteFrame Proofs.StreamDenoteFail.
Import ListNotations.
Local Open Scope N_scope.

(* ================================================================ A. distinct keys through the prologue *)

Lemma dk_of_cs s s' : distinct_keys s -> cs (ds_unkm s) (ds_unkf s) s' -> distinct_keys s'.
Proof. intros [H1 H2] [E1 E2]. split; [rewrite E1|rewrite E2]; assumption. Qed.

(* a program that leaves both counter lists alone keeps their keys distinct *)
Lemma okp_cs_dk {A} (p : P A) : (forall um uf, okp (cs um uf) p) ->
  forall x s, distinct_keys s -> post distinct_keys (run_a p x s).
Proof.
  intros H x s Hs. eapply post_weaken; [apply (okp_sound _ _ (H (ds_unkm s) (ds_unkf s)) x s (cs_self s))|].
  intros s'. now apply dk_of_cs.
Qed.

Lemma okp_do_init um uf : okp (cs um uf) do_init.
Proof. unfold do_init. okp_walk (idtac; cs_solve). Qed.

Lemma okp_read_byte J : okp J read_byte.
Proof. unfold read_byte. cbn [okp]. intros b. exact I. Qed.

Lemma dk_data_message o b c x s : distinct_keys s -> post distinct_keys (run_a (parse_data_message o b c) x s).
Proof.
  intros Hs. unfold post.
  eapply post2_weaken; [apply (data_message_spec o b c x s _ _ (cs_self s))| |]; intros s' H.
  - apply rec_ok_bound in H. exact (rec_bound_distinct _ _ _ _ Hs H).
  - exact (rec_bound_distinct _ _ _ _ Hs H).
Qed.

Lemma dk_file_id o x s : distinct_keys s -> post distinct_keys (run_a (parse_file_id_msg o) x s).
Proof.
  intros Hs. unfold parse_file_id_msg.
  eapply post_bind with (Pq := distinct_keys); [apply okp_cs_dk; [intros; apply okp_read_byte|exact Hs]| |auto].
  intros b x1 s1 H1. destruct (negb (N.land b c_mesgDefinitionMask =? c_mesgDefinitionMask)); [exact H1|].
  eapply post_bind with (Pq := distinct_keys); [apply okp_cs_dk; [intros; apply okp_parse_def|exact H1]| |auto].
  intros dm x2 s2 H2. destruct (negb (dm_gmn dm =? c_MesgNumFileId)); [exact H2|].
  eapply post_bind with (Pq := distinct_keys); [apply okp_cs_dk; [intros; apply okp_set_def|exact H2]| |auto].
  intros _ x3 s3 H3.
  eapply post_bind with (Pq := distinct_keys); [apply okp_cs_dk; [intros; apply okp_read_byte|exact H3]| |auto].
  intros b2 x4 s4 H4. destruct (negb (N.land b2 c_mesgHeaderMask =? c_mesgHeaderMask)); [exact H4|].
  eapply post_bind with (Pq := distinct_keys); [apply dk_data_message; exact H4| |auto].
  intros om x5 s5 H5. destruct om as [m|]; [|exact I].
  destruct (m_num m =? c_MesgNumFileId); [|exact H5].
  apply okp_cs_dk; [intros; apply okp_add_msg|exact H5].
Qed.

Lemma dk_prologue o x s : distinct_keys s ->
  post distinct_keys (run_a (bind (parse_file_id_msg o) (fun _ => do_init)) x s).
Proof.
  intros Hs. eapply post_bind with (Pq := distinct_keys); [apply dk_file_id; exact Hs| |auto].
  intros _ x' s' H. apply okp_cs_dk; [intros; apply okp_do_init|exact H].
Qed.

(* ================================================================ B. the abstract run of data_prog *)

Definition counts_between (o : dopts) (ss1 ss2 : sstate) (file' : file) : Prop :=
  (o_unkm o = true ->
   exists lm, f_unkm file' = Some lm /\ forall k, cnt1 k (ss_unkm ss1) <= cnt1 k lm <= cnt1 k (ss_unkm ss2)) /\
  (o_unkf o = true ->
   exists lf, f_unkf file' = Some lf /\ forall m k, cnt2 m k (ss_unkf ss1) <= cnt2 m k lf <= cnt2 m k (ss_unkf ss2)).

Lemma denote_from_app : forall a b s,
  denote_from s (a ++ b) = match denote_from s a with Some s' => denote_from s' b | None => None end.
Proof.
  induction a as [|x a IH]; intros b s; cbn [app denote_from]; [reflexivity|].
  destruct (denote_record s x); [apply IH|reflexivity].
Qed.

Theorem data_prog_counts_on_failure :
  forall o h g l be fds (devflag : bool) (devs : list (N * N * N)) pay dev rest r cut rem ss1 ss2 f2 g1 t lim,
  let rs := RDef l be c_MesgNumFileId fds devflag devs :: RData l pay dev :: rest in
  stream_wf rs = true -> denote rs = Some ss1 ->
  start_file h g (hd dummy_msg (ss_msgs ss1)) = Some (f2, g1) ->
  rec_wf r = true -> denote_record ss1 r = Some ss2 ->
  ser_record r = cut ++ rem -> rem <> [] ->
  (List.length (ser_records rs ++ cut) < lim)%nat ->
  exists e x sf,
    run_a (data_prog o false (S lim)) (mk_ast (ser_records rs ++ cut) t 0 lim) (init_dstate (new_file h) g) = RIOErr e x sf /\
    counts_between o ss1 ss2 (finalize_unknown o sf).
Proof.
  intros o h g l be fds devflag devs pay dev rest r cut rem ss1 ss2 f2 g1 t lim rs
         Hwf Hden Hstart Hwfr Hdr Hser Hrem Hlim.
  set (r1 := RDef l be c_MesgNumFileId fds devflag devs) in *. set (r2 := RData l pay dev) in *.
  unfold rs in *. cbn [stream_wf forallb] in Hwf.
  apply andb_prop in Hwf. destruct Hwf as [Hwf1 Hwf]. apply andb_prop in Hwf. destruct Hwf as [Hwf2 Hwf].
  fold (stream_wf rest) in Hwf.
  unfold denote in Hden.
  change (r1 :: r2 :: rest) with ([r1; r2] ++ rest) in Hden.
  rewrite denote_from_app in Hden. destruct (denote_from ss_init [r1; r2]) as [ssb|] eqn:Eb; [|discriminate].
  destruct (denote_from_msgs _ _ _ Hden) as [ms Hms].
  assert (Hhd : hd dummy_msg (ss_msgs ss1) = hd dummy_msg (ss_msgs ssb)).
  { rewrite Hms. cbn [denote_from] in Eb.
    destruct (denote_record ss_init r1) as [ssa|] eqn:E1; [|discriminate].
    destruct (denote_record ssa r2) as [ssb'|] eqn:E2; [|discriminate]. inversion Eb; subst ssb'.
    destruct (ss_msgs ssb) as [|x0 xs] eqn:Em; [|reflexivity]. exfalso.
    unfold r1 in E1. cbn [denote_record] in E1. destruct (_ || _) in E1; [discriminate|]. inversion E1; subst ssa.
    unfold r2 in E2. cbn [denote_record] in E2. unfold denote_data in E2. cbn [ss_env] in E2.
    rewrite lookup_def_cons, N.eqb_refl in E2. destruct (_ || _) in E2; [discriminate|].
    cbn [sd_gmn] in E2. rewrite known_fileid in E2.
    destruct (mesg_all_invalid c_MesgNumFileId); [|discriminate].
    destruct (denote_fields _ _ _ _ _ _ _) as [[m2 ref2] unl]. inversion E2; subst ssb. cbn [ss_msgs ss_init app] in Em. discriminate. }
  rewrite Hhd in Hstart.
  change (ser_records ([r1; r2] ++ rest)) with (ser_record r1 ++ ser_record r2 ++ ser_records rest) in *.
  change (ser_records (r1 :: r2 :: rest)) with (ser_record r1 ++ ser_record r2 ++ ser_records rest) in *.
  rewrite !app_length in Hlim.
  set (n := (List.length (ser_record r1) + List.length (ser_record r2))%nat).
  unfold data_prog.
  assert (Hassoc : forall fuel x s,
            run_a (bind (parse_file_id_msg o) (fun _ => bind do_init (fun _ => decode_file_data o fuel))) x s =
            rbind (run_a (bind (parse_file_id_msg o) (fun _ => do_init)) x s)
                  (fun _ x' s' => run_a (decode_file_data o fuel) x' s')).
  { intros fuel x s. rewrite !run_bind. destruct (run_a (parse_file_id_msg o) x s); cbn [rbind]; try reflexivity. now rewrite run_bind. }
  rewrite Hassoc.
  replace (mk_ast ((ser_record r1 ++ ser_record r2 ++ ser_records rest) ++ cut) t 0 lim)
    with (ast_at (ser_record r1 ++ ser_record r2) (ser_records rest ++ cut) t 0 lim)
    by (unfold ast_at; now rewrite <- !app_assoc).
  destruct (prologue_ok o h g l be fds devflag devs pay dev ssb f2 g1 (ser_records rest ++ cut) t lim
              Hwf1 Hwf2 Eb Hstart ltac:(fold r1 r2; lia))
    as (sb & ft & Hrun & HIb).
  fold r1 r2 in Hrun. fold n in Hrun.
  pose proof (dk_prologue o (ast_at (ser_record r1 ++ ser_record r2) (ser_records rest ++ cut) t 0 lim)
                (init_dstate (new_file h) g) (distinct_keys_init _ _)) as Hdk.
  rewrite Hrun in Hdk. cbn [post post2] in Hdk.
  rewrite Hrun. cbn [rbind]. rewrite ast_at_nil.
  assert (Hfuel : (List.length rest < S lim)%nat) by (pose proof (records_le_bytes rest); lia).
  pose proof (truncated_outcome rest r cut rem o _ f2 g1 ft sb ssb ss1 ss2 t n lim (S lim)
                HIb Hwf Hden Hwfr Hdr Hser Hrem ltac:(unfold n; lia) Hfuel) as Hout.
  pose proof (counts_on_failure_file rest r cut rem o _ f2 g1 ft sb ssb ss1 ss2 t n lim (S lim)
                HIb Hdk Hwf Hden Hwfr Hdr Hser Hrem ltac:(unfold n; lia)) as Hcnt.
  destruct (run_a (decode_file_data o (S lim)) (mk_ast (ser_records rest ++ cut) t n lim) sb)
    as [a x' s'|e x' s'|e x' s'|w|]; try contradiction.
  - exfalso. unfold n in Hout. lia.
  - exists e, x', s'. split; [reflexivity|]. cbn [post post2] in Hcnt. exact Hcnt.
Qed.

(* ================================================================ C. the entry point *)

Theorem Decode_counts_on_failure :
  forall o g rd fuel h l be fds (devflag : bool) (devs : list (N * N * N)) pay dev rest r cut rem ss1 ss2 f2 g1,
  let rs := RDef l be c_MesgNumFileId fds devflag devs :: RData l pay dev :: rest in
  header_wf h ->
  rd_data rd = hdr_bytes h ++ ser_records rs ++ cut ->
  (List.length (ser_records rs ++ cut) < N.to_nat (h_dsize h))%nat ->
  stream_wf rs = true -> denote rs = Some ss1 ->
  start_file h g (hd dummy_msg (ss_msgs ss1)) = Some (f2, g1) ->
  rec_wf r = true -> denote_record ss1 r = Some ss2 ->
  ser_record r = cut ++ rem -> rem <> [] ->
  (List.length (rd_data rd) + List.length (rd_sched rd) < fuel)%nat ->
  exists e file' rd' g' q,
    entry_Decode o g rd fuel = TDone (mk_dres (Some (EIO e)) h (Some file') rd' g' q) /\
    (o_unkm o = true ->
     exists lm, f_unkm file' = Some lm /\ forall k, cnt1 k (ss_unkm ss1) <= cnt1 k lm <= cnt1 k (ss_unkm ss2)) /\
    (o_unkf o = true ->
     exists lf, f_unkf file' = Some lf /\ forall m k, cnt2 m k (ss_unkf ss1) <= cnt2 m k lf <= cnt2 m k (ss_unkf ss2)).
Proof.
  intros o g rd fuel h l be fds devflag devs pay dev rest r cut rem ss1 ss2 f2 g1 rs
         Hwfh Hd Hlim Hwf Hden Hstart Hwfr Hdr Hser Hrem Hf.
  destruct (decode_header_ok h fuel rd (ser_records rs ++ cut) Hwfh Hd Hf) as (rd1 & DH & D1 & T1 & E1 & P1 & M1).
  assert (Hf1 : (List.length (rd_data rd1) + List.length (rd_sched rd1) < fuel)%nat) by lia.
  set (limit := N.to_nat (h_dsize h)) in *.
  set (crc := crc_write crc_new (hdr_bytes h)) in *.
  destruct (data_prog_counts_on_failure o h g l be fds devflag devs pay dev rest r cut rem ss1 ss2 f2 g1 (rd_term rd1) limit
              Hwf Hden Hstart Hwfr Hdr Hser Hrem Hlim) as (e & x & sf & Hrun & Hcnt).
  fold rs in Hrun.
  pose proof (buffered_run_abstract (data_prog o false (S limit)) rd1 limit crc fuel (init_dstate (new_file h) g) Hf1) as Hobs.
  unfold start_a in Hobs. rewrite D1, Hrun in Hobs. unfold start_c in Hobs. cbn [observe] in Hobs.
  assert (Hc : exists c, run_c (data_prog o false (S limit)) (mk_cst rd1 [] 0 limit crc fuel) (init_dstate (new_file h) g)
                         = RIOErr e c sf).
  { destruct (run_c (data_prog o false (S limit)) (mk_cst rd1 [] 0 limit crc fuel) (init_dstate (new_file h) g))
      as [a c s'|e' c s'|e' c s'|w|]; cbn [observe] in Hobs; try discriminate.
    inversion Hobs; subst. exists c. reflexivity. }
  destruct Hc as [c Hc].
  exists e, (finalize_unknown o sf), (c_rd c), (ds_g sf), (ds_quirks sf).
  split; [|exact Hcnt].
  unfold entry_Decode, decode. rewrite DH. cbv beta iota zeta. fold limit. rewrite Hc. reflexivity.
Qed.

Print Assumptions data_prog_counts_on_failure.
Print Assumptions Decode_counts_on_failure.
