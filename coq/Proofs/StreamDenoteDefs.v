(* Stream-level decode = denote: the definitions the theorems are stated with.
   - [stream_wf]: the record list is serialisable (every component in its wire range);
   - [no_time_quirk]: the stream stays off the two recorded time-rule defects (C12 known findings);
   - [Inv]: the invariant relating the decoder state to the state of the reference semantics. *)
From Coq Require Import NArith ZArith List Bool.
From FitV Require Import Model.Values Model.Bytes Model.Base Model.Profile Model.Reflect Model.IO Model.Route
  Model.Components Model.Decode Spec.FitSyntax Spec.RouteSpec Gen.Consts.
Import ListNotations.
Local Open Scope N_scope.

(* ------------------------------------------------------------ serialisable record lists *)

(* the reserved bits 5-6 of a base-type byte are zero (types.Base.Known ignores them, parseFitField does not) *)
Definition canon_bt (f : sfdef) : bool := N.land (sf_btype f) 0x60 =? 0.

Definition rec_wf (r : record) : bool :=
  all_bytes (ser_record r) &&
  match r with
  | RDef l be gmn fds devflag devs => (gmn <? 65536) && forallb canon_bt fds
  | RData l pay dev => true
  | RComp l off pay dev => off <? 32
  end.
Definition stream_wf (rs : list record) : bool := forallb rec_wf rs.

(* ------------------------------------------------------------ time: staying off the recorded defects *)

(* the compressed-timestamp rule of the reference semantics *)
Definition roll (r o : N) : N := (r + (o + 32 - r mod 32) mod 32) mod 2 ^ 32.

(* fields of one data record of a known message: no explicit timestamp 0; every valid local_date_time
   value meets a usable reference (>= systemTimeMarker). Threads the reference as denote_fields does. *)
Fixpoint fields_time_ok (be : bool) (gmn : N) (fds : list sfdef) (pay : list N) (ref : option N) : bool :=
  match fds with
  | [] => true
  | f :: r =>
      let sz := N.to_nat (sf_size f) in
      let bytes := firstn sz pay in
      let rest := skipn sz pay in
      match get_field gmn (sf_num f) with
      | None => fields_time_ok be gmn r rest ref
      | Some p =>
          let u := wire_unsigned be bytes in
          let k := fit_kind (pf_t p) in
          let ok :=
            if k =? kind_timeutc then negb ((sf_num f =? c_fieldNumTimeStamp) && (u =? 0))
            else if k =? kind_timelocal then
              (u =? 0xFFFFFFFF) || match ref with Some r0 => c_systemTimeMarker <=? r0 | None => false end
            else true in
          let ref' :=
            if (sf_num f =? c_fieldNumTimeStamp) && (k =? kind_timeutc) then
              if u =? 0xFFFFFFFF then ref else Some u
            else ref in
          ok && fields_time_ok be gmn r rest ref'
      end
  end.

Definition record_time_ok (s : sstate) (r : record) : bool :=
  let data (l : N) (off : option N) (pay : list N) : bool :=
    match lookup_def (ss_env s) l with
    | None => true
    | Some d =>
        (* a compressed step never lands on 0 (0 doubles as "no reference") *)
        let step_ok := match off, ss_ref s with Some o, Some r0 => negb (roll r0 o =? 0) | _, _ => true end in
        let ref1 := match off, ss_ref s with Some o, Some r0 => Some (roll r0 o) | _, r0 => r0 end in
        step_ok && (if known_msg (sd_gmn d) then fields_time_ok (sd_be d) (sd_gmn d) (sd_fds d) pay ref1 else true)
    end in
  match r with
  | RDef _ _ _ _ _ _ => true
  | RData l pay _ => data l None pay
  | RComp l off pay _ => data l (Some off) pay
  end.

Fixpoint no_time_quirk_from (s : sstate) (rs : list record) : bool :=
  match rs with
  | [] => true
  | r :: rest =>
      record_time_ok s r &&
      match denote_record s r with Some s' => no_time_quirk_from s' rest | None => true end
  end.
Definition no_time_quirk (rs : list record) : bool := no_time_quirk_from ss_init rs.

(* ------------------------------------------------------------ the invariant *)

Definition to_fdef (f : sfdef) : fdef := mk_fdef (sf_num f) (sf_size f) (sf_btype f).

Definition dev_size (devs : list (N * N * N)) : nat :=
  fold_right (fun d acc => let '(_, sz, _) := d in (N.to_nat sz + acc)%nat) 0%nat devs.

(* a slot of the decoder holds the definition the reference environment has for that local type *)
Definition dm_ok (dm : defmsg) (d : sdef) : Prop :=
  dm_be dm = sd_be d /\ dm_gmn dm = sd_gmn d /\ dm_fdefs dm = map to_fdef (sd_fds d) /\
  dev_size (dm_devs dm) = sd_devsize d /\ forallb (compat (sd_gmn d)) (sd_fds d) = true /\
  forallb canon_bt (sd_fds d) = true.

Definition slot_rel (od : option defmsg) (sd : option sdef) : Prop :=
  match od, sd with
  | None, None => True
  | Some dm, Some d => dm_ok dm d
  | _, _ => False
  end.

(* d.timestamp = 0 means "no reference"; with a reference, lastTimeOffset is its low five bits *)
Definition time_rel (ts lo : N) (ref : option N) : Prop :=
  match ref with
  | None => ts = 0
  | Some r => ts = r /\ r <> 0 /\ lo = r mod 32
  end.

Record Inv (o : dopts) (pre : list msg) (fb : file) (gb : gstate) (ft : N) (s : dstate) (ss : sstate) : Prop := {
  inv_len : List.length (ds_defs s) = 16%nat;
  inv_defs : forall l, l < 16 -> slot_rel (nth (N.to_nat l) (ds_defs s) None) (lookup_def (ss_env ss) l);
  inv_env16 : forall l d, lookup_def (ss_env ss) l = Some d -> l < 16;
  inv_time : time_rel (ds_ts s) (ds_lastoff s) (ss_ref ss);
  inv_unkm : o_unkm o = true -> ds_unkm s = ss_unkm ss;
  inv_unkf : o_unkf o = true -> ds_unkf s = ss_unkf ss;
  inv_ft : In ft valid_file_types;
  inv_inited : f_inited (ds_file s) = Some ft;
  inv_msgs : exists ms, ss_msgs ss = pre ++ ms /\ adds fb gb ms = AddOk (ds_file s) (ds_g s)
}.
