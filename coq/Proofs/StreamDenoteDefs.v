(* Stream-level decode = denote: the definitions the theorems are stated with.
   - [stream_wf]: the record list is serialisable (every component in its wire range);
   - [Inv]: the invariant relating the decoder state to the state of the reference semantics. *)
From Coq Require Import NArith ZArith List Bool.
From FitV Require Import Model.Values Model.Bytes Model.Base Model.Profile Model.Reflect Model.IO Model.Route
  Model.Components Model.Decode Spec.FitSyntax Spec.RouteSpec Gen.Consts.
Import ListNotations.
Local Open Scope N_scope.

(* ------------------------------------------------------------ serialisable record lists *)

(* the reserved bits 5-6 of a base-type byte are zero (types.Base.Known ignores them, parseFitField does not) *)
Definition canon_bt (f : sfdef) : bool := N.land (sf_btype f) 0x60 =? 0.

Definition rec_wf (r : record) : bool :=
  all_bytes (ser_record r) &&
  match r with
  | RDef l be gmn fds devflag devs => (gmn <? 65536) && forallb canon_bt fds
  | RData l pay dev => true
  | RComp l off pay dev => off <? 32
  end.
Definition stream_wf (rs : list record) : bool := forallb rec_wf rs.

(* the compressed-timestamp rule of the reference semantics *)
Definition roll (r o : N) : N := (r + (o + 32 - r mod 32) mod 32) mod 2 ^ 32.

(* ------------------------------------------------------------ the invariant *)

Definition to_fdef (f : sfdef) : fdef := mk_fdef (sf_num f) (sf_size f) (sf_btype f).

Definition dev_size (devs : list (N * N * N)) : nat :=
  fold_right (fun d acc => let '(_, sz, _) := d in (N.to_nat sz + acc)%nat) 0%nat devs.

(* a slot of the decoder holds the definition the reference environment has for that local type *)
Definition dm_ok (dm : defmsg) (d : sdef) : Prop :=
  dm_be dm = sd_be d /\ dm_gmn dm = sd_gmn d /\ dm_fdefs dm = map to_fdef (sd_fds d) /\
  dev_size (dm_devs dm) = sd_devsize d /\ forallb (compat (sd_gmn d)) (sd_fds d) = true /\
  forallb canon_bt (sd_fds d) = true.

Definition slot_rel (od : option defmsg) (sd : option sdef) : Prop :=
  match od, sd with
  | None, None => True
  | Some dm, Some d => dm_ok dm d
  | _, _ => False
  end.

(* d.hasTimestamp says whether there is a reference; with one, d.timestamp is it and lastTimeOffset its low five bits *)
Definition time_rel (hasts : bool) (ts lo : N) (ref : option N) : Prop :=
  match ref with
  | None => hasts = false
  | Some r => hasts = true /\ ts = r /\ lo = r mod 32
  end.

Record Inv (o : dopts) (pre : list msg) (fb : file) (gb : gstate) (ft : N) (s : dstate) (ss : sstate) : Prop := {
  inv_len : List.length (ds_defs s) = 16%nat;
  inv_defs : forall l, l < 16 -> slot_rel (nth (N.to_nat l) (ds_defs s) None) (lookup_def (ss_env ss) l);
  inv_env16 : forall l d, lookup_def (ss_env ss) l = Some d -> l < 16;
  inv_time : time_rel (ds_hasts s) (ds_ts s) (ds_lastoff s) (ss_ref ss);
  inv_unkm : o_unkm o = true -> ds_unkm s = ss_unkm ss;
  inv_unkf : o_unkf o = true -> ds_unkf s = ss_unkf ss;
  inv_ft : In ft valid_file_types;
  inv_inited : f_inited (ds_file s) = Some ft;
  inv_msgs : exists ms, ss_msgs ss = pre ++ ms /\ adds fb gb ms = AddOk (ds_file s) (ds_g s)
}.
