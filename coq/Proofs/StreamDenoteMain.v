(* Stream-level decode = denote: the theorems the properties C02, C12, C13, C16 cite, in their
   final form. *)
From Coq Require Import NArith ZArith List Bool Lia Arith.
From Coq Require Import ZifyN ZifyNat ZifyBool.
From FitV Require Import Proofs.Util Model.Values Model.Bytes Model.Base Model.Profile Model.Reflect Model.IO
  Model.Header Model.Route Model.Components Model.Decode Spec.FitSyntax Spec.RouteSpec Proofs.RouteProofs
  Proofs.DecodeLemmas Gen.Consts
  Proofs.StreamDenoteBase Proofs.StreamDenoteDefs Proofs.StreamDenoteRecord Proofs.StreamDenoteLoop Proofs.StreamDenoteLift.
Import ListNotations.
Local Open Scope N_scope.

(* the File the messages of a stream make: the first one (file_id) before init, init, the others in order *)
Definition route_msgs (h : header) (g : gstate) (msgs : list msg) : option (file * gstate) :=
  match msgs with
  | [] => None
  | m0 :: ms =>
      match start_file h g m0 with
      | Some (f2, g1) => match adds f2 g1 ms with AddOk f g' => Some (f, g') | AddPanic _ => None end
      | None => None
      end
  end.

(* the first two records are the file_id definition and its data record *)
Definition starts_with_file_id (rs : list record) : bool :=
  match rs with
  | RDef l _ gmn _ _ _ :: RData l' _ _ :: _ => (gmn =? c_MesgNumFileId) && (l =? l')
  | _ => false
  end.

Lemma records_le_bytes : forall rs, (List.length rs <= List.length (ser_records rs))%nat.
Proof.
  induction rs as [|r rest IH]; [cbn; lia|].
  change (ser_records (r :: rest)) with (ser_record r ++ ser_records rest). rewrite app_length.
  pose proof (ser_record_nonempty r). cbn [List.length]. lia.
Qed.

(* C02 decode_denote, abstract interpreter: every serialisable stream the reference semantics accepts and that
   is decoded, without error, to exactly the messages of [denote],
   routed in stream order; the whole data part is consumed; the unknown counters are the spec's. *)
Theorem decode_denote_abstract : forall o h g rs ss1 f2 g1 tl t,
  starts_with_file_id rs = true -> stream_wf rs = true -> denote rs = Some ss1 ->
  start_file h g (hd dummy_msg (ss_msgs ss1)) = Some (f2, g1) ->
  let L := List.length (ser_records rs) in
  exists s1 f g',
    run_a (data_prog o false (S L)) (mk_ast (ser_records rs ++ tl) t 0 L) (init_dstate (new_file h) g) =
      ROk tt (mk_ast tl t L L) s1 /\
    route_msgs h g (ss_msgs ss1) = Some (f, g') /\ ds_file s1 = f /\ ds_g s1 = g' /\
    (o_unkm o = true -> ds_unkm s1 = ss_unkm ss1) /\ (o_unkf o = true -> ds_unkf s1 = ss_unkf ss1) /\
    (exists ft, Inv o [hd dummy_msg (ss_msgs ss1)] f2 g1 ft s1 ss1).
Proof.
  intros o h g rs ss1 f2 g1 tl t Hshape Hwf Hden Hstart L.
  destruct rs as [|[l be gmn fds devflag devs| |] [|[| l' pay dev |] rest]]; try discriminate.
  cbn [starts_with_file_id] in Hshape. apply andb_prop in Hshape. destruct Hshape as [Eg El].
  apply N.eqb_eq in Eg, El. subst gmn l'.
  destruct (data_prog_denote o h g l be fds devflag devs pay dev rest ss1 f2 g1 tl t (S L) Hwf Hden Hstart) as (s1 & ft & Hrun & HI).
  { unfold L. pose proof (records_le_bytes (RDef l be c_MesgNumFileId fds devflag devs :: RData l pay dev :: rest)) as H.
    cbn [List.length] in H. lia. }
  destruct (inv_msgs _ _ _ _ _ _ _ HI) as (ms & Hms & Hadds).
  exists s1, (ds_file s1), (ds_g s1). split; [exact Hrun|].
  split.
  { unfold route_msgs. rewrite Hms in Hstart |- *. cbn [app hd] in Hstart |- *. rewrite Hstart, Hadds. reflexivity. }
  repeat split; try reflexivity.
  - exact (inv_unkm _ _ _ _ _ _ _ HI).
  - exact (inv_unkf _ _ _ _ _ _ _ HI).
  - exists ft. exact HI.
Qed.

Print Assumptions decode_denote_abstract.
