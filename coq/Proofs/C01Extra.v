(* C01: the remaining named ingredients.
   - the string-array scanner of parseFitFieldArray (a for {} loop in Go)
     terminates: its model fuel S dsize is never the reason it stops;
   - Go index/slice bounds that the model does not represent as Panic
     outcomes, as facts about the generated constants: the local message type
     is inside the 16 slots, every slice of the scratch buffer is inside it;
   - the latent hole of the validator (float32 profile scalar + sint32
     definition) and why it is unreachable with the compiled profile. *)
From Coq Require Import NArith ZArith List Bool Arith Lia.
From FitV Require Import Proofs.Util Model.Values Model.Bytes Model.Base Model.Profile Model.Reflect Model.Crc Model.IO
  Model.Components Model.Route Model.Decode
  Spec.ProfileWf Proofs.ProfileProofs Proofs.DecodeLemmas Proofs.C01Cells Gen.Consts.
Import ListNotations.
Local Open Scope N_scope.

(* ---- the string scanner: more fuel never changes the result *)
Lemma scan_strings_fuel buf dsize : forall f1 f2 j k acc,
  (dsize - (j + k) <= f1)%nat -> (dsize - (j + k) <= f2)%nat -> (j + k < dsize)%nat ->
  scan_strings f1 buf dsize j k acc = scan_strings f2 buf dsize j k acc.
Proof.
  induction f1 as [|f1 IH]; intros f2 j k acc H1 H2 Hlt; [lia|].
  destruct f2 as [|f2]; [lia|]. cbn [scan_strings].
  destruct (b_at buf (j + k) =? 0).
  - destruct (Nat.eqb k 0); [reflexivity|].
    destruct (Nat.leb_spec dsize (j + k + 1)) as [L|G]; [reflexivity|].
    apply IH; lia.
  - destruct (Nat.leb_spec dsize (j + S k)) as [L|G]; [reflexivity|].
    apply IH; lia.
Qed.

(* the fuel the model passes (S dsize) is enough: any larger fuel gives the same strings *)
Theorem string_scanner_terminates : forall buf dsize extra, (0 < dsize)%nat ->
  scan_strings (S dsize + extra) buf dsize 0 0 [] = scan_strings (S dsize) buf dsize 0 0 [].
Proof. intros buf dsize extra H. apply scan_strings_fuel; lia. Qed.

(* ---- bounds of the Go arrays the decoder indexes *)
(* d.defmsgs[localMsgType] (16 slots): normal headers address 0-15, compressed headers 0-3 *)
Theorem slots_in_bounds : forall b, b < 256 ->
  N.land b c_localMesgNumMask < c_maxLocalMesgs /\
  N.shiftr (N.land b c_compressedLocalMesgNumMask) 5 < 4 /\ 4 <= c_maxLocalMesgs.
Proof.
  intros b Hb. split; [apply normal_local_lt|]. split; [apply (compressed_local_2bits b Hb)|].
  unfold c_maxLocalMesgs. lia.
Qed.

(* d.tmp (765 bytes): the 3*fields bytes of a definition, a field of any size,
   the widened time/coordinate value *)
Theorem tmp_in_bounds : forall nf size, nf < 256 -> size < 256 ->
  3 * nf <= c_tmpLen /\ size <= c_tmpLen /\ 4 <= c_tmpLen /\ c_bytesForCRC <= c_tmpLen.
Proof. intros nf size H1 H2. unfold c_tmpLen, c_bytesForCRC. lia. Qed.

(* ---- the float hole of the validator *)
(* a float32 profile scalar with a sint32 definition of size 4: the validator
   accepts, and parseFitField then calls SetInt on a float field: panic.
   About the validator and parser as functions of the descriptor; the compiled
   profile has no such field (no_float_fields), so the main theorem is not
   affected. *)
Theorem validate_float_hole_refuted : exists pd bt size ty,
  pd = (false, base_float32) /\ ty = TF 32 /\
  validate_cell (Some pd) bt size = VOk /\
  forall be num buf, parse_fit_field be (mk_fdef num size bt) buf ty = FPanic 3 \/
                     parse_fit_field be (mk_fdef num size bt) buf ty = FPanic 5.
Proof.
  exists (false, base_float32), base_sint32, 4, (TF 32).
  split; [reflexivity|]. split; [reflexivity|]. split; [vm_compute; reflexivity|].
  intros be num buf. unfold parse_fit_field. cbn [fd_btype].
  change (is_u8like base_sint32) with false. cbv iota.
  change (base_sint32 =? base_sint8) with false. change (base_sint32 =? base_sint16) with false.
  change ((base_sint32 =? base_uint16) || (base_sint32 =? base_uint16z)) with false.
  change (base_sint32 =? base_sint32) with true. cbv iota.
  destruct (Nat.ltb (List.length buf) 4); [right|left]; reflexivity.
Qed.

(* the hole is exactly the descriptors the profile checker excludes *)
Theorem float_hole_excluded : forall k arr, desc_valid k arr base_float32 = false.
Proof.
  intros k arr. unfold desc_valid.
  replace (base_storable base_float32) with false by (vm_compute; reflexivity).
  now rewrite andb_false_r.
Qed.

(* ---- non-vacuity: a concrete stream and reader *)
(* a valid activity file: file_id (type 4), a record definition (timestamp uint32, heart_rate uint8) and one record;
   12-byte header, file CRC computed by the model's CRC *)
Definition ex_body : list N :=
  [12; 32; 0x47; 8; 29; 0; 0; 0; 46; 70; 73; 84;
   0x40; 0; 0; 0; 0; 1; 0; 1; 0;   0; 4;
   0x41; 0; 1; 0; 20; 2; 253; 4; 0x86; 3; 1; 2;   1; 0; 0; 0; 0x40; 150].
Definition ex_stream : list N :=
  let c := crc_sum16 (crc_write crc_new ex_body) in ex_body ++ [c mod 256; c / 256].
(* small reads with an empty read in between, EOF delivered with the last byte *)
Definition ex_reader : reader := mk_reader ex_stream [1; 0; 1; 3; 1; 1; 2; 1; 1; 1; 7; 1]%nat TEOF true 0.

Lemma example_decode : exists r,
  entry_Decode no_opts g_init ex_reader 100 = TDone r /\ dr_err r = None /\
  (rd_pos (dr_rd r) = List.length ex_stream)%nat.
Proof. eexists. split; [vm_compute; reflexivity|]. split; reflexivity. Qed.

Lemma example_hyps :
  Forall (fun b => b < 256) (rd_data ex_reader) /\
  (List.length (rd_data ex_reader) + List.length (rd_sched ex_reader) < 100)%nat.
Proof. split; [repeat constructor|vm_compute; repeat constructor]. Qed.

Lemma example_cells :
  validate_cell (Some (false, base_uint32)) base_uint16 2 = VOk /\
  store_safe kind_native false base_uint32 base_uint16 2 = true /\
  validate_cell (Some (false, base_uint32)) base_uint32 3 = VErr.
Proof. vm_compute. repeat split. Qed.
