(* C01: the remaining named ingredients.
   - the string-array scanner of parseFitFieldArray (a for {} loop in Go)
     terminates: its model fuel S dsize is never the reason it stops;
   - Go index/slice bounds that the model does not represent as Panic
     outcomes, as facts about the generated constants: the local message type
     is inside the 16 slots, every slice of the scratch buffer is inside it;
   - the latent hole of the validator (float32 profile scalar + sint32
     definition) and why it is unreachable with the compiled profile. *)
From Coq Require Import NArith ZArith List Bool Arith Lia.
From FitV Require Import Proofs.Util Model.Values Model.Bytes Model.Base Model.Profile Model.Reflect Model.Decode
  Spec.ProfileWf Proofs.ProfileProofs Proofs.DecodeLemmas Proofs.C01Cells Gen.Consts.
Import ListNotations.
Local Open Scope N_scope.

(* ---- the string scanner: more fuel never changes the result *)
Lemma scan_strings_fuel buf dsize : forall f1 f2 j k acc,
  (dsize - (j + k) <= f1)%nat -> (dsize - (j + k) <= f2)%nat -> (j + k < dsize)%nat ->
  scan_strings f1 buf dsize j k acc = scan_strings f2 buf dsize j k acc.
Proof.
  induction f1 as [|f1 IH]; intros f2 j k acc H1 H2 Hlt; [lia|].
  destruct f2 as [|f2]; [lia|]. cbn [scan_strings].
  destruct (b_at buf (j + k) =? 0).
  - destruct (Nat.eqb k 0); [reflexivity|].
    destruct (Nat.leb_spec dsize (j + k + 1)) as [L|G]; [reflexivity|].
    apply IH; lia.
  - destruct (Nat.leb_spec dsize (j + S k)) as [L|G]; [reflexivity|].
    apply IH; lia.
Qed.

(* the fuel the model passes (S dsize) is enough: any larger fuel gives the same strings *)
Theorem string_scanner_terminates : forall buf dsize extra, (0 < dsize)%nat ->
  scan_strings (S dsize + extra) buf dsize 0 0 [] = scan_strings (S dsize) buf dsize 0 0 [].
Proof. intros buf dsize extra H. apply scan_strings_fuel; lia. Qed.

(* ---- bounds of the Go arrays the decoder indexes *)
(* d.defmsgs[localMsgType] (16 slots): normal headers address 0-15, compressed headers 0-3 *)
Theorem slots_in_bounds : forall b, b < 256 ->
  N.land b c_localMesgNumMask < c_maxLocalMesgs /\
  N.shiftr (N.land b c_compressedLocalMesgNumMask) 5 < 4 /\ 4 <= c_maxLocalMesgs.
Proof.
  intros b Hb. split; [apply normal_local_lt|]. split; [apply (compressed_local_2bits b Hb)|].
  unfold c_maxLocalMesgs. lia.
Qed.

(* d.tmp (765 bytes): the 3*fields bytes of a definition, a field of any size,
   the widened time/coordinate value *)
Theorem tmp_in_bounds : forall nf size, nf < 256 -> size < 256 ->
  3 * nf <= c_tmpLen /\ size <= c_tmpLen /\ 4 <= c_tmpLen /\ c_bytesForCRC <= c_tmpLen.
Proof. intros nf size H1 H2. unfold c_tmpLen, c_bytesForCRC. lia. Qed.

(* ---- the float hole of the validator *)
(* a float32 profile scalar with a sint32 definition of size 4: the validator
   accepts, and parseFitField then calls SetInt on a float field: panic.
   About the validator and parser as functions of the descriptor; the compiled
   profile has no such field (no_float_fields), so the main theorem is not
   affected. *)
Theorem validate_float_hole_refuted : exists pd bt size ty,
  pd = (false, base_float32) /\ ty = TF 32 /\
  validate_cell (Some pd) bt size = VOk /\
  forall be num buf, parse_fit_field be (mk_fdef num size bt) buf ty = FPanic 3 \/
                     parse_fit_field be (mk_fdef num size bt) buf ty = FPanic 5.
Proof.
  exists (false, base_float32), base_sint32, 4, (TF 32).
  split; [reflexivity|]. split; [reflexivity|]. split; [vm_compute; reflexivity|].
  intros be num buf. unfold parse_fit_field. cbn [fd_btype].
  change (is_u8like base_sint32) with false. cbv iota.
  change (base_sint32 =? base_sint8) with false. change (base_sint32 =? base_sint16) with false.
  change ((base_sint32 =? base_uint16) || (base_sint32 =? base_uint16z)) with false.
  change (base_sint32 =? base_sint32) with true. cbv iota.
  destruct (Nat.ltb (List.length buf) 4); [right|left]; reflexivity.
Qed.

(* the hole is exactly the descriptors the profile checker excludes *)
Theorem float_hole_excluded : forall k arr, desc_valid k arr base_float32 = false.
Proof.
  intros k arr. unfold desc_valid.
  replace (base_storable base_float32) with false by (vm_compute; reflexivity).
  now rewrite andb_false_r.
Qed.
