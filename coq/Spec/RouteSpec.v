(* C03: what routing must do, read off the container struct types, and the
   boolean checker comparing it with the routing observed by probing the real
   add methods (Gen/RoutingData.v). *)
From Coq Require Import NArith ZArith List Bool String.
From FitV Require Import Model.Values Model.Reflect Model.Profile Model.Header Model.Components Model.Route
  Gen.Consts Gen.RoutingData.
Import ListNotations.
Local Open Scope N_scope.

(* the 17 file types the library has a container for *)
Definition valid_file_types : list N := [1; 2; 3; 4; 5; 6; 7; 9; 10; 11; 14; 15; 20; 28; 32; 34; 35].
Definition ft_valid (ft : N) : bool := existsb (N.eqb ft) valid_file_types.

Definition slots_of (ft : N) : list (string * bool * N) :=
  match ft_entry ft with Some (true, _, s) => s | _ => [] end.

(* "held by": a slot of type *T or []*T holds message type T *)
Fixpoint find_slot_from (l : list (string * bool * N)) (mn : N) (i : nat) : option (nat * bool) :=
  match l with
  | [] => None
  | (_, multi, held) :: r => if held =? mn then Some (i, multi) else find_slot_from r mn (S i)
  end.
Definition find_slot (ft mn : N) : option (nat * bool) := find_slot_from (slots_of ft) mn 0.

(* message types whose components are expanded when stored (C18): record, lap,
   session, segment_lap, event *)
Definition expands (mn : N) : bool :=
  (mn =? c_MesgNumRecord) || (mn =? c_MesgNumLap) || (mn =? c_MesgNumSession) ||
  (mn =? c_MesgNumSegmentLap) || (mn =? c_MesgNumEvent).

Definition expected_routes (ft mn : N) : list (nat * rmode * bool) :=
  match find_slot ft mn with
  | Some (i, multi) => [(i, if multi then RAppend else ROverwrite, if Nat.ltb i NCOMMON then false else expands mn)]
  | None => []
  end.

Definition rmode_eqb (a b : rmode) : bool :=
  match a, b with RAppend, RAppend | ROverwrite, ROverwrite | ROther, ROther => true | _, _ => false end.
Definition route_eqb (a b : nat * rmode * bool) : bool :=
  let '(i, m, e) := a in let '(j, n, f) := b in Nat.eqb i j && rmode_eqb m n && Bool.eqb e f.
Fixpoint routes_eqb (a b : list (nat * rmode * bool)) : bool :=
  match a, b with
  | [], [] => true
  | x :: a', y :: b' => route_eqb x y && routes_eqb a' b'
  | _, _ => false
  end.

Fixpoint nodup_N (l : list N) : bool :=
  match l with [] => true | x :: r => negb (existsb (N.eqb x) r) && nodup_N r end.

Definition routing_of_ft (ft : N) : list (N * list (nat * rmode * bool)) :=
  match find (fun e => fst e =? ft) routing with Some (_, l) => l | None => [] end.

Fixpoint slots_eqb (a b : list (string * bool * N)) : bool :=
  match a, b with
  | [], [] => true
  | (n1, m1, h1) :: a', (n2, m2, h2) :: b' => String.eqb n1 n2 && Bool.eqb m1 m2 && (h1 =? h2) && slots_eqb a' b'
  | _, _ => false
  end.

(* per valid file type *)
Definition ft_routing_ok (ft : N) : bool :=
  let slots := slots_of ft in
  (* the common slots come first and are the same everywhere *)
  Nat.leb NCOMMON (List.length slots) &&
  (* every observed route is the expected one *)
  forallb (fun e : N * list (nat * rmode * bool) => routes_eqb (snd e) (expected_routes ft (fst e))) (routing_of_ft ft) &&
  (* every slot's message type is routed (to that slot) *)
  forallb (fun s : string * bool * N =>
             let '(_, _, held) := s in
             match routes_of ft held with [] => false | _ :: _ => true end) slots &&
  (* no message type is held by two slots *)
  nodup_N (map (fun s : string * bool * N => snd s) slots) &&
  (* expansion is modelled wherever it is expected *)
  forallb (fun s : string * bool * N =>
             let '(_, _, held) := s in
             if expands held then
               match mesg_all_invalid held with
               | Some m => match expand_components g_init m with Some _ => true | None => false end
               | None => false
               end
             else true) slots &&
  (* the first five slots are the File's own fields, identical for every type *)
  slots_eqb (firstn NCOMMON slots) (firstn NCOMMON (slots_of first_valid_ft)).

(* init accepts exactly the 17 valid types, for all 256 values *)
Definition init_ok : bool :=
  forallb (fun e : N * bool * string * list (string * bool * N) =>
             let '(ft, ok, _, _) := e in Bool.eqb ok (ft_valid ft)) file_types &&
  Nat.eqb (List.length file_types) 256 &&
  nodup_N (map (fun e : N * bool * string * list (string * bool * N) => fst (fst (fst e))) file_types) &&
  forallb (fun ft => match ft_entry ft with Some (true, _, _) => true | _ => false end) valid_file_types &&
  negb (ft_valid c_FileTypeInvalid) &&
  forallb (fun ft => negb ((c_FileTypeMfgRangeMin <=? ft) && (ft <=? c_FileTypeMfgRangeMax))) valid_file_types.

(* accessors: on a file of valid type ft exactly the accessor returning ft's
   container type succeeds, and it returns the container *)
Definition accessors_ok : bool :=
  forallb (fun ft =>
    match find (fun e : N * list (string * bool * bool) => fst e =? ft) accessor_obs, ft_entry ft with
    | Some (_, obs), Some (true, cname, _) =>
        Nat.eqb (List.length obs) (List.length accessors) &&
        forallb (fun o : string * bool * bool =>
                   let '(name, ok, is_cont) := o in
                   match find (fun a : string * string => String.eqb (fst a) name) accessors with
                   | Some (_, ret) => Bool.eqb ok (String.eqb ret cname) && Bool.eqb is_cont ok
                   | None => false
                   end) obs &&
        (* exactly one accessor matches *)
        Nat.eqb (List.length (filter (fun a : string * string => String.eqb (snd a) cname) accessors)) 1
    | _, _ => false
    end) valid_file_types.

Definition routing_wf : bool :=
  forallb ft_routing_ok valid_file_types && init_ok && accessors_ok.

(* for the harness: which file types fail *)
Definition routing_wf_report : list N :=
  filter (fun ft => negb (ft_routing_ok ft)) valid_file_types
  ++ (if init_ok then [] else [1000]) ++ (if accessors_ok then [] else [1001]).

(* ---- the statement side of route_spec *)

(* the message as the container stores it: components expanded where C18
   prescribes; the accumulator state is threaded in stream order *)
Definition stored (ft : N) (g : gstate) (m : msg) : option (msg * gstate) :=
  match find_slot ft (m_num m) with
  | Some (i, _) =>
      if Nat.ltb i NCOMMON then Some (m, g)
      else if expands (m_num m) then expand_components g m else Some (m, g)
  | None => Some (m, g)
  end.

Fixpoint stored_seq (ft : N) (g : gstate) (ms : list msg) : option (list msg) :=
  match ms with
  | [] => Some []
  | m :: r =>
      match stored ft g m with
      | None => None
      | Some (m', g') => match stored_seq ft g' r with Some l => Some (m' :: l) | None => None end
      end
  end.

(* File.add over a sequence of messages *)
Fixpoint adds (f : file) (g : gstate) (ms : list msg) : add_result :=
  match ms with
  | [] => AddOk f g
  | m :: r => match file_add f g m with AddOk f' g' => adds f' g' r | p => p end
  end.

Definition dummy_msg : msg := mk_msg 0 [].

(* what slot i must contain after adding ms to a file whose slot held init *)
Definition slot_contents (multi : bool) (held : N) (init : list msg) (sm : list msg) : list msg :=
  let placed := filter (fun m => m_num m =? held) sm in
  if multi then init ++ placed
  else match placed with [] => init | _ :: _ => [last placed dummy_msg] end.
