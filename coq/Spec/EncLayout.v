(* The record list Encode lays out for a File, as executable definitions (no proofs; imports Model, Spec and
   Gen only, so that extraction does not depend on any proof file): the definition writeDefMesg writes for a
   profile entry, the bytes writeMesg writes for a field, and the records of a message, a slot, a File.
   Lemmas about them: Proofs/C05Grammar.v, Proofs/C06Defs.v, Proofs/C06Lay.v, Proofs/C06Recs.v. *)
From Coq Require Import NArith ZArith List Bool String.
From FitV Require Import Model.Values Model.Bytes Model.Base Model.Profile Model.Components Model.Route Model.Encode
  Spec.FitSyntax.
Import ListNotations.
Local Open Scope N_scope.

(* the size byte writeDefMesg writes for a profile entry *)
Definition fsize (pf : pfield) : N :=
  let bt := fit_base (pf_t pf) in
  match b_size bt with
  | Some bs => if bt =? base_string then pf_length pf
               else if fit_array (pf_t pf) then (bs mod 256 * pf_length pf) mod 256 else bs mod 256
  | None => 0
  end.


(* the bytes writeMesg writes for one field of the definition *)
Definition field_out (be : bool) (m : msg) (pf : pfield) : eres (list N) :=
  match nth_error (m_fields m) (pf_sindex pf), field_type (m_num m) (pf_sindex pf) with
  | Some v, Some ty => write_field be pf ty v
  | _, _ => EPanic 2
  end.


Definition sfdef_of (pf : pfield) : sfdef := mk_sfdef (pf_num pf) (fsize pf) (fit_base (pf_t pf)).


Definition rdef_of (be : bool) (gmn : N) (fields : list pfield) : record := RDef 0 be gmn (map sfdef_of fields) false [].
Definition rdata_of (parts : list (list N)) : record := RData 0 (List.concat parts) [].


Definition out_of (be : bool) (m : msg) (pf : pfield) : list N := match field_out be m pf with EOk p => p | _ => [] end.
Definition parts_of (be : bool) (m : msg) (fields : list pfield) : list (list N) := map (out_of be m) fields.

Definition unit_recs (be : bool) (m : msg) : list record :=
  match get_encode_mesg_def m with
  | EOk fs => [rdef_of be (m_num m) fs; rdata_of (parts_of be m fs)]
  | _ => []
  end.
Definition slice_recs (be : bool) (ms : list msg) : list record :=
  match ms with
  | [] => []
  | _ => match collect_fields ms [] with
         | EOk fs => rdef_of be (m_num (last ms (mk_msg 0 []))) fs :: map (fun m => rdata_of (parts_of be m fs)) ms
         | _ => []
         end
  end.
Definition slot_recs (be : bool) (multi : bool) (ms : list msg) : list record :=
  if multi then slice_recs be ms else flat_map (unit_recs be) ms.
Fixpoint slots_recs (be : bool) (i : nat) (descs : list (string * bool * N)) (slots : list (list msg)) : list record :=
  match descs, slots with
  | (_, multi, _) :: dr, s :: sr =>
      (if Nat.eqb i 3 || Nat.eqb i 4 then [] else slot_recs be multi s) ++ slots_recs be (S i) dr sr
  | _, _ => []
  end.
(* the records of a File: FileId, FileCreator, TimestampCorrelation, then the container's fields *)
Definition file_recs (f : file) (be : bool) : list record :=
  match ft_entry (file_type f) with
  | Some (true, _, descs) => slots_recs be 0 descs (f_slots f)
  | _ => []
  end.

