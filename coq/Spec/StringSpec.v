(* C20 -- the property's own statement about String: which texts are allowed for
   a value of a generated FIT type, given only the type's name and its list of
   (constant name, value) pairs.  Independent of the model in Model/Stringer.v
   (own prefix stripping, own decimal numerals). *)
From Coq Require Import NArith List String Ascii Bool.
Import ListNotations.
Local Open Scope N_scope.

(* the constant's name without the type prefix: Some rest when s = p ++ rest *)
Fixpoint strip (p s : string) : option string :=
  match p with
  | EmptyString => Some s
  | String a p' =>
      match s with
      | EmptyString => None
      | String b s' => if Ascii.eqb a b then strip p' s' else None
      end
  end.

Definition short_name (tname cname : string) : string :=
  match strip tname cname with Some r => r | None => cname end.

(* the names that String may print for value v: the short names of all
   constants of the type that have value v ("any one of the names when several
   share a value") *)
Definition names_of (tname : string) (consts : list (string * N)) (v : N) : list string :=
  map (fun c => short_name tname (fst c)) (filter (fun c => snd c =? v) consts).

Definition is_const_value (consts : list (string * N)) (v : N) : Prop := In v (map snd consts).

(* decimal numerals *)
Definition digit_char (d : N) : ascii :=
  match d with
  | 0 => "0" | 1 => "1" | 2 => "2" | 3 => "3" | 4 => "4"
  | 5 => "5" | 6 => "6" | 7 => "7" | 8 => "8" | _ => "9"
  end%char.

Fixpoint decimal_fuel (fuel : nat) (n : N) : string :=
  match fuel with
  | O => EmptyString
  | S f => if n <? 10 then String (digit_char n) EmptyString
           else (decimal_fuel f (n / 10) ++ String (digit_char (n mod 10)) EmptyString)%string
  end.

Definition decimal (n : N) : string := decimal_fuel (S (N.size_nat n)) n.

(* what a numeral denotes; used to state that [decimal] is the canonical one *)
Definition digit_value (c : ascii) : option N :=
  let k := N_of_ascii c in if (48 <=? k) && (k <=? 57) then Some (k - 48) else None.

Fixpoint numeral_value_acc (s : string) (acc : N) : option N :=
  match s with
  | EmptyString => Some acc
  | String c r => match digit_value c with
                  | Some d => numeral_value_acc r (10 * acc + d)
                  | None => None
                  end
  end.

Definition numeral_value (s : string) : option N :=
  match s with EmptyString => None | _ => numeral_value_acc s 0 end.

Definition no_leading_zero (s : string) : bool :=
  match s with
  | String c (String _ _) => negb (Ascii.eqb c "0"%char)
  | _ => true
  end.

(* every value that is not the value of a constant prints as Type(n) *)
Definition other_text (tname : string) (v : N) : string :=
  (tname ++ "(" ++ decimal v ++ ")")%string.
