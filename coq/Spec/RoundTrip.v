(* C06 / C07: the representable domain and the comparators, exactly as the
   property texts and DESIGN.md section 6 fix them.

   C06  in_domain: strings valid UTF-8 without NUL that fit (len <= length - 1),
        arrays no longer than the profile length, whole-second timestamps in
        [epoch, epoch + 2^32 - 2] (local ones by their wall-clock reading), valid
        coordinates; records carrying a valid compressed_speed_distance are
        outside (process-wide accumulator, DESIGN.md 7 no. 9).
        content_eq6 f f': same file type, per slot the same number of messages
        in the same order, field-for-field equal after [norm_msg]: arrays up to
        trailing invalid padding (nil = empty), local timestamps by wall clock,
        UTC timestamps by instant, derived fields as the component rule
        prescribes (the expansion the container applies, on fresh accumulators),
        unset fields invalid.
   C07  content_eq7 f1 f2: per slot (= per message type) equal counts, scalars by
        value, local_date_time by wall clock, arrays on the first [length]
        elements and strings on the first [length - 1] bytes (the encoder keeps
        the terminator FIT requires), both after stripping trailing invalid
        padding.  The hidden developer-data slots 3 and 4 are not reachable
        through the public API and are not compared. *)
From Coq Require Import NArith ZArith List Bool String.
From FitV Require Import Model.Values Model.Base Model.Profile Model.Components Model.Route Model.Encode
  Spec.Grammar Gen.RoutingData Gen.Consts.
Import ListNotations.
Local Open Scope N_scope.

Definition is_inv (bt : N) (v : goval) : bool :=
  match b_invalid bt with Some iv => goval_eqb v iv | None => false end.

(* drop trailing invalid elements *)
Fixpoint strip_trailing (bt : N) (l : list goval) : list goval :=
  match l with
  | [] => []
  | x :: r =>
      match strip_trailing bt r with
      | [] => if is_inv bt x then [] else [x]
      | r' => x :: r'
      end
  end.

Definition elems (v : goval) : list goval := match v with VList l => l | _ => [] end.

Definition norm_field (pf : pfield) (v : goval) : goval :=
  let t := pf_t pf in
  if fit_array t then
    if fit_base t =? base_string then (match v with VNil => VList [] | _ => v end)
    else VList (strip_trailing (fit_base t) (elems v))
  else if fit_kind t =? kind_timelocal then
    match v with
    | VTime s n z => VTime (s + match z with Some o => o | None => 0 end)%Z n None
    | _ => v
    end
  else if fit_kind t =? kind_timeutc then
    match v with VTime s n _ => VTime s n None | _ => v end
  else v.

(* C07: the fixed lengths the profile gives strings and arrays *)
Definition trunc_field (pf : pfield) (v : goval) : goval :=
  let t := pf_t pf in
  if fit_array t then
    match v with VList l => VList (firstn (N.to_nat (pf_length pf)) l) | _ => v end
  else if fit_base t =? base_string then
    match v with VStr s => VStr (firstn (N.to_nat (pf_length pf) - 1) s) | _ => v end
  else v.

Fixpoint map_fields (f : pfield -> goval -> goval) (gmn : N) (i : nat) (vals : list goval) : list goval :=
  match vals with
  | [] => []
  | v :: r => (match pfield_of_sindex gmn i with Some pf => f pf v | None => v end) :: map_fields f gmn (S i) r
  end.

Definition norm_msg (m : msg) : msg := mk_msg (m_num m) (map_fields norm_field (m_num m) 0 (m_fields m)).
Definition trunc_msg (m : msg) : msg := mk_msg (m_num m) (map_fields trunc_field (m_num m) 0 (m_fields m)).

(* does the container of file type ft expand the components of the messages of slot i? *)
Definition slot_expands (ft : N) (i : nat) (mn : N) : bool :=
  existsb (fun r => let '(s, _, e) := r in Nat.eqb s i && e) (routes_of ft mn).

(* the component rule on fresh accumulators *)
Definition expected_msg (ft : N) (i : nat) (m : msg) : msg :=
  if slot_expands ft i (m_num m) then
    match expand_components g_init m with Some (m', _) => m' | None => m end
  else m.

Definition msg_eqb (a b : msg) : bool :=
  (m_num a =? m_num b) && forall2b goval_eqb (m_fields a) (m_fields b).

Definition opt_n_eqb (a b : option N) : bool :=
  match a, b with Some x, Some y => x =? y | None, None => true | _, _ => false end.

Definition hidden_slot (i : nat) : bool := Nat.eqb i 3 || Nat.eqb i 4.

Fixpoint slots_eq (cmp : nat -> msg -> msg -> bool) (i : nat) (a b : list (list msg)) : bool :=
  match a, b with
  | [], [] => true
  | s :: ar, s' :: br =>
      (if hidden_slot i then true else forall2b (cmp i) s s') && slots_eq cmp (S i) ar br
  | _, _ => false
  end.

Definition ft_of (f : file) : N := match f_inited f with Some ft => ft | None => 0 end.

Definition cmp6 (ft : N) (i : nat) (m m' : msg) : bool := msg_eqb (norm_msg (expected_msg ft i m)) (norm_msg m').
Definition cmp7 (i : nat) (m m' : msg) : bool := msg_eqb (norm_msg (trunc_msg m)) (norm_msg (trunc_msg m')).

Definition no_hidden (f : file) : bool :=
  match nth 3 (f_slots f) [], nth 4 (f_slots f) [] with [], [] => true | _, _ => false end.

(* C06: f is what was put in, f' what Decode returned *)
Definition content_eq6 (f f' : file) : bool :=
  opt_n_eqb (f_inited f) (f_inited f') && no_hidden f' && slots_eq (cmp6 (ft_of f)) 0 (f_slots f) (f_slots f').

(* C07: two generations of decoded content *)
Definition content_eq7 (f1 f2 : file) : bool :=
  opt_n_eqb (f_inited f1) (f_inited f2) && slots_eq cmp7 0 (f_slots f1) (f_slots f2).

(* where two files first differ: (slot, message index, struct field index);
   a count mismatch is reported with message index = the shorter length *)
Fixpoint first_field_diff (a b : list goval) (i : nat) : nat :=
  match a, b with
  | x :: ar, y :: br => if goval_eqb x y then first_field_diff ar br (S i) else i
  | _, _ => i
  end.
Fixpoint first_msg_diff (na nb : msg -> msg) (a b : list msg) (j : nat) : option (nat * nat) :=
  match a, b with
  | [], [] => None
  | m :: ar, m' :: br =>
      if msg_eqb (na m) (nb m') then first_msg_diff na nb ar br (S j)
      else Some (j, first_field_diff (m_fields (na m)) (m_fields (nb m')) 0)
  | _, _ => Some (j, 999%nat)
  end.
Fixpoint first_slot_diff (na nb : nat -> msg -> msg) (i : nat) (a b : list (list msg)) : option (nat * nat * nat) :=
  match a, b with
  | [], [] => None
  | s :: ar, s' :: br =>
      match (if hidden_slot i then None else first_msg_diff (na i) (nb i) s s' 0) with
      | Some (j, k) => Some (i, j, k)
      | None => first_slot_diff na nb (S i) ar br
      end
  | _, _ => Some (i, 999%nat, 999%nat)
  end.
Definition diff6 (f f' : file) : option (nat * nat * nat) :=
  first_slot_diff (fun i m => norm_msg (expected_msg (ft_of f) i m)) (fun _ m => norm_msg m) 0 (f_slots f) (f_slots f').
Definition diff7 (f1 f2 : file) : option (nat * nat * nat) :=
  first_slot_diff (fun _ m => norm_msg (trunc_msg m)) (fun _ m => norm_msg (trunc_msg m)) 0 (f_slots f1) (f_slots f2).

(* ---------------------------------------------------------------- domain *)
Definition z_in (lo hi z : Z) : bool := (lo <=? z)%Z && (z <=? hi)%Z.

Definition int_in_type (ty : gotype) (v : goval) : bool :=
  match ty, v with
  | TU bits, VU n => n <? 2 ^ bits
  | TI bits, VI z => z_in (- Z.of_N (2 ^ (bits - 1))) (Z.of_N (2 ^ (bits - 1)) - 1) z
  | _, _ => false
  end.

Definition field_in_domain (pf : pfield) (ty : gotype) (v : goval) : bool :=
  let t := pf_t pf in
  let k := fit_kind t in
  if fit_array t then
    if fit_base t =? base_string then match v with VNil => true | VList [] => true | _ => false end
    else match v with
         | VNil => true
         | VList l => (N.of_nat (List.length l) <=? pf_length pf) && forallb (int_in_type (elem_type ty)) l
         | _ => false
         end
  else if k =? kind_timeutc then
    match v with VTime s n _ => (n =? 0) && z_in 0 4294967294 s | _ => false end
  else if k =? kind_timelocal then
    match v with
    | VTime s n z => (n =? 0) && z_in (-8589934592) 8589934592 s
                     && z_in 0 4294967294 (s + match z with Some o => o | None => 0 end)
    | _ => false
    end
  else if k =? kind_lat then
    match v with VLat z => (z =? 0x7FFFFFFF)%Z || z_in (-1073741824) 1073741823 z | _ => false end
  else if k =? kind_lng then
    match v with VLng z => z_in (-2147483648) 2147483647 z | _ => false end
  else if fit_base t =? base_string then
    match v with
    | VStr s => forallb (fun b => (0 <? b) && (b <? 256)) s && utf8_valid s
                && (N.of_nat (List.length s) + 1 <=? pf_length pf)
    | _ => false
    end
  else int_in_type ty v.

Fixpoint fields_in_domain (gmn : N) (i : nat) (vals : list goval) : bool :=
  match vals with
  | [] => true
  | v :: r =>
      (match pfield_of_sindex gmn i, field_type gmn i with
       | Some pf, Some ty => field_in_domain pf ty v
       | _, _ => false
       end) && fields_in_domain gmn (S i) r
  end.

(* no valid compressed_speed_distance: after padding to the profile length 3
   every element is 0xFF, so expandComponents does not touch the accumulator *)
Definition csd_free (m : msg) : bool :=
  if m_num m =? c_MesgNumRecord then
    match fld m "CompressedSpeedDistance" with
    | VList l => forallb (fun v => goval_eqb v (VU 255)) (firstn 3 l)
    | _ => true
    end
  else true.

Definition msg_in_domain (m : msg) : bool := fields_in_domain (m_num m) 0 (m_fields m) && csd_free m.

Definition in_domain (f : file) : bool := forallb msg_in_domain (file_msgs f).

(* ---------------------------------------------------------------- well-formed Files *)
(* wf_file: what a Go File built through the public API always satisfies: the
   container init created is the one FileId.Type names, every slot holds
   messages of its message type, every struct field holds a value of its Go
   type, pointer slots hold at most one message and FileId exactly one. *)
Fixpoint val_has_type (ty : gotype) (v : goval) {struct v} : bool :=
  match ty, v with
  | TU bits, VU n => n <? 2 ^ bits
  | TI bits, VI z => z_in (- Z.of_N (2 ^ (bits - 1))) (Z.of_N (2 ^ (bits - 1)) - 1) z
  | TF bits, VF n => n <? 2 ^ bits
  | TStr, VStr s => forallb (fun b => b <? 256) s
  | TTime, VTime _ n _ => n <? 1000000000
  | TLat, VLat z => z_in (-2147483648) 2147483647 z
  | TLng, VLng z => z_in (-2147483648) 2147483647 z
  | TSlice _, VNil => true
  | TSlice t, VList l =>
      (fix go (l : list goval) : bool :=
         match l with [] => true | x :: r => val_has_type t x && go r end) l
  | _, _ => false
  end.

Fixpoint vals_typed (layout : list (string * gotype)) (vals : list goval) : bool :=
  match layout, vals with
  | [], [] => true
  | (_, ty) :: lr, v :: vr => val_has_type ty v && vals_typed lr vr
  | _, _ => false
  end.

Definition msg_wf (mn : N) (m : msg) : bool := (m_num m =? mn) && vals_typed (msg_layout mn) (m_fields m).

Fixpoint slots_wf (i : nat) (descs : list (string * bool * N)) (slots : list (list msg)) : bool :=
  match descs, slots with
  | [], [] => true
  | (_, multi, mn) :: dr, s :: sr =>
      forallb (msg_wf mn) s
      && (multi || Nat.leb (List.length s) 1)
      && (if Nat.eqb i 0 then Nat.eqb (List.length s) 1 else true)
      && slots_wf (S i) dr sr
  | _, _ => false
  end.

Definition wf_file (f : file) : bool :=
  match f_inited f with
  | Some ft =>
      (ft =? file_type f) &&
      match ft_entry ft with
      | Some (true, _, descs) => slots_wf 0 descs (f_slots f)
      | _ => false
      end
  | None => false
  end.
