(* C15: the boolean well-formedness checker of the compiled-in profile
   (Gen/ProfileData.v as regenerated from the current source), one named check
   per clause of the property so that a failure names what broke. *)
From Coq Require Import NArith ZArith List Bool String.
From FitV Require Import Model.Values Model.Base Model.Profile Gen.ProfileData Gen.RoutingData Gen.Consts Gen.BaseTables.
Import ListNotations.
Local Open Scope N_scope.

(* the Go type the generator assigns to a base type (internal/types bgotype) *)
Definition gotype_of_base (b : N) : gotype :=
  if (b =? base_enum) || (b =? base_uint8) || (b =? base_uint8z) || (b =? base_byte) then TU 8
  else if b =? base_sint8 then TI 8
  else if b =? base_sint16 then TI 16
  else if (b =? base_uint16) || (b =? base_uint16z) then TU 16
  else if b =? base_sint32 then TI 32
  else if (b =? base_uint32) || (b =? base_uint32z) then TU 32
  else if b =? base_string then TStr
  else if b =? base_float32 then TF 32
  else if b =? base_float64 then TF 64
  else if b =? base_sint64 then TI 64
  else if (b =? base_uint64) || (b =? base_uint64z) then TU 64
  else TOther.

(* the Go type denoted by a types.Fit code: base type, array flag, kind *)
Definition gotype_of_fit (t : N) : gotype :=
  let k := fit_kind t in
  let elem :=
    if k =? kind_native then gotype_of_base (fit_base t)
    else if (k =? kind_timeutc) || (k =? kind_timelocal) then TTime
    else if k =? kind_lat then TLat
    else if k =? kind_lng then TLng
    else TOther in
  if fit_array t then TSlice elem else elem.

(* the invalid value of a types.Fit code, as a Go value of that type *)
Definition invalid_of_fit (t : N) : goval :=
  let k := fit_kind t in
  if fit_array t then VNil
  else if k =? kind_native then match b_invalid (fit_base t) with Some v => v | None => VOther end
  else if (k =? kind_timeutc) || (k =? kind_timelocal) then VTime 0 0 None
  else if k =? kind_lat then VLat 0x7FFFFFFF
  else if k =? kind_lng then VLng 0x7FFFFFFF
  else VOther.

Definition base_storable (b : N) : bool :=
  (* what parseFitField / parseFitFieldArray can store and the profile may use:
     known, not float, not 64 bit *)
  match b_known b, b_size b, b_float b with
  | Some true, Some s, Some false => (1 <=? s) && (s <=? 4)
  | _, _, _ => false
  end.

Fixpoint nodup_nat (l : list nat) : bool :=
  match l with
  | [] => true
  | x :: r => negb (existsb (Nat.eqb x) r) && nodup_nat r
  end.

(* ---- per entry *)
Definition entry_ok (m : msgdesc) (e : N * pfield) : bool :=
  let '(k, pf) := e in
  let t := pf_t pf in
  (pf_num pf =? k) && (k <? 256) && (t <? 512) &&
  Nat.ltb (pf_sindex pf) (List.length (md_layout m)) &&
  (fit_kind t <=? 4) &&
  base_storable (fit_base t) &&
  (* time and coordinate kinds are scalars over their fixed base types *)
  (if fit_kind t =? kind_native then true
   else negb (fit_array t) &&
        (if (fit_kind t =? kind_timeutc) || (fit_kind t =? kind_timelocal) then fit_base t =? base_uint32
         else fit_base t =? base_sint32)) &&
  (* Go type of the struct field = type denoted by the entry *)
  match nth_error (md_layout m) (pf_sindex pf) with
  | Some (_, ty) => gotype_eqb ty (gotype_of_fit t)
  | None => false
  end &&
  (* the constructor initialises it to the type's invalid value *)
  match nth_error (md_invalid m) (pf_sindex pf) with
  | Some v => goval_eqb v (invalid_of_fit t)
  | None => false
  end &&
  (* encoded sizes fit in one byte *)
  (if fit_array t || (fit_base t =? base_string) then
     match b_size (fit_base t) with
     | Some s => (1 <=? pf_length pf) && (s * pf_length pf <=? 255)
     | None => false
     end
   else true) &&
  (* field 253 is the scalar UTC timestamp wherever present *)
  (if k =? c_fieldNumTimeStamp then (fit_kind t =? kind_timeutc) else true).

(* ---- per message *)
Definition msg_ok (m : msgdesc) : bool :=
  (* entries exist only under known messages, inside the table *)
  (match md_entries m with [] => true | _ :: _ => md_known m && (md_num m <? fields_len) end) &&
  (if md_known m then
     md_has_ctor m && md_has_type m &&
     (md_num m <? newmesgfuncs_len) && (md_num m <? msgstypes_len) &&
     String.eqb (md_name m) (md_ctor_type m) &&
     Nat.eqb (List.length (md_layout m)) (List.length (md_invalid m)) &&
     forallb (entry_ok m) (md_entries m) &&
     (* distinct struct fields; every struct field covered by exactly one entry *)
     nodup_nat (map (fun e => pf_sindex (snd e)) (md_entries m)) &&
     Nat.eqb (List.length (md_entries m)) (List.length (md_layout m)) &&
     nodup_nat (map (fun e => N.to_nat (fst e)) (md_entries m))
   else true).

Definition known_consistent : bool :=
  forallb (fun k => match find_msg k with Some m => md_known m | None => false end) known_msgnums &&
  forallb (fun m => Bool.eqb (md_known m) (existsb (N.eqb (md_num m)) known_msgnums)) messages &&
  match known_false_keys with [] => true | _ :: _ => false end &&
  nodup_nat (map (fun m => N.to_nat (md_num m)) messages).

(* every message type held by a file container is known *)
Definition containers_ok : bool :=
  forallb (fun e : N * bool * string * list (string * bool * N) =>
    let '(_, ok, _, slots) := e in
    if ok then forallb (fun s : string * bool * N => let '(_, _, mn) := s in known_msg mn) slots else true) file_types.

(* file_id carries the file type in a byte-sized field named Type *)
Definition fileid_ok : bool :=
  known_msg c_MesgNumFileId &&
  match sindex_of c_MesgNumFileId "Type"%string with
  | Some i => match field_type c_MesgNumFileId i with Some (TU 8) => true | _ => false end
  | None => false
  end.

(* the hand-written bit layout of types.Fit agrees with the exported methods *)
Definition fit_layout_ok : bool :=
  (fix go (l : list (N * bool * N)) (i : N) : bool :=
     match l with
     | [] => true
     | (k, a, b) :: r => (fit_kind i =? k) && Bool.eqb (fit_array i) a && (fit_base i =? b) && go r (i + 1)
     end) fit_table 0.

(* the base-type tables are total on the 17 known types and Known is exactly them *)
Definition base_tables_ok : bool :=
  forallb (fun b =>
    match b_known b with
    | None => false
    | Some true =>
        match b_size b, b_signed b, b_integer b, b_invalid b with
        | Some s, Some _, Some _, Some _ => 1 <=? s
        | _, _, _, _ => false
        end
    | Some false => true
    end) ((fix rng (n : nat) (s : N) := match n with O => [] | S k => s :: rng k (s + 1) end) 256%nat 0).

Definition profile_wf : bool :=
  forallb msg_ok messages && known_consistent && containers_ok && fileid_ok && fit_layout_ok && base_tables_ok.

(* what failed, for the harness: (message number, field number or 65535, check code) *)
Definition profile_wf_report : list (N * N * N) :=
  flat_map (fun m =>
    (if msg_ok m then [] else
       match filter (fun e => negb (entry_ok m e)) (md_entries m) with
       | [] => [(md_num m, 65535, 1)]
       | bad => map (fun e => (md_num m, fst e, 2)) bad
       end)) messages
  ++ (if known_consistent then [] else [(65535, 65535, 3)])
  ++ (if containers_ok then [] else [(65535, 65535, 4)])
  ++ (if fileid_ok then [] else [(0, 65535, 5)])
  ++ (if fit_layout_ok then [] else [(65535, 65535, 6)])
  ++ (if base_tables_ok then [] else [(65535, 65535, 7)]).
