(* C05: the FIT protocol grammar as a recogniser, written independently of the
   decoder model (nothing of Model/Decode.v, Model/IO.v or Model/Header.v is used; the
   checksum is the bitwise CRC-16/ARC of Spec/CrcSpec.v; base-type sizes are a
   table of this file).

     file    ::= header record* crc16
     header  ::= size(12|14) proto profile16 datasize32 ".FIT" [crc16]
                 datasize = number of record bytes; crc16 = 0 or CRC of the 12 bytes
     record  ::= definition | data
     definition ::= 0b010d_llll 0x00 arch(0|1) gmn16 n (num size btype){n} [ndev (num size idx){ndev}]
                 every size a multiple of the size of btype, btype a FIT base type
     data    ::= 0b0000_llll payload | 0b1ll_ttttt payload
                 the local type must be defined; payload = sum of the field sizes
                 (+ developer field sizes) of that definition
     crc16   ::= CRC-16/ARC of everything before it, little endian

   Result: the data records in order, each with its global message number, the
   byte order of its definition and (field number, base type, raw bytes) per
   field.  Second part: [wire_ok], the comparison of those records with the
   values held by a File. *)
From Coq Require Import NArith ZArith List Bool String.
From FitV Require Import Model.Values Model.Base Model.Profile Model.Components Model.Route Spec.CrcSpec
  Gen.RoutingData.
Import ListNotations.
Local Open Scope N_scope.

Record grec := mk_grec { gr_gmn : N; gr_be : bool; gr_fields : list (N * N * list N) }.
Record gdef := mk_gdef { gd_gmn : N; gd_be : bool; gd_fields : list (N * N * N); gd_dev : N }.

(* little / big endian number of a byte list *)
Fixpoint le_num (l : list N) : N := match l with [] => 0 | b :: r => b + 256 * le_num r end.
Definition be_num (l : list N) : N := le_num (rev l).
Definition num_of (be : bool) (l : list N) : N := if be then be_num l else le_num l.

(* FIT base types: (base type byte, size in bytes) *)
Definition fit_base_types : list (N * N) :=
  [(0x00, 1); (0x01, 1); (0x02, 1); (0x83, 2); (0x84, 2); (0x85, 4); (0x86, 4); (0x07, 1); (0x88, 4);
   (0x89, 8); (0x0A, 1); (0x8B, 2); (0x8C, 4); (0x0D, 1); (0x8E, 8); (0x8F, 8); (0x90, 8)].
Definition base_size_of (bt : N) : option N :=
  match find (fun e => fst e =? bt) fit_base_types with Some e => Some (snd e) | None => None end.

Definition take (n : nat) (l : list N) : option (list N * list N) :=
  if Nat.leb n (List.length l) then Some (firstn n l, skipn n l) else None.

Fixpoint triples (l : list N) : list (N * N * N) :=
  match l with a :: b :: c :: r => (a, b, c) :: triples r | _ => [] end.

Definition field_def_ok (fd : N * N * N) : bool :=
  let '(_, size, bt) := fd in
  match base_size_of bt with
  | Some bs => size mod bs =? 0
  | None => false
  end.

Definition sum_sizes (l : list (N * N * N)) : N := fold_right (fun fd acc => snd (fst fd) + acc) 0 l.

(* split a payload into the fields of a definition *)
Fixpoint split_fields (fds : list (N * N * N)) (pay : list N) : list (N * N * list N) :=
  match fds with
  | [] => []
  | (num, size, bt) :: r => (num, bt, firstn (N.to_nat size) pay) :: split_fields r (skipn (N.to_nat size) pay)
  end.

Definition lookup_def (l : N) (defs : list (N * gdef)) : option gdef :=
  match find (fun e => fst e =? l) defs with Some e => Some (snd e) | None => None end.

Definition parse_definition (hdr : N) (rest : list N) : option (gdef * list N) :=
  match rest with
  | reserved :: arch :: r1 =>
      if negb (reserved =? 0) then None else
      if negb ((arch =? 0) || (arch =? 1)) then None else
      let be := arch =? 1 in
      match take 2 r1 with
      | None => None
      | Some (g, r2) =>
          match r2 with
          | [] => None
          | n :: r3 =>
              match take (3 * N.to_nat n) r3 with
              | None => None
              | Some (fb, r4) =>
                  let fds := triples fb in
                  if negb (forallb field_def_ok fds) then None else
                  if N.testbit hdr 5 then
                    match r4 with
                    | [] => None
                    | nd :: r5 =>
                        match take (3 * N.to_nat nd) r5 with
                        | None => None
                        | Some (db, r6) => Some (mk_gdef (num_of be g) be fds (sum_sizes (triples db)), r6)
                        end
                    end
                  else Some (mk_gdef (num_of be g) be fds 0, r4)
              end
          end
      end
  | _ => None
  end.

Definition parse_data (d : gdef) (rest : list N) : option (grec * list N) :=
  match take (N.to_nat (sum_sizes (gd_fields d))) rest with
  | None => None
  | Some (pay, r1) =>
      match take (N.to_nat (gd_dev d)) r1 with
      | None => None
      | Some (_, r2) => Some (mk_grec (gd_gmn d) (gd_be d) (split_fields (gd_fields d) pay), r2)
      end
  end.

Fixpoint records (fuel : nat) (defs : list (N * gdef)) (data : list N) (acc : list grec) : option (list grec) :=
  match fuel with
  | O => None
  | S f =>
      match data with
      | [] => Some (rev acc)
      | h :: rest =>
          if N.testbit h 7 then
            (* compressed timestamp header: data record on local type bits 5-6 *)
            match lookup_def (N.land (N.shiftr h 5) 3) defs with
            | None => None
            | Some d => match parse_data d rest with
                        | None => None
                        | Some (r, rest') => records f defs rest' (r :: acc)
                        end
            end
          else if N.testbit h 6 then
            if N.testbit h 4 then None else
            match parse_definition h rest with
            | None => None
            | Some (d, rest') => records f ((N.land h 15, d) :: defs) rest' acc
            end
          else
            if N.testbit h 5 || N.testbit h 4 then None else
            match lookup_def (N.land h 15) defs with
            | None => None
            | Some d => match parse_data d rest with
                        | None => None
                        | Some (r, rest') => records f defs rest' (r :: acc)
                        end
            end
      end
  end.

Definition fit_magic : list N := [46; 70; 73; 84].   (* ".FIT" *)
Definition bytes_eqb (a b : list N) : bool := if list_eq_dec N.eq_dec a b then true else false.

(* what the stream itself says *)
Definition hdrsize (bs : list N) : N := nth 0 bs 0.
Definition datasize (bs : list N) : N := le_num (firstn 4 (skipn 4 bs)).
Definition hdrcrc (bs : list N) : N := le_num (firstn 2 (skipn 12 bs)).
Definition filecrc (bs : list N) : N := le_num (skipn (List.length bs - 2) bs).

Definition header_ok (bs : list N) : bool :=
  let sz := hdrsize bs in
  ((sz =? 12) || (sz =? 14))
  && (N.of_nat (List.length bs) =? sz + datasize bs + 2)
  && bytes_eqb (firstn 4 (skipn 8 bs)) fit_magic
  && (if sz =? 14 then (hdrcrc bs =? 0) || (hdrcrc bs =? arc (firstn 12 bs)) else true).

Definition trailer_ok (bs : list N) : bool :=
  filecrc bs =? arc (firstn (List.length bs - 2) bs).

Definition record_bytes (bs : list N) : list N :=
  firstn (N.to_nat (datasize bs)) (skipn (N.to_nat (hdrsize bs)) bs).

Definition grammar (bs : list N) : option (list grec) :=
  if negb (forallb (fun b => b <? 256) bs) then None else
  if negb (header_ok bs) then None else
  if negb (trailer_ok bs) then None else
  records (S (List.length bs)) [] (record_bytes bs) [].

(* ---------------------------------------------------------------- values *)
(* The numbers a Go value must show on the wire, element by element, as
   unsigned numbers of the field's base-type width.  None = the value has no
   FIT representation (time outside [epoch, epoch + 2^32 - 1] or not a whole
   second); the property
   then asks for well-formedness only. *)

Fixpoint chunk (k : nat) (fuel : nat) (l : list N) : list (list N) :=
  match fuel with
  | O => []
  | S f => match l with [] => [] | _ => firstn k l :: chunk k f (skipn k l) end
  end.

Definition two_compl (bits : N) (z : Z) : N := Z.to_N (z mod Z.of_N (2 ^ bits)).

Definition u32_in_range (z : Z) : option N :=
  if (0 <=? z)%Z && (z <? 4294967296)%Z then Some (Z.to_N z) else None.

Definition scalar_num (pf : pfield) (bsz : N) (v : goval) : option (option N) :=
  (* outer None: the value does not fit the field at all; inner None: unconstrained *)
  let k := fit_kind (pf_t pf) in
  match v with
  | VU n => if k =? kind_native then Some (Some n) else None
  | VI z => if k =? kind_native then Some (Some (two_compl (8 * bsz) z)) else None
  | VF n => if k =? kind_native then Some (Some n) else None
  | VTime s ns zone =>
      (* a timestamp with a sub-second part has no FIT representation either *)
      if k =? kind_timeutc then Some (if ns =? 0 then u32_in_range s else None)
      else if k =? kind_timelocal then
        Some (if ns =? 0 then u32_in_range (s + match zone with Some o => o | None => 0 end)%Z else None)
      else None
  | VLat z => if k =? kind_lat then Some (Some (two_compl 32 z)) else None
  | VLng z => if k =? kind_lng then Some (Some (two_compl 32 z)) else None
  | _ => None
  end.

Definition opt_eqb (want : option N) (got : N) : bool :=
  match want with Some w => w =? got | None => true end.

Fixpoint elems_match (want : list (option N)) (got : list N) : bool :=
  match want, got with
  | [], [] => true
  | w :: wr, g :: gr => opt_eqb w g && elems_match wr gr
  | _, _ => false
  end.

Fixpoint all_some {A} (l : list (option A)) : option (list A) :=
  match l with
  | [] => Some []
  | Some a :: r => match all_some r with Some r' => Some (a :: r') | None => None end
  | None :: _ => None
  end.

(* one field of a data record against the value of the struct field *)
Definition field_matches (be : bool) (pf : pfield) (bt : N) (raw : list N) (v : goval) : bool :=
  let t := pf_t pf in
  if negb (bt =? fit_base t) then false else
  match base_size_of bt with
  | None => false
  | Some bsz =>
      let got := map (num_of be) (chunk (N.to_nat bsz) (List.length raw) raw) in
      if bt =? base_string then
        if fit_array t then false else
        match v with
        | VStr s =>
            let n := Nat.min (List.length s) (N.to_nat (pf_length pf) - 1) in
            bytes_eqb raw (firstn n s ++ repeat 0 (N.to_nat (pf_length pf) - n))
        | _ => false
        end
      else if fit_array t then
        match (match v with VList l => Some l | VNil => Some [] | _ => None end), b_invalid bt with
        | Some l, Some iv =>
            let padded := firstn (N.to_nat (pf_length pf)) (l ++ repeat iv (N.to_nat (pf_length pf))) in
            match all_some (map (scalar_num pf bsz) padded) with
            | Some want => elems_match want got
            | None => false
            end
        | _, _ => false
        end
      else
        match scalar_num pf bsz v with
        | Some want => elems_match [want] got
        | None => false
        end
  end.

(* the profile entry that owns struct field i (lowest field number) *)
Definition pfield_of_sindex (gmn : N) (i : nat) : option pfield :=
  match find_msg gmn with
  | None => None
  | Some m =>
      match find (fun e => Nat.eqb (pf_sindex (snd e)) i) (md_entries m) with
      | Some e => Some (snd e)
      | None => None
      end
  end.

Definition unset (v iv : goval) : bool :=
  match v with
  | VNil => true
  | VList [] => true
  | VList _ => false
  | _ => goval_eqb v iv
  end.

Fixpoint nodup_n (l : list N) : bool :=
  match l with [] => true | x :: r => negb (existsb (N.eqb x) r) && nodup_n r end.

(* struct fields i, i+1, ... that the record does not carry must be unset *)
Fixpoint absent_unset (gmn : N) (nums : list N) (i : nat) (vals invs : list goval) : bool :=
  match vals, invs with
  | v :: vr, iv :: ir =>
      (match pfield_of_sindex gmn i with
       | Some pf => existsb (N.eqb (pf_num pf)) nums || unset v iv
       | None => unset v iv
       end) && absent_unset gmn nums (S i) vr ir
  | [], [] => true
  | _, _ => false
  end.

Definition record_matches (m : msg) (r : grec) : bool :=
  (gr_gmn r =? m_num m)
  && nodup_n (map (fun f => fst (fst f)) (gr_fields r))
  && forallb (fun f =>
       let '(num, bt, raw) := f in
       match get_field (m_num m) num with
       | Some pf =>
           match nth_error (m_fields m) (pf_sindex pf) with
           | Some v => field_matches (gr_be r) pf bt raw v
           | None => false
           end
       | None => false
       end) (gr_fields r)
  && match mesg_all_invalid (m_num m) with
     | Some inv => absent_unset (m_num m) (map (fun f => fst (fst f)) (gr_fields r)) 0 (m_fields m) (m_fields inv)
     | None => false
     end.

(* the messages Encode is documented to write, in order: FileId, FileCreator,
   TimestampCorrelation, then the container's fields (slots 5, 6, ...) *)
Definition file_msgs (f : file) : list msg :=
  List.concat (firstn 3 (f_slots f)) ++ List.concat (skipn 5 (f_slots f)).

Fixpoint forall2b {A B} (p : A -> B -> bool) (a : list A) (b : list B) : bool :=
  match a, b with
  | [], [] => true
  | x :: ar, y :: br => p x y && forall2b p ar br
  | _, _ => false
  end.

Definition wire_ok (f : file) (recs : list grec) : bool := forall2b record_matches (file_msgs f) recs.

(* index of the first message / record pair that does not match (for reports) *)
Fixpoint first_mismatch (ms : list msg) (rs : list grec) (i : nat) : option nat :=
  match ms, rs with
  | [], [] => None
  | m :: mr, r :: rr => if record_matches m r then first_mismatch mr rr (S i) else Some i
  | _, _ => Some i
  end.
