(* C18: what component expansion must compute, written from the property text. *)
From Coq Require Import NArith ZArith List Bool.
Import ListNotations.
Local Open Scope N_scope.

(* a 16-bit source widened into its 32-bit enhanced field; invalid source leaves the destination untouched *)
Definition spec_enhanced (src old_dst : N) : N := if src =? 0xFFFF then old_dst else src.

(* compressed_speed_distance: three bytes b0 b1 b2 = 12 bits speed, 12 bits distance *)
Definition spec_csd_speed (b0 b1 : N) : N := b0 + 256 * (b1 mod 16).
Definition spec_csd_distance_raw (b1 b2 : N) : N := b1 / 16 + 16 * b2.
Definition spec_csd_valid (b0 b1 b2 : N) : bool := negb ((b0 =? 0xFF) && (b1 =? 0xFF) && (b2 =? 0xFF)).

(* event.data: sport_point and gear change *)
Definition spec_score (data : N) : N := data mod 65536.
Definition spec_opponent_score (data : N) : N := (data / 65536) mod 65536.
Definition spec_gear_byte (data : N) (k : N) : N := (data / 256 ^ k) mod 256.

(* accumulated destinations: running sum of rollover-corrected deltas, starting
   from 0 at the start of the file; source values are [bits] wide *)
Fixpoint spec_accumulate_from (bits : N) (sum last : N) (vals : list N) : list N :=
  match vals with
  | [] => []
  | v :: r =>
      let delta := (v + 2 ^ bits - last mod 2 ^ bits) mod 2 ^ bits in
      let sum' := (sum + delta) mod 2 ^ 32 in
      sum' :: spec_accumulate_from bits sum' v r
  end.
Definition spec_accumulate (bits : N) (vals : list N) : list N := spec_accumulate_from bits 0 0 vals.
