(* C04: error patterns ("corrupting a run of at most 16 contiguous bits").

   Bit numbering.  A byte string is read as a stream of bits in the order in
   which the reflected CRC-16/ARC consumes them: stream bit k is bit (k mod 8),
   counted from the least significant bit, of byte (k div 8).  In that
   numbering an n-byte string is the little-endian number v whose bit k is
   stream bit k ([err_bytes n v], lemma err_bytes_bit in Proofs/C04Crc.v), and
   "the error is confined to the 16 contiguous stream bits off .. off+15" means
   v = p * 2^off with 0 < p < 2^16.  In the opposite (most significant bit
   first) numbering the statement is false for CRC-16/ARC itself: see
   burst16_msbfirst_refuted. *)
From Coq Require Import NArith List Bool.
Import ListNotations.
Local Open Scope N_scope.

(* the file [a] with the error string [e] applied; a shorter [e] leaves the rest of [a] alone *)
Fixpoint xorl (a e : list N) : list N :=
  match a with
  | [] => []
  | x :: a' => match e with [] => a | y :: e' => N.lxor x y :: xorl a' e' end
  end.

(* the n bytes of the little-endian number v *)
Fixpoint err_bytes (n : nat) (v : N) : list N :=
  match n with O => [] | S k => N.land v 255 :: err_bytes k (N.shiftr v 8) end.

(* the error string of length n with the 16-bit pattern p at stream bit offset off *)
Definition burst (n : nat) (off p : N) : list N := err_bytes n (N.shiftl p off).

(* p is a non-zero pattern of at most 16 bits and lies inside the n bytes *)
Definition burst16 (n : nat) (off p : N) : Prop :=
  0 < p < 65536 /\ N.shiftl p off < 2 ^ (8 * N.of_nat n).
Definition burst16b (n : nat) (off p : N) : bool :=
  (0 <? p) && (p <? 65536) && (N.shiftl p off <? 2 ^ (8 * N.of_nat n)).

(* the same in the most-significant-bit-first numbering: the string is the big-endian number *)
Definition burst_msb (n : nat) (sh p : N) : list N := rev (err_bytes n (N.shiftl p sh)).

(* the error leaves the header's size byte (0) and data-size field (4..7) alone *)
Definition untouched (e : list N) (i : nat) : bool := nth i e 0 =? 0.
Definition outside_size_fields (e : list N) : bool :=
  untouched e 0 && untouched e 4 && untouched e 5 && untouched e 6 && untouched e 7.
