(* C04: what the bytes of a FIT file say about their own integrity, as functions of the byte
   string alone (no reader, no schedule, no decoder state).  [crcf] is the checksum function:
   the statements of Props/C04.v instantiate it with the bitwise CRC-16/ARC of Spec/CrcSpec.v.

     header_stage   the verdict of the header checks shared by CheckIntegrity, DecodeHeader,
                    DecodeHeaderAndFileID and Decode (None = header accepted);
     crc_verdict    the verdict of CheckIntegrity(r, false) on the whole input;
     frame_len      header size + data size + 2, as the header states them. *)
From Coq Require Import NArith List Bool.
From FitV Require Import Model.Bytes Model.IO Model.Header Model.Decode Gen.Consts.
Import ListNotations.
Local Open Scope N_scope.

Definition hdr_size (bs : list N) : nat := N.to_nat (b_at bs 0).
Definition data_size (bs : list N) : nat := N.to_nat (le32 (firstn 4 (skipn 4 bs))).
Definition frame_len (bs : list N) : nat := (hdr_size bs + data_size bs + 2)%nat.
Definition stored_hdr_crc (bs : list N) : N := le16 (firstn 2 (skipn 12 bs)).

(* the Header value the decoder reports for these bytes *)
Definition parse_header (bs : list N) : header :=
  mk_header (b_at bs 0) (b_at bs 1) (le16 (firstn 2 (skipn 2 bs))) (le32 (firstn 4 (skipn 4 bs)))
            (firstn 4 (skipn 8 bs))
            (if b_at bs 0 =? c_headerSizeCRC then stored_hdr_crc bs else 0).

Definition header_stage_with (crcf : list N -> N) (bs : list N) (tm : term) : option err :=
  match bs with
  | [] => Some (match tm with TEOF => EReadSizeEOF | TFault => EReadSize end)
  | sz :: _ =>
      if negb ((sz =? c_headerSizeCRC) || (sz =? c_headerSizeNoCRC)) then Some EHeaderSize
      else if Nat.ltb (List.length bs) (N.to_nat sz) then Some EReadData
      else if negb (proto_ok (b_at bs 1)) then Some EProto
      else if negb (list_eqb (firstn 4 (skipn 8 bs)) fit_dtype) then Some ENotFit
      else if sz =? c_headerSizeNoCRC then None
      else if stored_hdr_crc bs =? 0 then None
      else if negb (crcf (firstn 14 bs) =? 0) then Some EHdrCRC else None
  end.

Definition crc_verdict_with (crcf : list N -> N) (bs : list N) (tm : term) : option err :=
  match header_stage_with crcf bs tm with
  | Some e => Some e
  | None =>
      if Nat.ltb (List.length bs) (hdr_size bs + data_size bs) then Some EParseData
      else if Nat.ltb (List.length bs) (frame_len bs) then Some EFileCRCRead
      else if crcf (firstn (frame_len bs) bs) =? 0 then None else Some EFileCRC
  end.
