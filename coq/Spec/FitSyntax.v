(* Reference semantics of FIT record streams at the level of abstract syntax,
   written from the FIT protocol rules the properties C02, C12, C13 and C16
   state -- independently of the decoder model (no buffers, no reflection, no
   scratch array): which message each data record denotes, field by field. *)
From Coq Require Import NArith ZArith List Bool String.
From FitV Require Import Model.Values Model.Bytes Model.Base Model.Profile Gen.Consts.
Import ListNotations.
Local Open Scope N_scope.

Record sfdef := mk_sfdef { sf_num : N; sf_size : N; sf_btype : N }.

Inductive record :=
| RDef (local : N) (be : bool) (gmn : N) (fds : list sfdef) (devflag : bool) (devs : list (N * N * N))
| RData (local : N) (pay : list N) (devpay : list N)
| RComp (local : N) (off : N) (pay : list N) (devpay : list N).

Record sdef := mk_sdef { sd_be : bool; sd_gmn : N; sd_fds : list sfdef; sd_devsize : nat }.

(* ---- serialization (what the bytes of a record are) *)
Definition ser_fdef (f : sfdef) : list N := [sf_num f; sf_size f; sf_btype f].
Definition ser_record (r : record) : list N :=
  match r with
  | RDef l be gmn fds devflag devs =>
      [0x40 + (if devflag then 0x20 else 0) + l; 0; if be then 1 else 0] ++ put16 be gmn ++
      [N.of_nat (List.length fds)] ++ flat_map ser_fdef fds ++
      (if devflag then N.of_nat (List.length devs) :: flat_map (fun d => let '(a, b, c) := d in [a; b; c]) devs else [])
  | RData l pay dev => l :: pay ++ dev
  | RComp l off pay dev => (0x80 + 32 * l + off) :: pay ++ dev
  end.
Definition ser_records (rs : list record) : list N := flat_map ser_record rs.

(* ---- compatibility of a field definition with the profile (the domain of C02) *)
Definition compat (gmn : N) (f : sfdef) : bool :=
  match b_known (sf_btype f), b_size (sf_btype f) with
  | Some true, Some ds =>
      match (if known_msg gmn then get_field gmn (sf_num f) else None) with
      | None =>
          (* unknown message or unlisted field: skipped; the size must still be whole elements *)
          (sf_btype f =? base_string) || ((1 <=? sf_size f) && ((sf_size f) mod ds =? 0))
      | Some p =>
          let pb := fit_base (pf_t p) in
          if pb =? base_string then sf_btype f =? base_string
          else if fit_array (pf_t p) then (sf_btype f =? pb) && (ds <=? sf_size f) && ((sf_size f) mod ds =? 0)
          else
            (* scalar: exactly one element of the definition type, no wider than the profile type,
               same signedness, neither a string nor a float *)
            match b_size pb, b_signed pb, b_signed (sf_btype f), b_float pb, b_float (sf_btype f) with
            | Some ps, Some sp, Some sd, Some false, Some false =>
                (sf_size f =? ds) && (ds <=? ps) && Bool.eqb sp sd && negb (sf_btype f =? base_string)
            | _, _, _, _, _ => false
            end
      end
  | _, _ => false
  end.

(* ---- the value a field's wire bytes denote *)
Definition wire_unsigned (be : bool) (bytes : list N) : N := get_val be bytes.
Definition wire_signed (be : bool) (bytes : list N) : Z := to_signed (8 * N.of_nat (List.length bytes)) (get_val be bytes).

Fixpoint upto_nul (l : list N) : list N :=
  match l with [] => [] | b :: r => if b =? 0 then [] else b :: upto_nul r end.

Fixpoint split_every (k : nat) (fuel : nat) (l : list N) : list (list N) :=
  match fuel with
  | O => []
  | S f => match l with [] => [] | _ => firstn k l :: split_every k f (skipn k l) end
  end.

(* NUL-separated strings of a string array; a trailing unterminated piece counts; an empty piece ends the list *)
Fixpoint split_strings (fuel : nat) (l : list N) : list (list N) :=
  match fuel with
  | O => []
  | S f =>
      match l with
      | [] => []
      | _ =>
          let s := upto_nul l in
          match s with
          | [] => []
          | _ => s :: split_strings f (skipn (S (List.length s)) l)
          end
      end
  end.

Definition embed (ty : gotype) (signed : bool) (u : N) (z : Z) : goval :=
  match ty with
  | TU _ => VU u
  | TI _ => VI z
  | _ => if signed then VI z else VU u
  end.

(* time state of the stream: the reference is the latest timestamp (field 253) seen *)
Definition time_of (u : N) : goval := VTime (Z.of_N u) 0 None.
(* local_date_time: "the reference UTC instant in a fixed zone whose offset is local minus UTC (offset 0 when there is
   no reference)". A reference below c_systemTimeMarker counts seconds since power on: it is not a UTC instant, so it
   is no reference for this purpose (offset 0, instant = the stored reading). *)
Definition local_time_of (ref : option N) (l : N) : goval :=
  match ref with
  | Some r => if r <? c_systemTimeMarker then VTime (Z.of_N l) 0 (Some 0%Z)
              else VTime (Z.of_N r) 0 (Some (Z.of_N l - Z.of_N r)%Z)
  | None => VTime (Z.of_N l) 0 (Some 0%Z)
  end.
Definition coord_invalid : Z := 0x7FFFFFFF.
Definition lat_of (z : Z) : goval :=
  if (z =? coord_invalid)%Z || (z <? - 2 ^ 30)%Z || (z >? 2 ^ 30 - 1)%Z then VLat coord_invalid else VLat z.

(* None = the field keeps its invalid value *)
Definition denote_field (be : bool) (f : sfdef) (p : pfield) (ty : gotype) (ref : option N) (bytes : list N) : option goval :=
  let t := pf_t p in
  let dt := sf_btype f in
  let signed := match b_signed dt with Some s => s | None => false end in
  let k := fit_kind t in
  if k =? kind_native then
    if fit_array t then
      if dt =? base_string then
        match split_strings (S (List.length bytes)) bytes with
        | [] => match bytes with [] => None | _ => Some VNil end
        | l => Some (VList (map VStr l))
        end
      else
        let es := match b_size dt with Some s => N.to_nat s | None => 1%nat end in
        let elems := split_every es (List.length bytes) bytes in
        let ety := match ty with TSlice e => e | _ => TOther end in
        Some (VList (map (fun e => embed ety signed (wire_unsigned be e) (wire_signed be e)) elems))
    else if dt =? base_string then
      match upto_nul bytes with [] => None | s => Some (VStr s) end
    else Some (embed ty signed (wire_unsigned be bytes) (wire_signed be bytes))
  else if k =? kind_timeutc then
    let u := wire_unsigned be bytes in
    if u =? 0xFFFFFFFF then None else Some (time_of u)
  else if k =? kind_timelocal then
    let u := wire_unsigned be bytes in
    if u =? 0xFFFFFFFF then None else Some (local_time_of ref u)
  else if k =? kind_lat then Some (lat_of (if signed then wire_signed be bytes else Z.of_N (wire_unsigned be bytes)))
  else if k =? kind_lng then Some (VLng (if signed then wire_signed be bytes else Z.of_N (wire_unsigned be bytes)))
  else None.

Fixpoint set_at {A} (n : nat) (x : A) (l : list A) : list A :=
  match l, n with
  | [], _ => []
  | _ :: r, O => x :: r
  | a :: r, S k => a :: set_at k x r
  end.

Record sstate := mk_sstate {
  ss_env : list (N * sdef);        (* local type -> current definition, latest first *)
  ss_ref : option N;               (* time reference *)
  ss_msgs : list msg;              (* decoded messages of known types, in stream order *)
  ss_unkm : list (N * N);          (* unknown message number -> records *)
  ss_unkf : list (N * N * N)       (* (known message, unlisted field number) -> occurrences *)
}.
Definition ss_init : sstate := mk_sstate [] None [] [] [].

Definition lookup_def (env : list (N * sdef)) (l : N) : option sdef :=
  match find (fun e => fst e =? l) env with Some (_, d) => Some d | None => None end.

Fixpoint count1 (k : N) (l : list (N * N)) : list (N * N) :=
  match l with
  | [] => [(k, 1)]
  | (a, c) :: r => if a =? k then (a, c + 1) :: r else (a, c) :: count1 k r
  end.
Fixpoint count2 (m k : N) (l : list (N * N * N)) : list (N * N * N) :=
  match l with
  | [] => [(m, k, 1)]
  | (a, b, c) :: r => if (a =? m) && (b =? k) then (a, b, c + 1) :: r else (a, b, c) :: count2 m k r
  end.

(* decode the fields of one data record; returns the message (if the type is
   known), the new time reference and the unlisted field numbers met *)
Fixpoint denote_fields (be : bool) (gmn : N) (fds : list sfdef) (pay : list N) (m : msg) (ref : option N)
  (unl : list N) : msg * option N * list N :=
  match fds with
  | [] => (m, ref, unl)
  | f :: r =>
      let sz := N.to_nat (sf_size f) in
      let bytes := firstn sz pay in
      let rest := skipn sz pay in
      match get_field gmn (sf_num f) with
      | None => denote_fields be gmn r rest m ref (unl ++ [sf_num f])
      | Some p =>
          let ty := match field_type gmn (pf_sindex p) with Some t => t | None => TOther end in
          let v := denote_field be f p ty ref bytes in
          let m' := match v with Some x => mk_msg (m_num m) (set_at (pf_sindex p) x (m_fields m)) | None => m end in
          (* an explicit timestamp re-bases the reference *)
          let ref' :=
            if (sf_num f =? c_fieldNumTimeStamp) && (fit_kind (pf_t p) =? kind_timeutc) then
              let u := wire_unsigned be bytes in if u =? 0xFFFFFFFF then ref else Some u
            else ref in
          denote_fields be gmn r rest m' ref' unl
      end
  end.

Definition payload_size (d : sdef) : nat :=
  fold_right (fun f acc => (N.to_nat (sf_size f) + acc)%nat) 0%nat (sd_fds d).

(* one data record (compressed: [Some offset]) *)
Definition denote_data (s : sstate) (l : N) (off : option N) (pay dev : list N) : option sstate :=
  match lookup_def (ss_env s) l with
  | None => None                      (* a data record whose local type has no definition is an error *)
  | Some d =>
      if negb (Nat.eqb (List.length pay) (payload_size d)) || negb (Nat.eqb (List.length dev) (sd_devsize d)) then None else
      let gmn := sd_gmn d in
      if known_msg gmn then
        match mesg_all_invalid gmn with
        | None => None
        | Some m0 =>
            (* compressed timestamp header: advance the reference to the next instant whose low 5 bits are off *)
            let '(m1, ref1) :=
              match off, ss_ref s with
              | Some o, Some r =>
                  let r' := (r + (o + 32 - r mod 32) mod 32) mod 2 ^ 32 in
                  (match get_field gmn c_fieldNumTimeStamp with
                   | Some p => mk_msg (m_num m0) (set_at (pf_sindex p) (time_of r') (m_fields m0))
                   | None => m0
                   end, Some r')
              | _, r => (m0, r)
              end in
            let '(m2, ref2, unl) := denote_fields (sd_be d) gmn (sd_fds d) pay m1 ref1 [] in
            Some (mk_sstate (ss_env s) ref2 (ss_msgs s ++ [m2]) (ss_unkm s)
                    (fold_left (fun acc k => count2 gmn k acc) unl (ss_unkf s)))
        end
      else
        (* unknown message: skipped; the compressed header still advances the reference *)
        let ref1 := match off, ss_ref s with
                    | Some o, Some r => Some ((r + (o + 32 - r mod 32) mod 32) mod 2 ^ 32)
                    | _, r => r
                    end in
        Some (mk_sstate (ss_env s) ref1 (ss_msgs s) (count1 gmn (ss_unkm s)) (ss_unkf s))
  end.

Definition denote_record (s : sstate) (r : record) : option sstate :=
  match r with
  | RDef l be gmn fds devflag devs =>
      if (16 <=? l) || (gmn =? c_MesgNumInvalid) || negb (forallb (compat gmn) fds) then None else
      let devsize := fold_right (fun d acc => let '(_, sz, _) := d in (N.to_nat sz + acc)%nat) 0%nat (if devflag then devs else []) in
      Some (mk_sstate ((l, mk_sdef be gmn fds devsize) :: ss_env s) (ss_ref s) (ss_msgs s) (ss_unkm s) (ss_unkf s))
  | RData l pay dev => denote_data s l None pay dev
  | RComp l off pay dev => if 4 <=? l then None else denote_data s l (Some off) pay dev
  end.

Fixpoint denote_from (s : sstate) (rs : list record) : option sstate :=
  match rs with
  | [] => Some s
  | r :: rest => match denote_record s r with Some s' => denote_from s' rest | None => None end
  end.

(* the whole stream: None = not well-formed (outside the domain of C02) *)
Definition denote (rs : list record) : option sstate := denote_from ss_init rs.

(* sorted unknown lists as the File reports them *)
Fixpoint ins1 (x : N * N) (l : list (N * N)) : list (N * N) :=
  match l with [] => [x] | y :: r => if fst x <? fst y then x :: l else y :: ins1 x r end.
Definition sorted_unkm (s : sstate) : list (N * N) := fold_right ins1 [] (ss_unkm s).
Definition lt2 (x y : N * N * N) : bool :=
  let '(a, b, _) := x in let '(c, d, _) := y in (a <? c) || ((a =? c) && (b <? d)).
Fixpoint ins2 (x : N * N * N) (l : list (N * N * N)) : list (N * N * N) :=
  match l with [] => [x] | y :: r => if lt2 x y then x :: l else y :: ins2 x r end.
Definition sorted_unkf (s : sstate) : list (N * N * N) := fold_right ins2 [] (ss_unkf s).
