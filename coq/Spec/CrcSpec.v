(* CRC-16/ARC: reflected CRC-16, polynomial 0xA001, zero initial value, no
   final xor -- written bit by bit, independently of the table-driven code. *)
From Coq Require Import NArith List.
Import ListNotations.
Local Open Scope N_scope.

Definition arc_shift1 (c : N) : N := N.lxor (N.shiftr c 1) (if N.odd c then 0xA001 else 0).
Definition arc_shift8 (c : N) : N :=
  arc_shift1 (arc_shift1 (arc_shift1 (arc_shift1 (arc_shift1 (arc_shift1 (arc_shift1 (arc_shift1 c))))))).
Definition arc_step (c b : N) : N := arc_shift8 (N.lxor c b).
Definition arc (data : list N) : N := fold_left arc_step data 0.

Definition is_bytes (l : list N) : Prop := Forall (fun b => b < 256) l.
Definition lo8 (x : N) : N := N.land x 255.
Definition hi8 (x : N) : N := N.shiftr x 8.
