(* Independent reader of fixed-point decimal text "[-]d+.ddddd" (what a human
   or strconv.ParseFloat reads off a printed coordinate): sign, integer part,
   a dot, exactly five fractional digits.  The result is (negative, n) standing
   for +-n / 10^5.  Used in the statement of C17's printed-form theorem. *)
From Coq Require Import ZArith String Ascii Decimal DecimalString Bool.
Local Open Scope Z_scope.

Fixpoint split_dot (s : string) : option (string * string) :=
  match s with
  | EmptyString => None
  | String c r =>
      if Ascii.eqb c "." then Some (EmptyString, r)
      else match split_dot r with Some (a, b) => Some (String c a, b) | None => None end
  end.

Definition digit_val (c : ascii) : option Z :=
  let n := Z.of_N (N_of_ascii c) in
  if (48 <=? n) && (n <=? 57) then Some (n - 48) else None.

Definition parse_frac5 (s : string) : option Z :=
  match s with
  | String a (String b (String c (String d (String e EmptyString)))) =>
      match digit_val a, digit_val b, digit_val c, digit_val d, digit_val e with
      | Some a, Some b, Some c, Some d, Some e => Some (a * 10000 + b * 1000 + c * 100 + d * 10 + e)
      | _, _, _, _, _ => None
      end
  | _ => None
  end.

Definition parse_nat (s : string) : option Z :=
  option_map (fun d => Z.of_N (N.of_uint d)) (NilZero.uint_of_string s).

Definition strip_sign (s : string) : bool * string :=
  match s with
  | String c r => if Ascii.eqb c "-" then (true, r) else (false, s)
  | EmptyString => (false, s)
  end.

Definition parse_fixed5 (s : string) : option (bool * Z) :=
  let '(neg, body) := strip_sign s in
  match split_dot body with
  | Some (ip, fp) =>
      match parse_nat ip, parse_frac5 fp with
      | Some i, Some f => Some (neg, i * 100000 + f)
      | _, _ => None
      end
  | None => None
  end.
