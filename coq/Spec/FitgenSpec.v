(* What C19 asks of fitgen's output, stated on the workbook rows alone
   (independent of Model/FitgenCore.v):

   for every message of the Messages sheet, the enabled field rows (example
   cell neither empty nor "0"), in sheet order, correspond one to one to the
   struct fields and to the lookup entries; the i-th enabled row gives struct
   field i and an entry with sindex i, the row's field number, the row's base
   type and the row's array flag; nothing else is generated.

   The row's base type is read off the profile: "bool" is an enum; a type
   declared in the Types sheet has its declared base type; otherwise the cell
   names a base type of the FIT protocol. *)
From Coq Require Import NArith List String Ascii Bool.
Import ListNotations.
Local Open Scope string_scope.
Local Open Scope N_scope.

Definition srow := list string.
Definition cell (i : nat) (r : srow) : string := nth i r "".

Definition s_msgname := cell 0.
Definition s_defnum := cell 1.
Definition s_name := cell 2.
Definition s_type := cell 3.
Definition s_array := cell 4.
Definition s_example := cell 15.

Definition nonempty (s : string) : bool := negb (String.eqb s "").

(* the row is part of the product profile *)
Definition s_enabled (r : srow) : bool :=
  nonempty (s_example r) && negb (String.eqb (s_example r) "0").

(* array flag: the array cell holds something between its brackets *)
Fixpoint has_non_bracket (s : string) : bool :=
  match s with
  | EmptyString => false
  | String c r => negb (Ascii.eqb c "["%char || Ascii.eqb c "]"%char) || has_non_bracket r
  end.
Definition s_is_array (r : srow) : bool := has_non_bracket (s_array r).

(* FIT protocol base types by profile name (base type field byte); "unit8"
   is the spelling found in the SDK 20.14 workbook *)
Definition fit_base_types : list (string * N) :=
  [ ("enum", 0x00); ("sint8", 0x01); ("uint8", 0x02); ("sint16", 0x83); ("uint16", 0x84);
    ("sint32", 0x85); ("uint32", 0x86); ("string", 0x07); ("float32", 0x88); ("float64", 0x89);
    ("uint8z", 0x0A); ("uint16z", 0x8B); ("uint32z", 0x8C); ("byte", 0x0D); ("sint64", 0x8E);
    ("uint64", 0x8F); ("uint64z", 0x90); ("unit8", 0x02) ].

Fixpoint lookup {A} (k : string) (l : list (string * A)) : option A :=
  match l with
  | [] => None
  | (k', v) :: t => if String.eqb k k' then Some v else lookup k t
  end.

(* declared types: the header rows of the Types sheet (name in column 0, base
   type in column 1, no value name in column 2), title row excluded *)
Definition s_tdecl (tsheet : list srow) : list (string * string) :=
  map (fun r => (cell 0 r, cell 1 r))
      (filter (fun r => nonempty (cell 0 r) && negb (nonempty (cell 2 r))) (tl tsheet)).

Definition s_base (tdecl : list (string * string)) (r : srow) : option N :=
  if String.eqb (s_type r) "bool" then Some 0x00
  else match lookup (s_type r) tdecl with
       | Some b => lookup b fit_base_types
       | None => lookup (s_type r) fit_base_types
       end.

(* kind of the Go value: coordinates by name suffix, time stamps by type *)
Fixpoint ends_with (suf s : string) : bool :=
  String.eqb s suf || match s with EmptyString => false | String _ r => ends_with suf r end.

Definition s_kind (r : srow) : N :=
  if ends_with "_lat" (s_name r) then 3
  else if ends_with "_long" (s_name r) then 4
  else if String.eqb (s_type r) "date_time" then 1
  else if String.eqb (s_type r) "local_date_time" then 2
  else 0.

(* types.Fit code: bits 0-4 number of the base type, bit 5 array *)
Definition code_array (c : N) : bool := N.testbit c 5.
Definition code_base_num (c : N) : N := c mod 32.
Definition base_num (b : N) : N := b mod 32.

(* ---- messages: field rows grouped under their header row *)
Definition is_header (r : srow) : bool := nonempty (s_msgname r).
Definition is_field (r : srow) : bool := negb (nonempty (s_msgname r)) && nonempty (s_defnum r).

(* rows of the sheet after the title row -> per message (header, field rows) *)
Fixpoint s_groups_go (cur : option (srow * list srow)) (rows : list srow) : list (srow * list srow) :=
  match rows with
  | [] => match cur with Some (h, fs) => [(h, rev fs)] | None => [] end
  | r :: rest =>
      if is_header r then
        match cur with
        | Some (h, fs) => (h, rev fs) :: s_groups_go (Some (r, [])) rest
        | None => s_groups_go (Some (r, [])) rest
        end
      else if is_field r then
        match cur with
        | Some (h, fs) => s_groups_go (Some (h, r :: fs)) rest
        | None => s_groups_go None rest
        end
      else s_groups_go cur rest
  end.

Definition s_groups (msheet : list srow) : list (srow * list srow) := s_groups_go None (tl msheet).

(* ---- observed output of one message *)
Record obs_entry := mkObsEntry { oe_num : string; oe_sindex : N; oe_code : N; oe_length : string }.
Record obs_msg := mkObsMsg { om_slices : list bool (* struct field i is a Go slice *); om_entries : list obs_entry }.

(* enabled row r is generated as struct field i / entry e *)
Definition row_matches (tdecl : list (string * string)) (r : srow) (i : N) (slice : bool) (e : obs_entry) : bool :=
  String.eqb (oe_num e) (s_defnum r)
  && (oe_sindex e =? i)
  && match s_base tdecl r with
     | Some b => code_base_num (oe_code e) =? base_num b
     | None => false
     end
  && Bool.eqb (code_array (oe_code e)) (s_is_array r)
  && Bool.eqb slice (s_is_array r).

(* order-preserving bijection, index = rank *)
Fixpoint rows_match (tdecl : list (string * string)) (i : N) (rows : list srow) (slices : list bool) (es : list obs_entry) : bool :=
  match rows, slices, es with
  | [], [], [] => true
  | r :: rows', s :: slices', e :: es' => row_matches tdecl r i s e && rows_match tdecl (i + 1) rows' slices' es'
  | _, _, _ => false
  end.

Definition s_msg_ok (tdecl : list (string * string)) (frows : list srow) (o : obs_msg) : bool :=
  rows_match tdecl 0 (filter s_enabled frows) (om_slices o) (om_entries o).

Fixpoint all2 {A B} (p : A -> B -> bool) (l : list A) (m : list B) : bool :=
  match l, m with
  | [], [] => true
  | a :: l', b :: m' => p a b && all2 p l' m'
  | _, _ => false
  end.

(* the whole sheet: message k of the workbook against generated message k *)
Definition s_sheet_ok (tsheet msheet : list srow) (o : list obs_msg) : bool :=
  all2 (fun g om => s_msg_ok (s_tdecl tsheet) (snd g) om) (s_groups msheet) o.

(* index of the first message that fails, for diagnostics *)
Fixpoint first_bad {A B} (p : A -> B -> bool) (k : N) (l : list A) (m : list B) : option N :=
  match l, m with
  | [], [] => None
  | a :: l', b :: m' => if p a b then first_bad p (k + 1) l' m' else Some k
  | _, _ => Some k
  end.

Definition s_sheet_first_bad (tsheet msheet : list srow) (o : list obs_msg) : option N :=
  first_bad (fun g om => s_msg_ok (s_tdecl tsheet) (snd g) om) 0 (s_groups msheet) o.
