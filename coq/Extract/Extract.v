(* Extraction of the executable model and spec functions to OCaml for the
   correspondence driver.  ExtrOcamlBasic only: N, Z, positive, nat stay the
   extracted inductives (no mapping to OCaml int). Compiled from
   /verif/build/extract so that the .ml files land there. *)
From Coq Require Import Extraction ExtrOcamlBasic NArith ZArith List.
From FitV Require Import Model.Values Model.Crc Spec.CrcSpec.

Extraction Language OCaml.
Extraction "fitmodel.ml"
  Crc.update_byte Crc.update Crc.checksum Crc.crc_new Crc.crc_write Crc.crc_sum16 Crc.crc_reset
  CrcSpec.arc_step CrcSpec.arc CrcSpec.lo8 CrcSpec.hi8
  Z.add N.add Nat.add.
