(* Extraction of the executable model and spec functions to OCaml for the
   correspondence driver.  ExtrOcamlBasic only: N, Z, positive, nat stay the
   extracted inductives (no mapping to OCaml int). Compiled from
   /verif/build/extract so that the .ml files land there. *)
From Coq Require Import Extraction ExtrOcamlBasic NArith ZArith List String.
From FitV Require Import Model.Values Model.Crc Spec.CrcSpec Model.Bytes Model.Base Model.Profile
  Model.Reflect Model.IO Model.Header Model.Components Model.Route Model.Decode.
From FitV Require Import Gen.RoutingData Gen.ProfileData Spec.ProfileWf Spec.RouteSpec Spec.ComponentSpec Spec.FitSyntax.

Extraction Language OCaml.
Extraction "fitmodel.ml"
  Crc.update_byte Crc.update Crc.checksum Crc.crc_new Crc.crc_write Crc.crc_sum16 Crc.crc_reset
  CrcSpec.arc_step CrcSpec.arc CrcSpec.lo8 CrcSpec.hi8
  Z.add N.add Nat.add
  Decode.entry_Decode Decode.entry_CheckIntegrity Decode.entry_DecodeHeader Decode.entry_DecodeHeaderAndFileID Decode.entry_DecodeChained
  Decode.validate_field_def Decode.is_integrity Decode.no_opts
  Route.ft_entry Route.file_init Route.file_add Route.new_file Route.accessor_ok Route.file_type
  Components.expand_components Components.g_init Components.accumulate Components.new_accum
  Header.header_marshal Header.header_check_integrity Header.new_header
  Profile.mesg_all_invalid Profile.get_field Profile.known_msg
  RoutingData.accessors
  ComponentSpec.spec_accumulate ComponentSpec.spec_csd_distance_raw ComponentSpec.spec_csd_speed ComponentSpec.spec_enhanced
  FitSyntax.denote FitSyntax.sorted_unkm FitSyntax.sorted_unkf FitSyntax.ser_records
  RouteSpec.routing_wf RouteSpec.routing_wf_report RouteSpec.find_slot RouteSpec.ft_valid RouteSpec.expands
  ProfileWf.profile_wf ProfileWf.profile_wf_report ProfileWf.gotype_of_fit ProfileWf.invalid_of_fit.
