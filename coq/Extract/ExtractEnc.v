(* Extraction of the encoder model (Model/Encode.v), the grammar recogniser and
   wire comparison (Spec/Grammar.v) and the round-trip domain and comparators
   (Spec/RoundTrip.v) for the C05/C06/C07 handlers (driver/h_enc.ml).
   ExtrOcamlBasic only; compiled from build/extract. *)
From Coq Require Import Extraction ExtrOcamlBasic NArith ZArith List String.
From FitV Require Import Model.Values Model.Bytes Model.Base Model.Profile Model.Header Model.Components
  Model.Route Model.Encode Spec.Grammar Spec.RoundTrip Spec.EncLayout.
From FitV Require Import Gen.RoutingData Gen.ProfileData.
(* the record list Encode lays out (Spec/EncLayout.v) and its well-formedness (stream_wf, a conclusion of
   C06_encode_is_serialize).  Proofs/StreamDenoteDefs.v is definitions only and imports Model and Spec files only: no
   extraction input depends on a proof file, so a broken proof cannot break the driver build. *)
From FitV Require Import Proofs.StreamDenoteDefs.

Extraction Language OCaml.
Extraction "fitmodel_enc.ml"
  Encode.encode Encode.utf8_valid Encode.encode_time Encode.encode_string
  Grammar.grammar Grammar.wire_ok Grammar.first_mismatch Grammar.file_msgs
  Grammar.hdrsize Grammar.datasize Grammar.hdrcrc Grammar.filecrc Grammar.header_ok Grammar.trailer_ok
  RoundTrip.in_domain RoundTrip.wf_file RoundTrip.content_eq6 RoundTrip.content_eq7 RoundTrip.diff6 RoundTrip.diff7
  RoundTrip.norm_msg RoundTrip.trunc_msg RoundTrip.expected_msg
  EncLayout.file_recs StreamDenoteDefs.stream_wf
  Route.ft_entry Route.file_type RoutingData.file_types
  Z.add N.add Nat.add.
