(* Extraction of the fitgen model, the C19 spec and the decidable side
   conditions for the correspondence driver. *)
From Coq Require Import Extraction ExtrOcamlBasic NArith List String.
From FitV Require Import Model.FitgenCore Spec.FitgenSpec Proofs.FitgenProofs.

Extraction Language OCaml.
Extraction "fitmodel_c19.ml"
  FitgenCore.gen FitgenCore.deps_ok
  FitgenSpec.s_sheet_ok FitgenSpec.s_sheet_first_bad FitgenSpec.mkObsEntry FitgenSpec.mkObsMsg
  FitgenProofs.sheet_hyp FitgenProofs.sheet_hyp_count.
