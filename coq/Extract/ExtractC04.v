(* Extraction of the C04 spec functions (Spec/Burst.v, Spec/Integrity.v with the bitwise CRC-16/ARC of
   Spec/CrcSpec.v) and of Header.CheckIntegrity on the parsed header, for driver/h_c04.ml.
   ExtrOcamlBasic only; compiled from build/extract. *)
From Coq Require Import Extraction ExtrOcamlBasic NArith List.
From FitV Require Import Model.Bytes Model.Crc Model.IO Model.Header Model.Decode Spec.CrcSpec Spec.Burst Spec.Integrity.

(* the verdicts of Props/C04.v: checksum function = arc *)
Definition c04_verdict (bs : list N) : option err := crc_verdict_with arc bs TEOF.
Definition c04_header_stage (bs : list N) : option err := header_stage_with arc bs TEOF.
(* the same with the table-driven checksum of the model (equal on bytes: verdict_arc), cheaper to evaluate *)
Definition c04_verdict_m (bs : list N) : option err := crc_verdict_with checksum bs TEOF.
Definition c04_hci (bs : list N) : option bool := header_check_integrity (parse_header bs).
(* Header.CheckIntegrity on a hand-made Header value *)
Definition c04_hci_value (sz proto prof ds : N) (dt : list N) (crc : N) : option bool :=
  header_check_integrity (mk_header sz proto prof ds dt crc).
Definition c04_corrupt (bs : list N) (off p : N) : list N := xorl bs (burst (frame_len bs) off p).
Definition c04_in_domain (bs : list N) (off p : N) : bool :=
  burst16b (frame_len bs) off p && outside_size_fields (burst (frame_len bs) off p).

Extraction Language OCaml.
Extraction "fitmodel_c04.ml"
  c04_verdict c04_header_stage c04_verdict_m c04_hci c04_hci_value c04_corrupt c04_in_domain
  Integrity.frame_len Integrity.parse_header Burst.burst Burst.xorl Burst.burst_msb
  CrcSpec.arc Crc.checksum Decode.is_integrity.
