(* Extraction of the C17 model (coordinates, FIT time) for the correspondence
   driver.  ExtrOcamlBasic only. *)
From Coq Require Import Extraction ExtrOcamlBasic ZArith String.
From Flocq Require Import IEEE754.Binary IEEE754.Bits.
From FitV Require Import Model.FitTime Model.LatLng Spec.FixedPoint.

Extraction Language OCaml.
Extraction "fitmodel_c17.ml"
  FitTime.decode_date_time FitTime.encode_time FitTime.is_base_time FitTime.time_sub FitTime.time_add FitTime.time_base
  LatLng.new_latitude LatLng.new_latitude_degrees LatLng.new_latitude_invalid LatLng.lat_semis LatLng.lat_degrees
  LatLng.lat_invalid LatLng.lat_string
  LatLng.new_longitude LatLng.new_longitude_degrees LatLng.new_longitude_invalid LatLng.lng_semis LatLng.lng_degrees
  LatLng.lng_invalid LatLng.lng_string
  LatLng.format_f5_32 LatLng.semi_to_deg LatLng.deg_to_semi LatLng.go_nan
  FixedPoint.parse_fixed5
  Bits.bits_of_b64 Bits.b64_of_bits.
