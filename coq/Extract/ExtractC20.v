(* Extraction of the C20 model (String methods, stringer table construction),
   the C20 spec functions and the generated type table to OCaml for the
   correspondence driver. ExtrOcamlBasic only. *)
From Coq Require Import Extraction ExtrOcamlBasic NArith List String.
From FitV Require Import Model.Stringer Spec.StringSpec Gen.TypesData.

Extraction Language OCaml.
Extraction "fitmodel_c20.ml"
  Stringer.type_string Stringer.string_of Stringer.stringer_model Stringer.format_int64
  StringSpec.names_of StringSpec.other_text StringSpec.decimal
  TypesData.types TypesData.listed_types.
