(* C18 -- Component fields expand per profile, with per-file accumulation.
   Model: Model/Components.v (generated expandComponents bodies with Go's
   operand widths, accumu.go, the package-level accumulators as explicit state).
   Where the faithful model refutes the property the witness is a theorem and
   the finding is listed in KNOWN_FINDINGS.txt. *)
From Coq Require Import NArith ZArith List Bool String.
From FitV Require Import Model.Values Model.Bytes Model.Profile Model.IO Model.Header Model.Components Model.Route Model.Decode
  Spec.FitSyntax Spec.RouteSpec Spec.ComponentSpec Proofs.ComponentProofs
  Proofs.C18Defs Proofs.C18Good Proofs.C18Messages Proofs.C18Main
  Proofs.StreamDenoteDefs Proofs.StreamDenoteLift Proofs.StreamDenoteMain Proofs.StreamDenoteFrame Proofs.StreamDenoteDecode
  Gen.AccumuFuncs Proofs.C18Accumu.
Import ListNotations.
Local Open Scope N_scope.

(* ---- tie by translation: accumu.go itself, translated on every check into Gen/AccumuFuncs.v (struct of uint32
   fields, constructor, pointer-receiver method as a state transformer, uint32 arithmetic mod 2^32), computes on every
   state and argument -- and therefore on every sequence of calls -- what the accumulator of the model computes ---- *)
Theorem C18_accumulator_translated :
  (forall bits, acc_abs (go_uint32NewAccumulator bits) = new_accum bits) /\
  acc_abs (mk_go_uint32Accumulator 0 0 0) = zero_accum /\
  (forall s v, (fst (go_uint32Accumulator_accumulate s v), acc_abs (snd (go_uint32Accumulator_accumulate s v))) =
               accumulate (acc_abs s) v) /\
  (forall vs s, (fst (go_run s vs), acc_abs (snd (go_run s vs))) = model_run (acc_abs s) vs).
Proof. exact (conj go_new_accumulator_is (conj go_zero_accumulator_is (conj go_accumulate_is go_run_is))). Qed.
Print Assumptions C18_accumulator_translated.

(* a 16-bit speed/altitude source is widened into its enhanced field, for every source bit pattern;
   an invalid source (0xFFFF) leaves the message untouched; no other field changes *)
Theorem C18_widen16_dst : forall m src dst j, sindex_of (m_num m) dst = Some j -> (j < List.length (m_fields m))%nat ->
  uval (fld m src) < 65536 ->
  uval (fld (widen16 m src dst) dst) = spec_enhanced (uval (fld m src)) (uval (fld m dst)).
Proof. exact widen16_dst. Qed.
Print Assumptions C18_widen16_dst.
Theorem C18_widen16_other : forall m src dst n i j, sindex_of (m_num m) dst = Some i -> sindex_of (m_num m) n = Some j -> i <> j ->
  fld (widen16 m src dst) n = fld m n.
Proof. exact widen16_other. Qed.
Theorem C18_widen16_invalid : forall m src dst, uval (fld m src) = 0xFFFF -> widen16 m src dst = m.
Proof. exact widen16_invalid. Qed.

(* event data: the bit slices of sport_point and gear change, for all 2^32 data values *)
Theorem C18_event_bit_slices : forall d, d < 2 ^ 32 ->
  N.land d 0xFFFF = spec_score d /\ N.land (N.shiftr d 16) 0xFFFF = spec_opponent_score d /\
  N.land d 0xFF = spec_gear_byte d 0 /\ N.land (N.shiftr d 8) 0xFF = spec_gear_byte d 1 /\
  N.land (N.shiftr d 16) 0xFF = spec_gear_byte d 2 /\ N.land (N.shiftr d 24) 0xFF = spec_gear_byte d 3.
Proof. exact event_bit_slices. Qed.

(* compressed_speed_distance: the speed half is right for all byte values *)
Theorem C18_csd_speed : forall b0 b1, b0 < 256 -> b1 < 256 ->
  N.lor b0 (N.shiftl (N.land b1 0x0F) 8) = spec_csd_speed b0 b1.
Proof. exact csd_speed_spec. Qed.
(* FULL STATEMENT (refuted): forall b1 b2 < 256, model_csd_distance_raw b1 b2 = spec_csd_distance_raw b1 b2.
   Proved under the exact side condition b2 < 16; witness of the defect below (x[2]<<4 is evaluated in byte). *)
Theorem C18_csd_distance_partial : forall b1 b2, b1 < 256 -> b2 < 16 ->
  model_csd_distance_raw b1 b2 = spec_csd_distance_raw b1 b2.
Proof. exact csd_distance_partial. Qed.
Theorem C18_csd_distance_refuted : exists b1 b2, b1 < 256 /\ b2 < 256 /\ model_csd_distance_raw b1 b2 <> spec_csd_distance_raw b1 b2.
Proof. exact csd_distance_refuted. Qed.

(* accumulated destinations: an accumulator with mask 2^bits - 1 realises the running sum of
   rollover-corrected deltas, for every list of source values *)
Theorem C18_accumulate_spec : forall bits vals a, bits <= 32 -> ac_mask a = 2 ^ bits - 1 -> ac_last a < 2 ^ 32 ->
  Forall (fun v => v < 2 ^ 32) vals ->
  run_accum a vals = spec_accumulate_from bits (ac_value a) (ac_last a) vals.
Proof. exact accumulate_spec. Qed.
Print Assumptions C18_accumulate_spec.
Theorem C18_fresh_accumulator_spec : forall bits vals, 1 <= bits <= 32 -> Forall (fun v => v < 2 ^ 32) vals ->
  run_accum (new_accum bits) vals = spec_accumulate bits vals.
Proof. exact fresh_accumulator_spec. Qed.
(* FULL STATEMENT (refuted for total_cycles and accumulated_power): their accumulators are created by
   new(uint32Accumulator), mask 0, and never move *)
Theorem C18_zero_mask_accumulates_nothing : forall vals a, ac_mask a = 0 -> ac_value a < 2 ^ 32 ->
  Forall (fun x => x = ac_value a) (run_accum a vals).
Proof. exact zero_mask_accumulates_nothing. Qed.
Theorem C18_total_cycles_refuted : exists vals, run_accum zero_accum vals <> spec_accumulate 8 vals.
Proof. exact total_cycles_refuted. Qed.

(* ---------------------------------------------------------------------------------------------------------
   On whole streams (vocabulary: Proofs/C18Defs.v; the stream machinery is C02's decode_denote).
     stored_run ft g ms   File.add's treatment of a message sequence: every message of a type the container expands
                          replaced by expand_components of it, in stream order, threading the accumulator state g;
     good m               a message as the reference semantics denotes it: as many fields as its struct, and a
                          compressed_speed_distance field holding bytes.
   --------------------------------------------------------------------------------------------------------- *)

(* C18_stream_expanded: for every stream in the domain of decode_denote, through any reader, from ANY accumulator state g,
   every slot of the container proper in the File Decode returns holds the denoted messages of its type with
   expand_components applied in stream order, g threaded; Decode leaves the threaded state behind *)
Theorem C18_stream_expanded : forall o g rd fuel h rs ss1 f2 g1 extra,
  header_wf h -> h_dsize h = N.of_nat (List.length (ser_records rs)) ->
  starts_with_file_id rs = true -> stream_wf rs = true -> denote rs = Some ss1 ->
  start_file h g (hd dummy_msg (ss_msgs ss1)) = Some (f2, g1) ->
  rd_data rd = fit_file h rs ++ extra ->
  (List.length (rd_data rd) + List.length (rd_sched rd) < fuel)%nat ->
  exists rd' file' g' q ft m0 ms sm,
    entry_Decode o g rd fuel = TDone (mk_dres None h (Some file') rd' g' q) /\
    ss_msgs ss1 = m0 :: ms /\ Forall good ms /\
    In ft valid_file_types /\ f_inited file' = Some ft /\
    stored_run ft g ms = Some (sm, g') /\
    forall i name multi held, nth_error (slots_of ft) i = Some (name, multi, held) -> (NCOMMON <= i)%nat ->
      nth i (f_slots file') [] = slot_contents multi held [] sm.
Proof. exact stream_expanded. Qed.
Print Assumptions C18_stream_expanded.

(* per-field corollaries of one expansion, for every message of the shape the decoder produces.  Record: the enhanced
   field is the 16-bit source the record CARRIES when valid and untouched when 0xFFFF (the speed derived from
   compressed_speed_distance is written to Speed afterwards and is not re-expanded: the code's order, known finding) *)
Theorem C18_record_enhanced_speed : forall g m, m_num m = Gen.Consts.c_MesgNumRecord -> msg_shape m ->
  uval (fld m "Speed") < 65536 ->
  uval (fld (fst (expand_record g m)) "EnhancedSpeed") =
    spec_enhanced (uval (fld m "Speed")) (uval (fld m "EnhancedSpeed")).
Proof. exact record_enhanced_speed. Qed.
Theorem C18_record_enhanced_altitude : forall g m, m_num m = Gen.Consts.c_MesgNumRecord -> msg_shape m ->
  uval (fld m "Altitude") < 65536 ->
  uval (fld (fst (expand_record g m)) "EnhancedAltitude") =
    spec_enhanced (uval (fld m "Altitude")) (uval (fld m "EnhancedAltitude")).
Proof. exact record_enhanced_altitude. Qed.
(* session and lap: the five (source, enhanced) pairs; segment_lap: the three altitude pairs *)
Theorem C18_session_lap_enhanced : forall m src dst,
  m_num m = Gen.Consts.c_MesgNumSession \/ m_num m = Gen.Consts.c_MesgNumLap -> msg_shape m ->
  In (src, dst) session_lap_pairs -> uval (fld m src) < 65536 ->
  uval (fld (expand_session_lap m) dst) = spec_enhanced (uval (fld m src)) (uval (fld m dst)).
Proof. exact session_lap_enhanced. Qed.
Theorem C18_segment_lap_enhanced : forall m src dst,
  m_num m = Gen.Consts.c_MesgNumSegmentLap -> msg_shape m ->
  In (src, dst) segment_lap_pairs -> uval (fld m src) < 65536 ->
  uval (fld (expand_segment_lap m) dst) = spec_enhanced (uval (fld m src)) (uval (fld m dst)).
Proof. exact segment_lap_enhanced. Qed.
(* event: data16 -> data, then the slices of sport_point *)
Theorem C18_event_data_field : forall m, m_num m = Gen.Consts.c_MesgNumEvent -> msg_shape m ->
  fld (expand_event m) "Data" =
    if uval (fld m "Data16") =? 0xFFFF then fld m "Data" else VU (N.land (uval (fld m "Data16")) 0xFFFF).
Proof. exact event_data_field. Qed.
Theorem C18_event_sport_point : forall m, m_num m = Gen.Consts.c_MesgNumEvent -> msg_shape m ->
  uval (fld m "Event") = Gen.Consts.c_EventSportPoint -> uval (fld m "Data") < 2 ^ 32 -> event_data m <> 0xFFFFFFFF ->
  fld (expand_event m) "Score" = VU (spec_score (event_data m)) /\
  fld (expand_event m) "OpponentScore" = VU (spec_opponent_score (event_data m)).
Proof. exact event_sport_point. Qed.
(* record, compressed_speed_distance: a valid source sets Speed and Distance and moves the distance accumulator;
   an invalid one (FF FF FF, or absent) leaves both fields and the accumulator untouched *)
Theorem C18_record_csd_valid : forall g m b0 b1 b2, m_num m = Gen.Consts.c_MesgNumRecord -> msg_shape m ->
  csd_bytes m = [b0; b1; b2] -> csd_valid m = true ->
  fld (fst (expand_record g m)) "Distance" =
    VU (fst (accumulate (get_acc (g_dist g) (new_accum 12)) (model_csd_distance_raw b1 b2))) /\
  (b0 < 256 -> b1 < 256 -> fld (fst (expand_record g m)) "Speed" = VU (spec_csd_speed b0 b1)) /\
  g_dist (snd (expand_record g m)) =
    Some (snd (accumulate (get_acc (g_dist g) (new_accum 12)) (model_csd_distance_raw b1 b2))).
Proof. exact record_csd_valid. Qed.
Theorem C18_record_csd_invalid : forall g m, m_num m = Gen.Consts.c_MesgNumRecord -> csd_valid m = false ->
  fld (fst (expand_record g m)) "Distance" = fld m "Distance" /\
  fld (fst (expand_record g m)) "Speed" = fld m "Speed" /\
  g_dist (snd (expand_record g m)) = g_dist g.
Proof. exact record_csd_invalid. Qed.
Print Assumptions C18_record_csd_valid.

(* C18_stream_distance: decoding, from a state whose distance accumulator is fresh (g_init: a fresh process), a stream in the
   domain of decode_denote: in the record slot, the Distance fields at the records whose source is valid are
   spec_accumulate 12 of the raw distances -- the running sum of rollover-corrected deltas since the start of the file --
   the records with an invalid source keep the Distance they carried; with all sources valid the whole Distance
   column is spec_accumulate 12 (raws); raw = model_csd_distance_raw, which is the property's b1/16 + 16*b2 when the
   high nibble of the third byte is clear (known finding csd_high_nibble otherwise) *)
Theorem C18_stream_distance : forall o g rd fuel h rs ss1 f2 g1 extra,
  header_wf h -> h_dsize h = N.of_nat (List.length (ser_records rs)) ->
  starts_with_file_id rs = true -> stream_wf rs = true -> denote rs = Some ss1 ->
  start_file h g (hd dummy_msg (ss_msgs ss1)) = Some (f2, g1) ->
  rd_data rd = fit_file h rs ++ extra ->
  (List.length (rd_data rd) + List.length (rd_sched rd) < fuel)%nat ->
  g_dist g = None ->
  exists rd' file' g' q ft m0 ms,
    entry_Decode o g rd fuel = TDone (mk_dres None h (Some file') rd' g' q) /\
    ss_msgs ss1 = m0 :: ms /\ f_inited file' = Some ft /\
    forall i, find_slot ft Gen.Consts.c_MesgNumRecord = Some (i, true) -> (NCOMMON <= i)%nat ->
      let recs := nth i (f_slots file') [] in
      let src := filter is_record ms in
      List.length recs = List.length src /\
      pick_valid src (map distance_of recs) = spec_accumulate 12 (map raw_of (filter csd_valid src)) /\
      leave_invalid src (map distance_of recs) = map distance_of (filter (fun m => negb (csd_valid m)) src) /\
      (Forall (fun m => is_record m = true -> csd_valid m = true) ms ->
         map distance_of recs = spec_accumulate 12 (map raw_of src)) /\
      (Forall (fun m => is_record m = true -> csd_valid m = true) ms ->
       Forall (fun m => is_record m = true -> nth 2 (csd_bytes m) 0 < 16) ms ->
         map distance_of recs = spec_accumulate 12 (map spec_raw_of src)).
Proof. exact stream_distance. Qed.
Print Assumptions C18_stream_distance.

(* from an arbitrary state the sum continues from what the previous file of the process left, and the state handed on
   is the accumulator run over this file's valid sources *)
Theorem C18_stream_distance_from_state : forall o g rd fuel h rs ss1 f2 g1 extra,
  header_wf h -> h_dsize h = N.of_nat (List.length (ser_records rs)) ->
  starts_with_file_id rs = true -> stream_wf rs = true -> denote rs = Some ss1 ->
  start_file h g (hd dummy_msg (ss_msgs ss1)) = Some (f2, g1) ->
  rd_data rd = fit_file h rs ++ extra ->
  (List.length (rd_data rd) + List.length (rd_sched rd) < fuel)%nat ->
  exists rd' file' g' q ft m0 ms,
    entry_Decode o g rd fuel = TDone (mk_dres None h (Some file') rd' g' q) /\
    ss_msgs ss1 = m0 :: ms /\ f_inited file' = Some ft /\
    forall i, find_slot ft Gen.Consts.c_MesgNumRecord = Some (i, true) -> (NCOMMON <= i)%nat ->
      pick_valid (filter is_record ms) (map distance_of (nth i (f_slots file') [])) =
        run_accum (dist_acc g) (map raw_of (filter csd_valid (filter is_record ms))) /\
      dist_acc g' = run_accum_state (dist_acc g) (map raw_of (filter csd_valid (filter is_record ms))).
Proof. exact stream_distance_from_state. Qed.

(* FULL STATEMENT (refuted): C18_stream_distance for an ARBITRARY accumulator state g (known finding accum_per_process:
   the accumulator is a package-level variable).  Witness: the example file below decoded a second time, from the
   state the first Decode left: the Distances are 4097, 4099, 4101 instead of 1, 3, 5 *)
Theorem C18_stream_distance_any_state_refuted :
  exists g, g_dist g <> None /\
    g = state_after (entry_Decode no_opts g_init csd_reader 200) /\
    record_distances (entry_Decode no_opts g csd_reader 200) = Some [4097; 4099; 4294967295; 4101] /\
    record_distances (entry_Decode no_opts g csd_reader 200) <> record_distances (entry_Decode no_opts g_init csd_reader 200).
Proof. exact stream_distance_any_state_refuted. Qed.

(* the hypotheses of the two stream theorems are satisfiable: an activity file with four records carrying
   compressed_speed_distance (raw distances 1, 3, an invalid FF FF FF, 5), read in chunks of 4, 0, 9 bytes;
   the decoded Distances are the running sum at the valid records, the invalid one keeps its invalid Distance *)
Example C18_stream_example :
  header_wf csd_hdr /\ h_dsize csd_hdr = N.of_nat (List.length (ser_records csd_stream)) /\
  starts_with_file_id csd_stream = true /\ stream_wf csd_stream = true /\
  (exists ss f2 g1, denote csd_stream = Some ss /\ start_file csd_hdr g_init (hd dummy_msg (ss_msgs ss)) = Some (f2, g1)) /\
  g_dist g_init = None /\
  record_distances (entry_Decode no_opts g_init csd_reader 200) = Some [1; 3; 4294967295; 5] /\
  spec_accumulate 12 [1; 3; 5] = [1; 3; 5].
Proof. exact csd_stream_example. Qed.

(* PARTIAL: total_cycles / accumulated_power on streams are not stated (their accumulators never move: known finding
   accum_mask0, C18_zero_mask_accumulates_nothing); the stream theorems hold inside the domain of C02 decode_denote. *)

(* non-vacuity *)
Example C18_example : run_accum (new_accum 12) [4090; 5; 20] = [4090; 4101; 4116] /\ spec_accumulate 12 [4090; 5; 20] = [4090; 4101; 4116].
Proof. split; vm_compute; reflexivity. Qed.
