(* C18 -- Component fields expand per profile, with per-file accumulation.
   Model: Model/Components.v (generated expandComponents bodies with Go's
   operand widths, accumu.go, the package-level accumulators as explicit state).
   Where the faithful model refutes the property the witness is a theorem and
   the finding is listed in KNOWN_FINDINGS.txt. *)
From Coq Require Import NArith ZArith List Bool String.
From FitV Require Import Model.Values Model.Profile Model.Components Spec.ComponentSpec Proofs.ComponentProofs.
Import ListNotations.
Local Open Scope N_scope.

(* a 16-bit speed/altitude source is widened into its enhanced field, for every source bit pattern;
   an invalid source (0xFFFF) leaves the message untouched; no other field changes *)
Theorem C18_widen16_dst : forall m src dst j, sindex_of (m_num m) dst = Some j -> (j < List.length (m_fields m))%nat ->
  uval (fld m src) < 65536 ->
  uval (fld (widen16 m src dst) dst) = spec_enhanced (uval (fld m src)) (uval (fld m dst)).
Proof. exact widen16_dst. Qed.
Print Assumptions C18_widen16_dst.
Theorem C18_widen16_other : forall m src dst n i j, sindex_of (m_num m) dst = Some i -> sindex_of (m_num m) n = Some j -> i <> j ->
  fld (widen16 m src dst) n = fld m n.
Proof. exact widen16_other. Qed.
Theorem C18_widen16_invalid : forall m src dst, uval (fld m src) = 0xFFFF -> widen16 m src dst = m.
Proof. exact widen16_invalid. Qed.

(* event data: the bit slices of sport_point and gear change, for all 2^32 data values *)
Theorem C18_event_bit_slices : forall d, d < 2 ^ 32 ->
  N.land d 0xFFFF = spec_score d /\ N.land (N.shiftr d 16) 0xFFFF = spec_opponent_score d /\
  N.land d 0xFF = spec_gear_byte d 0 /\ N.land (N.shiftr d 8) 0xFF = spec_gear_byte d 1 /\
  N.land (N.shiftr d 16) 0xFF = spec_gear_byte d 2 /\ N.land (N.shiftr d 24) 0xFF = spec_gear_byte d 3.
Proof. exact event_bit_slices. Qed.

(* compressed_speed_distance: the speed half is right for all byte values *)
Theorem C18_csd_speed : forall b0 b1, b0 < 256 -> b1 < 256 ->
  N.lor b0 (N.shiftl (N.land b1 0x0F) 8) = spec_csd_speed b0 b1.
Proof. exact csd_speed_spec. Qed.
(* FULL STATEMENT (refuted): forall b1 b2 < 256, model_csd_distance_raw b1 b2 = spec_csd_distance_raw b1 b2.
   Proved under the exact side condition b2 < 16; witness of the defect below (x[2]<<4 is evaluated in byte). *)
Theorem C18_csd_distance_partial : forall b1 b2, b1 < 256 -> b2 < 16 ->
  model_csd_distance_raw b1 b2 = spec_csd_distance_raw b1 b2.
Proof. exact csd_distance_partial. Qed.
Theorem C18_csd_distance_refuted : exists b1 b2, b1 < 256 /\ b2 < 256 /\ model_csd_distance_raw b1 b2 <> spec_csd_distance_raw b1 b2.
Proof. exact csd_distance_refuted. Qed.

(* accumulated destinations: an accumulator with mask 2^bits - 1 realises the running sum of
   rollover-corrected deltas, for every list of source values *)
Theorem C18_accumulate_spec : forall bits vals a, bits <= 32 -> ac_mask a = 2 ^ bits - 1 -> ac_last a < 2 ^ 32 ->
  Forall (fun v => v < 2 ^ 32) vals ->
  run_accum a vals = spec_accumulate_from bits (ac_value a) (ac_last a) vals.
Proof. exact accumulate_spec. Qed.
Print Assumptions C18_accumulate_spec.
Theorem C18_fresh_accumulator_spec : forall bits vals, 1 <= bits <= 32 -> Forall (fun v => v < 2 ^ 32) vals ->
  run_accum (new_accum bits) vals = spec_accumulate bits vals.
Proof. exact fresh_accumulator_spec. Qed.
(* FULL STATEMENT (refuted for total_cycles and accumulated_power): their accumulators are created by
   new(uint32Accumulator), mask 0, and never move *)
Theorem C18_zero_mask_accumulates_nothing : forall vals a, ac_mask a = 0 -> ac_value a < 2 ^ 32 ->
  Forall (fun x => x = ac_value a) (run_accum a vals).
Proof. exact zero_mask_accumulates_nothing. Qed.
Theorem C18_total_cycles_refuted : exists vals, run_accum zero_accum vals <> spec_accumulate 8 vals.
Proof. exact total_cycles_refuted. Qed.

(* non-vacuity *)
Example C18_example : run_accum (new_accum 12) [4090; 5; 20] = [4090; 4101; 4116] /\ spec_accumulate 12 [4090; 5; 20] = [4090; 4101; 4116].
Proof. split; vm_compute; reflexivity. Qed.
