(* C20 -- Every profile constant prints its profile name; string tables match the types. *)
From Coq Require Import NArith List String.
From FitV Require Import Model.Stringer Spec.StringSpec Proofs.StringerProofs Proofs.StringerInstance
  Proofs.StringSpecProofs Proofs.StringerModelProofs Gen.TypesData.
Import ListNotations.
Local Open Scope N_scope.
Local Open Scope string_scope.

(* for every named constant of every generated FIT type, String returns the
   constant's name without the type prefix (any one of the names sharing the value) *)
Theorem C20_string_of_const : forall T, In T types -> forall n v, In (n, v) (t_consts T) ->
  exists s, type_string T v = Some s /\ In s (names_of (t_name T) (t_consts T) v).
Proof. exact string_of_const. Qed.
Print Assumptions C20_string_of_const.

Example C20_const_example :
  In ty_ActivityClass types /\ In ("ActivityClassLevelMax", 100) (t_consts ty_ActivityClass) /\
  type_string ty_ActivityClass 100 = Some "LevelMax" /\
  names_of "ActivityClass" (t_consts ty_ActivityClass) 100 = ["LevelMax"] /\
  In ty_GarminProduct types /\ type_string ty_GarminProduct 65534 = Some "Connect".
Proof.
  split; [exact ActivityClass_in_types|]. split; [vm_compute; tauto|].
  split; [vm_compute; reflexivity|]. split; [vm_compute; reflexivity|].
  split; [exact GarminProduct_in_types|vm_compute; reflexivity].
Qed.

(* every other value of the type's width -- all 2^8, 2^16 and 2^32 alike -- prints as Type(n) *)
Theorem C20_string_of_other : forall T, In T types -> forall v, v < 2 ^ t_bits T ->
  ~ is_const_value (t_consts T) v -> type_string T v = Some (other_text (t_name T) v).
Proof. exact string_of_other. Qed.
Print Assumptions C20_string_of_other.

(* the generic lemma behind it: ANY String method of the three shapes falls back
   outside the intervals / keys it tests, including the unsigned wrap of i -= lo *)
Theorem C20_string_of_outside : forall bits m v,
  shape_ok bits m = true -> v < 2 ^ bits -> in_domain v (domain m) = false ->
  string_of bits m v = Some (fallback m v).
Proof. exact string_of_outside. Qed.
Print Assumptions C20_string_of_outside.

Example C20_other_example :
  In ty_Weight types /\ t_bits ty_Weight = 16 /\ ~ is_const_value (t_consts ty_Weight) 5 /\
  type_string ty_Weight 5 = Some "Weight(5)" /\
  In ty_LocaltimeIntoDay types /\ t_bits ty_LocaltimeIntoDay = 32 /\
  type_string ty_LocaltimeIntoDay 4294967294 = Some "LocaltimeIntoDay(4294967294)" /\
  other_text "LocaltimeIntoDay" 4294967294 = "LocaltimeIntoDay(4294967294)".
Proof.
  split; [exact Weight_in_types|]. split; [reflexivity|].
  split; [vm_compute; intuition discriminate|]. split; [vm_compute; reflexivity|].
  split; [exact LocaltimeIntoDay_in_types|]. split; [reflexivity|].
  split; vm_compute; reflexivity.
Qed.

(* the intervals / keys tested by each String method are exactly the type's constant values *)
Theorem C20_runs_cover : forall T, In T types -> forall v,
  in_domain v (domain (t_rep T)) = true <-> is_const_value (t_consts T) v.
Proof. exact runs_cover. Qed.
Print Assumptions C20_runs_cover.

(* the checked-in string tables are what the modelled stringer algorithm
   (stable sort, de-duplication, runs, choice of shape) produces from the
   checked-in type definitions *)
Theorem C20_tables_are_stringer_output : forall T, In T types ->
  t_rep T = stringer_model (t_name T) (t_consts T).
Proof. exact tables_are_stringer_output. Qed.
Print Assumptions C20_tables_are_stringer_output.

Example C20_tables_example :
  stringer_model "Weight" [("WeightCalculating", 65534); ("WeightInvalid", 65535)] =
  mk_strmethod "Weight(" ")" (SOne (Some 65534) (Some 65534) "CalculatingInvalid" 8 [0; 11; 18]) /\
  t_rep ty_Weight = stringer_model "Weight" [("WeightCalculating", 65534); ("WeightInvalid", 65535)].
Proof. split; vm_compute; reflexivity. Qed.

(* the stringer is asked for exactly the declared types *)
Theorem C20_listed_are_declared : listed_types = map t_name types.
Proof. exact listed_are_declared. Qed.

(* no String method of a generated type panics *)
Theorem C20_string_of_total : forall T, In T types -> forall v, v < 2 ^ t_bits T -> type_string T v <> None.
Proof. exact string_of_total. Qed.
Print Assumptions C20_string_of_total.

(* the model's strconv.FormatInt is the spec's decimal numeral *)
Theorem C20_format_int64_small : forall v, v < 2 ^ 63 -> format_int64 v = decimal v.
Proof. exact format_int64_small. Qed.

(* GENERIC over all constant sets (not only the checked-in ones): the String
   method built by the modelled stringer prints Type(n) for every value of the
   type's width that is not the value of a constant *)
Theorem C20_stringer_model_other : forall bits tname consts v,
  bits <= 63 -> (forall c, In c consts -> snd c < 2 ^ bits) -> v < 2 ^ bits -> ~ In v (map snd consts) ->
  string_of bits (stringer_model tname consts) v = Some (other_text tname v).
Proof. exact stringer_model_other. Qed.
Print Assumptions C20_stringer_model_other.

Example C20_stringer_model_other_example :
  let consts := [("TA", 1); ("TB", 2); ("TC", 2); ("TD", 7); ("TZ", 255)] in
  (forall c, In c consts -> snd c < 2 ^ 8) /\ ~ In 3 (map snd consts) /\
  string_of 8 (stringer_model "T" consts) 3 = Some "T(3)" /\
  string_of 8 (stringer_model "T" consts) 2 = Some "B".
Proof.
  cbv zeta. split; [|split; [|split]].
  - intros c H. simpl in H. repeat (destruct H as [<-|H]; [reflexivity|]). contradiction.
  - simpl. intuition discriminate.
  - vm_compute. reflexivity.
  - vm_compute. reflexivity.
Qed.

(* the spec means what it says: names_of collects the prefix-less names of the
   constants with value v; decimal is the canonical numeral of its argument *)
Theorem C20_names_of_spec : forall T consts v s,
  In s (names_of T consts v) <-> exists n, In (n, v) consts /\ s = short_name T n.
Proof. exact names_of_spec. Qed.

Theorem C20_short_name_prefixed : forall T r, short_name T (T ++ r) = r.
Proof. exact short_name_prefixed. Qed.

Theorem C20_decimal_value : forall n, numeral_value (decimal n) = Some n.
Proof. exact decimal_value. Qed.
Print Assumptions C20_decimal_value.

Theorem C20_decimal_canonical : forall n, no_leading_zero (decimal n) = true.
Proof. exact decimal_canonical. Qed.
