(* C06 -- Encode then Decode returns the values that were put in.
   Models: Model/Encode.v and Model/Decode.v.  Comparators: Spec/RoundTrip.v.
   Level proved: FIELD level, for every field kind of the representable domain, all values, both byte
   orders: what the decoder's field parsers (parseFitField, parseFitFieldArray, parseTimeStamp,
   NewLatitude/NewLongitude on the 4 extended bytes) return on the bytes the encoder's field writers
   (encodeValue, writeField) produced is the value put in, up to norm_field (trailing invalid padding of
   arrays, wall-clock reading of local times); and STREAM level (C06_roundtrip below): Decode of the bytes Encode wrote
   returns a File with content_eq6, for every well-formed in-domain File (no side condition on its times: the
   decoder's two time-rule defects of C12 are repaired, fixed: ac9b0b0, 2f21531). *)
From Coq Require Import NArith ZArith List Bool String.
From FitV Require Import Model.Values Model.Bytes Model.Base Model.Profile Model.Encode Model.Decode Spec.RoundTrip
  Model.Header Model.Route Spec.FitSyntax Spec.Grammar Proofs.EncodeProofs Proofs.C06Codec Proofs.C06Defs Proofs.C06Lay
  Model.IO Model.Components Proofs.C06Recs Proofs.C06Denote Proofs.C06Route Proofs.C06RoundTrip
  Proofs.StreamDenoteDefs Proofs.StreamDenoteMain Proofs.StreamDenoteFrame Proofs.StreamDenoteDecode Proofs.EncExamples.
Import ListNotations.
Local Open Scope N_scope.

(* integers of every width, both byte orders *)
Theorem C06_get16_put_int : forall be x, get16 be (put_int be 2 x) = x mod 65536.
Proof. exact get16_put_int. Qed.
Theorem C06_get32_put_int : forall be x, get32 be (put_int be 4 x) = x mod 4294967296.
Proof. exact get32_put_int. Qed.

(* numeric scalars (enum, byte, uint8/z, sint8, uint16/z, sint16, uint32/z, sint32) *)
Theorem C06_rt_scalar : forall be pf fd ty v bs,
  (fit_kind (pf_t pf) =? kind_native) = true -> (fit_base (pf_t pf) =? base_string) = false ->
  codec_ty (fd_btype fd) = Some ty -> val_has_type ty v = true ->
  encode_value be pf ty v = EOk bs -> parse_fit_field be fd bs ty = FSet v.
Proof. exact rt_scalar. Qed.
Print Assumptions C06_rt_scalar.
(* the side condition on the Go type holds for every scalar numeric field of the current profile *)
Theorem C06_profile_codec_ok : forall m num pf, In m Gen.ProfileData.messages -> In (num, pf) (md_entries m) ->
  (fit_kind (pf_t pf) =? kind_native) = true -> fit_array (pf_t pf) = false ->
  (fit_base (pf_t pf) =? base_string) = false ->
  codec_ty (fit_base (pf_t pf)) = field_type (md_num m) (pf_sindex pf).
Proof. exact profile_codec_ok. Qed.

(* strings: valid UTF-8 without NUL that fits with its terminator; the empty string stays unset *)
Theorem C06_rt_string : forall be (pf : pfield) fd s size,
  forallb (fun b => (0 <? b) && (b <? 256)) s = true -> utf8_valid s = true ->
  N.of_nat (List.length s) + 1 <= size -> fd_btype fd = base_string ->
  encode_string s size = EOk (s ++ repeat 0 (N.to_nat size - List.length s)) /\
  parse_fit_field be fd (s ++ repeat 0 (N.to_nat size - List.length s)) TStr =
    match s with [] => FKeep | _ => FSet (VStr s) end.
Proof. exact rt_string. Qed.

(* whole-second timestamps in range; local timestamps by wall clock, whatever the decoder's reference state *)
Theorem C06_rt_time_utc : forall be sg pf ty s zone bs st num,
  fit_kind (pf_t pf) = kind_timeutc -> (0 <= s <= 4294967294)%Z ->
  encode_value be pf ty (VTime s 0 zone) = EOk bs ->
  fst (parse_time_stamp st (get32 be (extend4 be sg bs)) kind_timeutc num) = Some (VTime s 0 None).
Proof. exact rt_time_utc. Qed.
Theorem C06_rt_time_local : forall be sg pf ty s zone bs st num,
  fit_kind (pf_t pf) = kind_timelocal -> fit_array (pf_t pf) = false ->
  (-8589934592 <= s <= 8589934592)%Z -> (0 <= s + zone_off zone <= 4294967294)%Z ->
  encode_value be pf ty (VTime s 0 zone) = EOk bs ->
  exists v', fst (parse_time_stamp st (get32 be (extend4 be sg bs)) kind_timelocal num) = Some v' /\
             norm_field pf v' = norm_field pf (VTime s 0 zone).
Proof. exact rt_time_local. Qed.

(* coordinates *)
Theorem C06_rt_lat : forall be sg pf ty z bs,
  fit_kind (pf_t pf) = kind_lat -> (z = 2147483647 \/ -1073741824 <= z <= 1073741823)%Z ->
  encode_value be pf ty (VLat z) = EOk bs ->
  new_latitude (to_signed 32 (get32 be (extend4 be sg bs))) = VLat z.
Proof. exact rt_lat. Qed.
Theorem C06_rt_lng : forall be sg pf ty z bs,
  fit_kind (pf_t pf) = kind_lng -> (-2147483648 <= z <= 2147483647)%Z ->
  encode_value be pf ty (VLng z) = EOk bs ->
  new_longitude (to_signed 32 (get32 be (extend4 be sg bs))) = VLng z.
Proof. exact rt_lng. Qed.

(* arrays no longer than the profile length: decoded = put in, followed by invalid padding; equal under norm *)
Theorem C06_rt_array : forall be pf fd ty iv l bs,
  fit_array (pf_t pf) = true -> (fit_kind (pf_t pf) =? kind_native) = true ->
  codec_ty (fit_base (pf_t pf)) = Some ty -> fd_btype fd = fit_base (pf_t pf) ->
  b_invalid (fit_base (pf_t pf)) = Some iv ->
  N.of_nat (List.length l) <= pf_length pf -> pf_length pf < 256 -> all_typed ty l ->
  write_field be pf (TSlice ty) (VList l) = EOk bs ->
  parse_fit_field_array be fd bs (TSlice ty) =
    FSet (VList (l ++ repeat iv (N.to_nat (pf_length pf) - List.length l))).
Proof. exact rt_array. Qed.
Theorem C06_rt_array_norm : forall be pf fd ty iv l bs,
  fit_array (pf_t pf) = true -> (fit_kind (pf_t pf) =? kind_native) = true ->
  codec_ty (fit_base (pf_t pf)) = Some ty -> fd_btype fd = fit_base (pf_t pf) ->
  b_invalid (fit_base (pf_t pf)) = Some iv -> is_inv (fit_base (pf_t pf)) iv = true ->
  N.of_nat (List.length l) <= pf_length pf -> pf_length pf < 256 -> all_typed ty l ->
  write_field be pf (TSlice ty) (VList l) = EOk bs ->
  exists v', parse_fit_field_array be fd bs (TSlice ty) = FSet v' /\ norm_field pf v' = norm_field pf (VList l).
Proof. exact rt_array_norm. Qed.
Theorem C06_codec_is_inv : forall bt ty iv, codec_ty bt = Some ty -> b_invalid bt = Some iv -> is_inv bt iv = true.
Proof. exact codec_is_inv. Qed.
Print Assumptions C06_rt_array_norm.

(* ---- stream level, first piece: encode_is_serialize.  For every well-formed File, both byte orders, both header
   sizes: the bytes Encode writes are the framed serialisation (fit_file: header, records, CRC -- the input format
   of the stream theorem C02_decode_denote) of an explicit record list rs laid out as [lay] describes: a definition
   and a data record per message of a pointer slot, one definition (covering every set field of every element, field
   numbers distinct) and one data record per element for a slice slot, local type 0 throughout, each field's bytes
   being what writeField wrote for the struct field; rs is serialisable (stream_wf) and starts with the file_id
   definition and message.  Side conditions on the header: as NewHeader makes it, a protocol version Decode accepts,
   16-bit profile version. *)
Theorem C06_encode_is_serialize : forall f be bs f',
  wf_file f = true -> wf_header (f_header f) = true ->
  proto_ok (h_proto (f_header f)) = true -> h_profile (f_header f) < 65536 ->
  encode f be = EOk (bs, f') -> N.of_nat (List.length bs) < 4294967296 ->
  exists rs, let h := wire_header (f_header f) (N.of_nat (List.length (ser_records rs))) in
    bs = fit_file h rs /\ header_wf h /\ h_dsize h = N.of_nat (List.length (ser_records rs)) /\
    lay be (file_msgs f) rs /\ stream_wf rs = true /\ starts_with_file_id rs = true.
Proof. exact encode_is_serialize. Qed.
Print Assumptions C06_encode_is_serialize.

(* ---- stream level, second piece: the laid-out record list is in the domain of the reference semantics and
   denotes the File's messages up to norm_msg (lay_denote); third piece: routing the denoted messages back gives
   content_eq6 (route_roundtrip_g: slot by slot, expansion of components on accumulators with mask 0) *)
Theorem C06_lay_denote : forall be msgs rs, lay be msgs rs -> Forall msg_dom msgs ->
  forall ss0, exists ss1 msgs',
    denote_from ss0 rs = Some ss1 /\ ss_msgs ss1 = ss_msgs ss0 ++ msgs' /\ Forall2 msg_norm_eq msgs msgs' /\
    ss_unkm ss1 = ss_unkm ss0 /\ ss_unkf ss1 = ss_unkf ss0.
Proof. exact lay_denote. Qed.

(* ---- roundtrip.  For every File f with
     wf_file f            a Go state reachable through the public API,
     in_domain f          the representable domain of the property (valid UTF-8 strings that fit, arrays no longer than
                          the profile length, whole-second timestamps in range, valid coordinates, no valid
                          compressed_speed_distance: known finding csd_accumulator),
     a header as NewHeader makes it with a protocol version Decode accepts,
   (nothing is asked of the times in f beyond in_domain: the former side condition no_time_quirk, which kept the
   record list off the decoder's two time-rule defects of C12 -- an explicit timestamp 0 on the wire, e.g. an unset
   Timestamp written because another element of the slice has one; a local timestamp without a reference
   >= 0x10000000 before it -- is gone with the defects, fixed: ac9b0b0, 2f21531)
   both byte orders, both header sizes, every decode option set, every reader (chunk schedule, trailing bytes) and
   every accumulator state g with ginv g (total_cycles / accumulated_power accumulators absent or mask 0, value 0:
   the initial state and every state reachable from it): Decode of the bytes Encode wrote succeeds, reports the
   header written, consumes exactly those bytes, and returns a File file' with content_eq6 f file' (same file type,
   per slot the same number of messages in the same order, field-for-field equal after norm: arrays up to
   trailing invalid padding, local timestamps by wall clock, derived fields as the component rule prescribes,
   unset fields invalid). *)
Theorem C06_roundtrip : forall f be bs f' o g rd fuel extra,
  wf_file f = true -> wf_header (f_header f) = true ->
  proto_ok (h_proto (f_header f)) = true -> h_profile (f_header f) < 65536 ->
  in_domain f = true -> ginv g ->
  encode f be = EOk (bs, f') -> N.of_nat (List.length bs) < 4294967296 ->
  rd_data rd = bs ++ extra -> (List.length (rd_data rd) + List.length (rd_sched rd) < fuel)%nat ->
  exists rd' file' g' q,
    entry_Decode o g rd fuel =
      TDone (mk_dres None (wire_header (f_header f) (N.of_nat (List.length (ser_records (file_recs f be))))) (Some file') rd' g' q) /\
    content_eq6 f file' = true /\ ginv g' /\ rd_data rd' = extra /\ rd_pos rd' = (rd_pos rd + List.length bs)%nat.
Proof. exact roundtrip. Qed.
Print Assumptions C06_roundtrip.

(* the hypotheses are satisfiable *)
Example C06_roundtrip_example :
  wf_file ex_file = true /\ wf_header (f_header ex_file) = true /\ proto_ok (h_proto (f_header ex_file)) = true /\
  h_profile (f_header ex_file) < 65536 /\ in_domain ex_file = true /\
  (exists bs f', encode ex_file true = EOk (bs, f') /\ N.of_nat (List.length bs) < 4294967296).
Proof. exact roundtrip_example. Qed.

Example C06_example : wf_file ex_file = true /\ in_domain ex_file = true.
Proof. split; vm_compute; reflexivity. Qed.
