(* C06 -- Encode then Decode returns the values that were put in.
   Models: Model/Encode.v and Model/Decode.v.  Comparators: Spec/RoundTrip.v. *)
From Coq Require Import NArith ZArith List Bool String.
From FitV Require Import Model.Values Model.Bytes Model.Encode Model.Decode Spec.RoundTrip Proofs.C06Codec Proofs.EncExamples.
Import ListNotations.
Local Open Scope N_scope.

(* integers of every width, both byte orders: what the decoder's ByteOrder
   readers return on the bytes binary.Write produced *)
Theorem C06_get16_put_int : forall be x, get16 be (put_int be 2 x) = x mod 65536.
Proof. exact get16_put_int. Qed.
Theorem C06_get32_put_int : forall be x, get32 be (put_int be 4 x) = x mod 4294967296.
Proof. exact get32_put_int. Qed.
Print Assumptions C06_get32_put_int.

Example C06_example : wf_file ex_file = true /\ in_domain ex_file = true.
Proof. split; vm_compute; reflexivity. Qed.
