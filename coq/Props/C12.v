(* C12 -- Timestamps follow the FIT time rules, including compressed headers. *)
From Coq Require Import NArith ZArith List Bool.
From FitV Require Import Model.Values Model.Bytes Model.Base Model.Profile Model.IO Model.Route Model.Decode Gen.Consts
  Spec.FitSyntax Spec.RouteSpec Proofs.DecodeLemmas
  Proofs.StreamDenoteBase Proofs.StreamDenoteDefs Proofs.StreamDenoteLoop Proofs.StreamDenoteSkip Proofs.StreamDenoteMain
  Proofs.StreamDenoteWitness.
Import ListNotations.
Local Open Scope N_scope.

(* date_time: 1989-12-31T00:00:00Z plus the stored seconds (VTime is relative to that epoch);
   0xFFFFFFFF leaves the field at the invalid base time *)
Theorem C12_date_time_value : forall u, decode_date_time u = VTime (Z.of_N u) 0 None.
Proof. exact date_time_value. Qed.
Theorem C12_invalid_time_untouched : forall s kind num, parse_time_stamp s 0xFFFFFFFF kind num = (None, s).
Proof. exact invalid_time_untouched. Qed.

(* the compressed-timestamp rule, for all 2^32 references and all 32 offsets: the latest timestamp advanced by
   the 5-bit offset with 32-second rollover *)
Theorem C12_rollover_rule : forall r off, off < 32 ->
  let r' := r + (off + 32 - r mod 32) mod 32 in r' mod 32 = off /\ r <= r' < r + 32.
Proof. exact rollover_rule. Qed.
Print Assumptions C12_rollover_rule.

(* the decoder's arithmetic is that rule under its invariant lastTimeOffset = timestamp mod 32, which every
   explicit timestamp establishes (re-basing) and every compressed step preserves (accumulation over runs) *)
Theorem C12_model_step_is_rule : forall ts last off, last = ts mod 32 ->
  (ts + (off + 32 - last) mod 32) mod 2 ^ 32 = (ts + (off + 32 - ts mod 32) mod 32) mod 2 ^ 32.
Proof. exact model_step_is_rule. Qed.
Theorem C12_explicit_timestamp_invariant : forall u, N.land u c_compressedTimeMask = u mod 32.
Proof. exact explicit_timestamp_invariant. Qed.
Theorem C12_compressed_step_invariant : forall ts off, off < 32 -> ts + 32 < 2 ^ 32 ->
  ((ts + (off + 32 - ts mod 32) mod 32) mod 2 ^ 32) mod 32 = off.
Proof. exact compressed_step_invariant. Qed.

(* local_date_time with a usable reference (a timestamp field has been seen, d.hasTimestamp, and it is an absolute
   instant, >= systemTimeMarker): the reference UTC instant in a fixed zone of offset local - UTC *)
Theorem C12_local_time_with_reference : forall s u num, u <> 0xFFFFFFFF -> ds_hasts s = true -> c_systemTimeMarker <= ds_ts s ->
  parse_time_stamp s u kind_timelocal num = (Some (VTime (Z.of_N (ds_ts s)) 0 (Some (Z.of_N u - Z.of_N (ds_ts s))%Z)), s).
Proof. exact local_time_with_reference. Qed.

(* FULL STATEMENT (proved; formerly refuted): without a usable reference (none yet, or a power-on-relative one below
   systemTimeMarker) the local value is kept with offset 0 AND the decoder state is untouched: the reference stays
   what it was.  The code used to make the local value the reference (defect local_sets_reference, fixed: ac9b0b0). *)
Theorem C12_local_time_without_reference : forall s u num, u <> 0xFFFFFFFF ->
  (ds_hasts s = false \/ ds_ts s < c_systemTimeMarker) ->
  parse_time_stamp s u kind_timelocal num = (Some (VTime (Z.of_N u) 0 (Some 0%Z)), s).
Proof. exact local_time_without_reference. Qed.

(* ---------------------------------------------------------------------------------------------------------
   compressed_time_spec on whole streams.  The time rules are the reference semantics' (Spec/FitSyntax.v:
   denote_data, denote_fields); the decoder follows them record by record: *)

(* one record of any kind -- in particular a compressed-timestamp record in any decoder state related to the
   reference state -- is decoded to exactly what [denote_record] says, including the new time reference
   (Inv contains: d.hasTimestamp <-> a reference exists, and then d.timestamp = reference,
   d.lastTimeOffset = reference mod 32; a reference 0 is a reference like any other) *)
Theorem C12_record_step : forall o pre fb gb ft s ss r ss' tl t n lim,
  Inv o pre fb gb ft s ss -> rec_wf r = true -> denote_record ss r = Some ss' ->
  (n + List.length (ser_record r) <= lim)%nat ->
  exists s',
    run_a (parse_record o) (ast_at (ser_record r) tl t n lim) s =
      ROk tt (ast_at [] tl t (n + List.length (ser_record r)) lim) s' /\
    Inv o pre fb gb ft s' ss'.
Proof. exact record_step. Qed.
Print Assumptions C12_record_step.
(* (whole streams and the entry point Decode: Props/C02.v, C02_decode_denote_records / C02_decode_denote) *)

(* what the reference semantics says about compressed-timestamp records, hence -- by the theorem above -- what the
   decoder does: the reference advances by the rollover rule ... *)
Theorem C12_compressed_ref_rule : forall s l off pay dev s' d r,
  lookup_def (ss_env s) l = Some d -> ss_ref s = Some r ->
  (forall f, In f (sd_fds d) -> sf_num f <> c_fieldNumTimeStamp) ->
  denote_data s l (Some off) pay dev = Some s' ->
  ss_ref s' = Some (roll r off).
Proof. exact compressed_ref_rule. Qed.
(* ... the message is stamped with that instant ... *)
Theorem C12_compressed_stamp : forall s l off pay dev s' d r p m0,
  lookup_def (ss_env s) l = Some d -> ss_ref s = Some r ->
  known_msg (sd_gmn d) = true -> get_field (sd_gmn d) c_fieldNumTimeStamp = Some p ->
  (forall f q, In f (sd_fds d) -> get_field (sd_gmn d) (sf_num f) = Some q -> pf_sindex q <> pf_sindex p) ->
  mesg_all_invalid (sd_gmn d) = Some m0 -> (pf_sindex p < List.length (m_fields m0))%nat ->
  denote_data s l (Some off) pay dev = Some s' ->
  exists m, ss_msgs s' = ss_msgs s ++ [m] /\
            nth_error (m_fields m) (pf_sindex p) = Some (time_of (roll r off)).
Proof. exact compressed_stamp. Qed.
Print Assumptions C12_compressed_stamp.
(* ... which is the next instant at or after the reference whose low five bits are the header's offset ... *)
Theorem C12_roll_rule : forall r off, off < 32 -> r + 32 < 2 ^ 32 ->
  roll r off mod 32 = off /\ r <= roll r off < r + 32.
Proof. exact roll_rule. Qed.
(* ... and before any timestamp was seen a compressed record is decoded like a plain one (unstamped) *)
Theorem C12_no_reference_unstamped : forall s l off pay dev,
  ss_ref s = None -> denote_data s l (Some off) pay dev = denote_data s l None pay dev.
Proof. exact no_reference_unstamped. Qed.

(* FULL STATEMENT (proved): the stream theorem has no time side condition any more.  The three streams below were
   the witnesses of the two C12 time defects fixed by ac9b0b0 and 2f21531: a local timestamp before any reference
   followed by a compressed record (local_sets_reference), an explicit timestamp 0 followed by a compressed record
   (ts_zero_no_reference), and a compressed step wrapping the 32-bit reference to exactly 0 (the same defect without
   a literal 0 on the wire).  The repaired decoder agrees with the reference semantics on them: they are ordinary
   members of the domain of decode_denote now (recomputed) *)
Example C12_local_first_agrees :
  stream_wf w_local_first = true /\ starts_with_file_id w_local_first = true /\ agree w_local_first = true.
Proof. exact local_first_agrees. Qed.
Example C12_ts_zero_agrees :
  stream_wf w_ts_zero = true /\ starts_with_file_id w_ts_zero = true /\ agree w_ts_zero = true.
Proof. exact ts_zero_agrees. Qed.
Example C12_wrap_zero_agrees :
  stream_wf w_wrap_zero = true /\ starts_with_file_id w_wrap_zero = true /\ agree w_wrap_zero = true.
Proof. exact wrap_zero_agrees. Qed.

(* the hypotheses of the stream theorem are satisfiable by a stream with an explicit timestamp, a compressed record
   and a local timestamp read against the reference; on it model and reference semantics agree (recomputed) *)
Example C12_stream_example :
  starts_with_file_id ok_stream = true /\ stream_wf ok_stream = true /\
  (exists ss f2 g1, denote ok_stream = Some ss /\ StreamDenoteLift.start_file w_hdr Model.Components.g_init (hd dummy_msg (ss_msgs ss)) = Some (f2, g1)) /\
  agree ok_stream = true.
Proof. exact ok_stream_in_domain. Qed.

(* PARTIAL: nothing of the time rules is left to the harness alone: the stream theorems (C12_record_step,
   C02_decode_denote_records, C02_decode_denote) hold for all serialisable streams the reference semantics accepts;
   the remaining side conditions (stream_wf incl. canon_bt, starts_with_file_id, hosted file type, header_wf) do not
   concern time. *)
Example C12_example : let r' := 0x30000000 + (5 + 32 - 0x30000000 mod 32) mod 32 in r' = 0x30000005.
Proof. reflexivity. Qed.
