(* C12 -- Timestamps follow the FIT time rules, including compressed headers. *)
From Coq Require Import NArith ZArith List Bool.
From FitV Require Import Model.Values Model.Bytes Model.Base Model.Profile Model.IO Model.Route Model.Decode Gen.Consts
  Spec.FitSyntax Spec.RouteSpec Proofs.DecodeLemmas
  Proofs.StreamDenoteBase Proofs.StreamDenoteDefs Proofs.StreamDenoteLoop Proofs.StreamDenoteSkip Proofs.StreamDenoteMain
  Proofs.StreamDenoteWitness.
Import ListNotations.
Local Open Scope N_scope.

(* date_time: 1989-12-31T00:00:00Z plus the stored seconds (VTime is relative to that epoch);
   0xFFFFFFFF leaves the field at the invalid base time *)
Theorem C12_date_time_value : forall u, decode_date_time u = VTime (Z.of_N u) 0 None.
Proof. exact date_time_value. Qed.
Theorem C12_invalid_time_untouched : forall s kind num, parse_time_stamp s 0xFFFFFFFF kind num = (None, s).
Proof. exact invalid_time_untouched. Qed.

(* the compressed-timestamp rule, for all 2^32 references and all 32 offsets: the latest timestamp advanced by
   the 5-bit offset with 32-second rollover *)
Theorem C12_rollover_rule : forall r off, off < 32 ->
  let r' := r + (off + 32 - r mod 32) mod 32 in r' mod 32 = off /\ r <= r' < r + 32.
Proof. exact rollover_rule. Qed.
Print Assumptions C12_rollover_rule.

(* the decoder's arithmetic is that rule under its invariant lastTimeOffset = timestamp mod 32, which every
   explicit timestamp establishes (re-basing) and every compressed step preserves (accumulation over runs) *)
Theorem C12_model_step_is_rule : forall ts last off, last = ts mod 32 ->
  (ts + (off + 32 - last) mod 32) mod 2 ^ 32 = (ts + (off + 32 - ts mod 32) mod 32) mod 2 ^ 32.
Proof. exact model_step_is_rule. Qed.
Theorem C12_explicit_timestamp_invariant : forall u, N.land u c_compressedTimeMask = u mod 32.
Proof. exact explicit_timestamp_invariant. Qed.
Theorem C12_compressed_step_invariant : forall ts off, off < 32 -> ts + 32 < 2 ^ 32 ->
  ((ts + (off + 32 - ts mod 32) mod 32) mod 2 ^ 32) mod 32 = off.
Proof. exact compressed_step_invariant. Qed.

(* local_date_time with a usable reference: the reference UTC instant in a fixed zone of offset local - UTC *)
Theorem C12_local_time_with_reference : forall s u num, u <> 0xFFFFFFFF -> c_systemTimeMarker <= ds_ts s ->
  parse_time_stamp s u kind_timelocal num = (Some (VTime (Z.of_N (ds_ts s)) 0 (Some (Z.of_N u - Z.of_N (ds_ts s))%Z)), s).
Proof. exact local_time_with_reference. Qed.

(* FULL STATEMENT (refuted): without a reference the local value is kept with offset 0 AND the reference stays
   absent. The code makes the local value the reference (known finding local_sets_reference); the model tags
   every execution entering that branch: *)
Theorem C12_local_time_without_reference : forall s u num, u <> 0xFFFFFFFF -> ds_ts s < c_systemTimeMarker ->
  fst (parse_time_stamp s u kind_timelocal num) = Some (VTime (Z.of_N u) 0 (Some 0%Z)) /\
  ds_ts (snd (parse_time_stamp s u kind_timelocal num)) = u /\
  In Q_LOCAL_SETS_REF (ds_quirks (snd (parse_time_stamp s u kind_timelocal num))).
Proof. exact local_time_without_reference. Qed.

(* ---------------------------------------------------------------------------------------------------------
   compressed_time_spec on whole streams.  The time rules are the reference semantics' (Spec/FitSyntax.v:
   denote_data, denote_fields); the decoder follows them record by record: *)

(* one record of any kind -- in particular a compressed-timestamp record in any decoder state related to the
   reference state -- is decoded to exactly what [denote_record] says, including the new time reference
   (Inv contains: d.timestamp = reference, d.lastTimeOffset = reference mod 32, 0 <-> no reference) *)
Theorem C12_record_step : forall o pre fb gb ft s ss r ss' tl t n lim,
  Inv o pre fb gb ft s ss -> rec_wf r = true -> record_time_ok ss r = true -> denote_record ss r = Some ss' ->
  (n + List.length (ser_record r) <= lim)%nat ->
  exists s',
    run_a (parse_record o) (ast_at (ser_record r) tl t n lim) s =
      ROk tt (ast_at [] tl t (n + List.length (ser_record r)) lim) s' /\
    Inv o pre fb gb ft s' ss'.
Proof. exact record_step. Qed.
Print Assumptions C12_record_step.
(* (whole streams and the entry point Decode: Props/C02.v, C02_decode_denote_records / C02_decode_denote) *)

(* what the reference semantics says about compressed-timestamp records, hence -- by the theorem above -- what the
   decoder does: the reference advances by the rollover rule ... *)
Theorem C12_compressed_ref_rule : forall s l off pay dev s' d r,
  lookup_def (ss_env s) l = Some d -> ss_ref s = Some r ->
  (forall f, In f (sd_fds d) -> sf_num f <> c_fieldNumTimeStamp) ->
  denote_data s l (Some off) pay dev = Some s' ->
  ss_ref s' = Some (roll r off).
Proof. exact compressed_ref_rule. Qed.
(* ... the message is stamped with that instant ... *)
Theorem C12_compressed_stamp : forall s l off pay dev s' d r p m0,
  lookup_def (ss_env s) l = Some d -> ss_ref s = Some r ->
  known_msg (sd_gmn d) = true -> get_field (sd_gmn d) c_fieldNumTimeStamp = Some p ->
  (forall f q, In f (sd_fds d) -> get_field (sd_gmn d) (sf_num f) = Some q -> pf_sindex q <> pf_sindex p) ->
  mesg_all_invalid (sd_gmn d) = Some m0 -> (pf_sindex p < List.length (m_fields m0))%nat ->
  denote_data s l (Some off) pay dev = Some s' ->
  exists m, ss_msgs s' = ss_msgs s ++ [m] /\
            nth_error (m_fields m) (pf_sindex p) = Some (time_of (roll r off)).
Proof. exact compressed_stamp. Qed.
Print Assumptions C12_compressed_stamp.
(* ... which is the next instant at or after the reference whose low five bits are the header's offset ... *)
Theorem C12_roll_rule : forall r off, off < 32 -> r + 32 < 2 ^ 32 ->
  roll r off mod 32 = off /\ r <= roll r off < r + 32.
Proof. exact roll_rule. Qed.
(* ... and before any timestamp was seen a compressed record is decoded like a plain one (unstamped) *)
Theorem C12_no_reference_unstamped : forall s l off pay dev,
  ss_ref s = None -> denote_data s l (Some off) pay dev = denote_data s l None pay dev.
Proof. exact no_reference_unstamped. Qed.

(* FULL STATEMENT (refuted): the stream theorem without the side condition [no_time_quirk].  Three witnesses, each
   a serialisable stream the reference semantics accepts on which the decoder model returns a different File:
   a local timestamp before any reference followed by a compressed record (known finding local_sets_reference;
   the model raises Q_LOCAL_SETS_REF), an explicit timestamp 0 followed by a compressed record (known finding
   ts_zero_no_reference; Q_TS_ZERO), and a compressed step wrapping the 32-bit reference to exactly 0 (the same
   defect without a literal 0 on the wire; the same tag) *)
Theorem C12_local_first_refuted :
  stream_wf w_local_first = true /\ starts_with_file_id w_local_first = true /\
  (exists a b, spec_slots w_local_first = Some a /\ model_slots w_local_first = Some b) /\
  agree w_local_first = false /\ no_time_quirk w_local_first = false /\
  In Q_LOCAL_SETS_REF (model_quirks w_local_first).
Proof. exact decode_denote_local_first_refuted. Qed.
Theorem C12_ts_zero_refuted :
  stream_wf w_ts_zero = true /\ starts_with_file_id w_ts_zero = true /\
  (exists a b, spec_slots w_ts_zero = Some a /\ model_slots w_ts_zero = Some b) /\
  agree w_ts_zero = false /\ no_time_quirk w_ts_zero = false /\
  In Q_TS_ZERO (model_quirks w_ts_zero).
Proof. exact decode_denote_ts_zero_refuted. Qed.
Theorem C12_wrap_zero_refuted :
  stream_wf w_wrap_zero = true /\ starts_with_file_id w_wrap_zero = true /\
  (exists a b, spec_slots w_wrap_zero = Some a /\ model_slots w_wrap_zero = Some b) /\
  agree w_wrap_zero = false /\ no_time_quirk w_wrap_zero = false /\ In Q_TS_ZERO (model_quirks w_wrap_zero).
Proof. exact decode_denote_wrap_zero_refuted. Qed.

(* the side condition is satisfiable by a stream with an explicit timestamp, a compressed record and a local
   timestamp read against the reference; on it model and reference semantics agree (recomputed) *)
Example C12_stream_example :
  starts_with_file_id ok_stream = true /\ stream_wf ok_stream = true /\ no_time_quirk ok_stream = true /\
  (exists ss f2 g1, denote ok_stream = Some ss /\ StreamDenoteLift.start_file w_hdr Model.Components.g_init (hd dummy_msg (ss_msgs ss)) = Some (f2, g1)) /\
  agree ok_stream = true.
Proof. exact ok_stream_in_domain. Qed.

(* PARTIAL: nothing of the time rules is left to the harness alone except the executions on the recorded defect
   paths, which are excluded by [no_time_quirk] and documented by the witnesses above. *)
Example C12_example : let r' := 0x30000000 + (5 + 32 - 0x30000000 mod 32) mod 32 in r' = 0x30000005.
Proof. reflexivity. Qed.
