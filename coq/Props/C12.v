(* C12 -- Timestamps follow the FIT time rules, including compressed headers. *)
From Coq Require Import NArith ZArith List Bool.
From FitV Require Import Model.Values Model.Base Model.Decode Gen.Consts Proofs.DecodeLemmas.
Import ListNotations.
Local Open Scope N_scope.

(* date_time: 1989-12-31T00:00:00Z plus the stored seconds (VTime is relative to that epoch);
   0xFFFFFFFF leaves the field at the invalid base time *)
Theorem C12_date_time_value : forall u, decode_date_time u = VTime (Z.of_N u) 0 None.
Proof. exact date_time_value. Qed.
Theorem C12_invalid_time_untouched : forall s kind num, parse_time_stamp s 0xFFFFFFFF kind num = (None, s).
Proof. exact invalid_time_untouched. Qed.

(* the compressed-timestamp rule, for all 2^32 references and all 32 offsets: the latest timestamp advanced by
   the 5-bit offset with 32-second rollover *)
Theorem C12_rollover_rule : forall r off, off < 32 ->
  let r' := r + (off + 32 - r mod 32) mod 32 in r' mod 32 = off /\ r <= r' < r + 32.
Proof. exact rollover_rule. Qed.
Print Assumptions C12_rollover_rule.

(* the decoder's arithmetic is that rule under its invariant lastTimeOffset = timestamp mod 32, which every
   explicit timestamp establishes (re-basing) and every compressed step preserves (accumulation over runs) *)
Theorem C12_model_step_is_rule : forall ts last off, last = ts mod 32 ->
  (ts + (off + 32 - last) mod 32) mod 2 ^ 32 = (ts + (off + 32 - ts mod 32) mod 32) mod 2 ^ 32.
Proof. exact model_step_is_rule. Qed.
Theorem C12_explicit_timestamp_invariant : forall u, N.land u c_compressedTimeMask = u mod 32.
Proof. exact explicit_timestamp_invariant. Qed.
Theorem C12_compressed_step_invariant : forall ts off, off < 32 -> ts + 32 < 2 ^ 32 ->
  ((ts + (off + 32 - ts mod 32) mod 32) mod 2 ^ 32) mod 32 = off.
Proof. exact compressed_step_invariant. Qed.

(* local_date_time with a usable reference: the reference UTC instant in a fixed zone of offset local - UTC *)
Theorem C12_local_time_with_reference : forall s u num, u <> 0xFFFFFFFF -> c_systemTimeMarker <= ds_ts s ->
  parse_time_stamp s u kind_timelocal num = (Some (VTime (Z.of_N (ds_ts s)) 0 (Some (Z.of_N u - Z.of_N (ds_ts s))%Z)), s).
Proof. exact local_time_with_reference. Qed.

(* FULL STATEMENT (refuted): without a reference the local value is kept with offset 0 AND the reference stays
   absent. The code makes the local value the reference (known finding local_sets_reference); the model tags
   every execution entering that branch: *)
Theorem C12_local_time_without_reference : forall s u num, u <> 0xFFFFFFFF -> ds_ts s < c_systemTimeMarker ->
  fst (parse_time_stamp s u kind_timelocal num) = Some (VTime (Z.of_N u) 0 (Some 0%Z)) /\
  ds_ts (snd (parse_time_stamp s u kind_timelocal num)) = u /\
  In Q_LOCAL_SETS_REF (ds_quirks (snd (parse_time_stamp s u kind_timelocal num))).
Proof. exact local_time_without_reference. Qed.

(* PARTIAL: compressed_time_spec (timestamps (Decode (serialize s)) = spec_times s by induction over streams)
   is covered by the harness with the extracted reference semantics Spec/FitSyntax.v as oracle; the per-step
   arithmetic and invariant lemmas above are its proved ingredients. *)
Example C12_example : let r' := 0x30000000 + (5 + 32 - 0x30000000 mod 32) mod 32 in r' = 0x30000005.
Proof. reflexivity. Qed.
