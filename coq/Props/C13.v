(* C13 -- Local message types: the latest definition wins and slots are independent. *)
From Coq Require Import NArith ZArith List Bool.
From FitV Require Import Model.Values Model.Reflect Model.IO Model.Decode Model.Profile Gen.Consts Proofs.DecodeLemmas.
Import ListNotations.
Local Open Scope N_scope.

(* record headers address local types 0-15; compressed-timestamp headers 0-3 with bits 5-6 *)
Theorem C13_normal_local_lt : forall b, N.land b c_localMesgNumMask < 16.
Proof. exact normal_local_lt. Qed.
Theorem C13_compressed_local_2bits : forall b, b < 256 ->
  N.shiftr (N.land b c_compressedLocalMesgNumMask) 5 = (b / 32) mod 4 /\ N.shiftr (N.land b c_compressedLocalMesgNumMask) 5 < 4.
Proof. exact compressed_local_2bits. Qed.

(* the most recent definition written for a local type is the one its slot holds *)
Theorem C13_latest_def_wins : forall (defs : list (option defmsg)) dm, (N.to_nat (dm_local dm) < List.length defs)%nat ->
  nth (N.to_nat (dm_local dm)) (set_nth (N.to_nat (dm_local dm)) (Some dm) defs) None = Some dm.
Proof. exact latest_def_wins. Qed.
Print Assumptions C13_latest_def_wins.

(* redefining one local type (with any message, field list or byte order) leaves every other slot as it was *)
Theorem C13_slots_independent : forall (defs : list (option defmsg)) dm l', l' <> dm_local dm ->
  nth (N.to_nat l') (set_nth (N.to_nat (dm_local dm)) (Some dm) defs) None = nth (N.to_nat l') defs None.
Proof. exact slots_independent. Qed.

(* a data record is interpreted with the definition in its own slot and with nothing else of the slot table:
   its program is [data_message_with], which takes the definition as a parameter and never reads ds_defs *)
Theorem C13_data_message_uses_own_slot : forall o b (compressed : bool) x s dm,
  nth (N.to_nat (if compressed then N.shiftr (N.land b c_compressedLocalMesgNumMask) 5 else N.land b c_localMesgNumMask))
      (ds_defs s) None = Some dm ->
  run_a (parse_data_message o b compressed) x s = run_a (data_message_with o b compressed dm s) x s.
Proof. exact data_message_uses_own_slot. Qed.

(* a data record whose local type has no definition is an error, in every state, on every input *)
Theorem C13_undefined_local_is_error : forall o b (compressed : bool) x s,
  nth (N.to_nat (if compressed then N.shiftr (N.land b c_compressedLocalMesgNumMask) 5 else N.land b c_localMesgNumMask))
      (ds_defs s) None = None ->
  run_a (parse_data_message o b compressed) x s = RFail EMissingDef x s.
Proof. exact undefined_local_is_error. Qed.
Print Assumptions C13_undefined_local_is_error.

(* PARTIAL: the lifting of C13_slots_independent to whole streams ("redefining l never changes how records of
   l' <> l decode") is the composition of the three theorems above along the record loop; that induction over
   streams is covered by the harness (reference semantics + metamorphic redefinition test), not yet by a theorem. *)
Example C13_example : nth 3 (set_nth 5 (Some (mk_defmsg 5 true 20 [] [])) (repeat None 16)) None = None
                      /\ nth 5 (set_nth 5 (Some (mk_defmsg 5 true 20 [] [])) (repeat None 16)) None = Some (mk_defmsg 5 true 20 [] []).
Proof. split; reflexivity. Qed.
