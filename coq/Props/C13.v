(* C13 -- Local message types: the latest definition wins and slots are independent. *)
From Coq Require Import NArith ZArith List Bool.
From FitV Require Import Model.Values Model.Reflect Model.IO Model.Decode Model.Profile Gen.Consts Proofs.DecodeLemmas
  Spec.FitSyntax Proofs.StreamDenoteDefs Proofs.StreamDenoteMain Proofs.StreamDenoteCor Proofs.StreamDenoteSlots.
Import ListNotations.
Local Open Scope N_scope.

(* record headers address local types 0-15; compressed-timestamp headers 0-3 with bits 5-6 *)
Theorem C13_normal_local_lt : forall b, N.land b c_localMesgNumMask < 16.
Proof. exact normal_local_lt. Qed.
Theorem C13_compressed_local_2bits : forall b, b < 256 ->
  N.shiftr (N.land b c_compressedLocalMesgNumMask) 5 = (b / 32) mod 4 /\ N.shiftr (N.land b c_compressedLocalMesgNumMask) 5 < 4.
Proof. exact compressed_local_2bits. Qed.

(* the most recent definition written for a local type is the one its slot holds *)
Theorem C13_latest_def_wins : forall (defs : list (option defmsg)) dm, (N.to_nat (dm_local dm) < List.length defs)%nat ->
  nth (N.to_nat (dm_local dm)) (set_nth (N.to_nat (dm_local dm)) (Some dm) defs) None = Some dm.
Proof. exact latest_def_wins. Qed.
Print Assumptions C13_latest_def_wins.

(* redefining one local type (with any message, field list or byte order) leaves every other slot as it was *)
Theorem C13_slots_independent : forall (defs : list (option defmsg)) dm l', l' <> dm_local dm ->
  nth (N.to_nat l') (set_nth (N.to_nat (dm_local dm)) (Some dm) defs) None = nth (N.to_nat l') defs None.
Proof. exact slots_independent. Qed.

(* a data record is interpreted with the definition in its own slot and with nothing else of the slot table:
   its program is [data_message_with], which takes the definition as a parameter and never reads ds_defs *)
Theorem C13_data_message_uses_own_slot : forall o b (compressed : bool) x s dm,
  nth (N.to_nat (if compressed then N.shiftr (N.land b c_compressedLocalMesgNumMask) 5 else N.land b c_localMesgNumMask))
      (ds_defs s) None = Some dm ->
  run_a (parse_data_message o b compressed) x s = run_a (data_message_with o b compressed dm s) x s.
Proof. exact data_message_uses_own_slot. Qed.

(* a data record whose local type has no definition is an error, in every state, on every input *)
Theorem C13_undefined_local_is_error : forall o b (compressed : bool) x s,
  nth (N.to_nat (if compressed then N.shiftr (N.land b c_compressedLocalMesgNumMask) 5 else N.land b c_localMesgNumMask))
      (ds_defs s) None = None ->
  run_a (parse_data_message o b compressed) x s = RFail EMissingDef x s.
Proof. exact undefined_local_is_error. Qed.
Print Assumptions C13_undefined_local_is_error.

(* ---------------------------------------------------------------------------------------------------------
   On whole streams.  By C02_decode_denote the File Decode returns is the routed message list of the reference
   semantics [denote]; the statements below are about [denote] (Spec/FitSyntax.v) and, for the headline, about
   the decoder model directly. *)

(* slots_independent: two runs whose environments differ only in slot l stay in step on every record that is not a
   data record of l -- definitions of any local type (l included) and data records of all the others *)
Theorem C13_slots_independent_stream : forall l rs a b a',
  same_off l a b -> forallb (fun r => negb (uses_local l r)) rs = true -> denote_from a rs = Some a' ->
  exists b', denote_from b rs = Some b' /\ same_off l a' b'.
Proof. exact slots_independent_stream. Qed.
Print Assumptions C13_slots_independent_stream.

(* redefining local type l (any message, field list, sizes, byte order) never changes how later records of the
   other local types decode: same messages, time reference and counts *)
Theorem C13_redefinition_invisible : forall l rs0 be1 g1 f1 v1 x1 be2 g2 f2 v2 x2 rs s s1,
  forallb (fun r => negb (uses_local l r)) rs = true ->
  denote_from s (rs0 ++ RDef l be1 g1 f1 v1 x1 :: rs) = Some s1 ->
  (forall sm, denote_from s rs0 = Some sm -> denote_record sm (RDef l be2 g2 f2 v2 x2) <> None) ->
  exists s2, denote_from s (rs0 ++ RDef l be2 g2 f2 v2 x2 :: rs) = Some s2 /\
    ss_msgs s1 = ss_msgs s2 /\ ss_ref s1 = ss_ref s2 /\ ss_unkm s1 = ss_unkm s2 /\ ss_unkf s1 = ss_unkf s2 /\
    env_agree_off l (ss_env s1) (ss_env s2).
Proof. exact redefinition_invisible. Qed.
(* ... the same for the decoder model: the decoded Files are equal *)
Theorem C13_redefinition_invisible_decoder : forall o h g l rs0 be1 g1' f1 v1 x1 be2 g2 f2' v2 x2 rs,
  forallb (fun r => negb (uses_local l r)) rs = true ->
  in_domain h g (rs0 ++ RDef l be1 g1' f1 v1 x1 :: rs) -> in_domain h g (rs0 ++ RDef l be2 g2 f2' v2 x2 :: rs) ->
  decoded_file o h g (rs0 ++ RDef l be1 g1' f1 v1 x1 :: rs) = decoded_file o h g (rs0 ++ RDef l be2 g2 f2' v2 x2 :: rs).
Proof. exact redefinition_invisible_decoder. Qed.
Print Assumptions C13_redefinition_invisible_decoder.

(* latest_def_wins: after a definition for l, and any records that do not redefine l, slot l holds that definition,
   and a data record of l is decoded exactly as if it were the only definition there is *)
Theorem C13_latest_def_wins_stream : forall s l be gmn fds devflag devs s' rs sb,
  denote_record s (RDef l be gmn fds devflag devs) = Some s' ->
  forallb (fun r => negb (defines_local l r)) rs = true ->
  denote_from s' rs = Some sb ->
  lookup_def (ss_env sb) l = Some (mk_sdef be gmn fds (devsize_of devflag devs)).
Proof. exact latest_def_wins_after. Qed.
Theorem C13_data_decoded_with_latest_def : forall s l be gmn fds devflag devs s' rs sb off pay dev,
  denote_record s (RDef l be gmn fds devflag devs) = Some s' ->
  forallb (fun r => negb (defines_local l r)) rs = true ->
  denote_from s' rs = Some sb ->
  match denote_data sb l off pay dev,
        denote_data (mk_sstate [(l, mk_sdef be gmn fds (devsize_of devflag devs))]
                       (ss_ref sb) (ss_msgs sb) (ss_unkm sb) (ss_unkf sb)) l off pay dev with
  | Some x, Some y =>
      ss_env x = ss_env sb /\ ss_ref x = ss_ref y /\ ss_msgs x = ss_msgs y /\ ss_unkm x = ss_unkm y /\ ss_unkf x = ss_unkf y
  | None, None => True
  | _, _ => False
  end.
Proof. exact data_decoded_with_latest_def. Qed.

(* a data record of a local type without definition is outside the reference semantics (and an error of the decoder
   in every state: C13_undefined_local_is_error above) *)
Theorem C13_undefined_local_rejected : forall s l pay dev,
  lookup_def (ss_env s) l = None -> denote_record s (RData l pay dev) = None.
Proof. exact undefined_local_rejected. Qed.

(* PARTIAL: nothing; the decoder-level statements hold inside the domain of C02_decode_denote (in_domain: the stream
   starts with file_id, is serialisable (stream_wf incl. canon_bt), is accepted by the reference semantics and has a
   hosted file type; there is no time side condition). *)
Example C13_example : nth 3 (set_nth 5 (Some (mk_defmsg 5 true 20 [] [])) (repeat None 16)) None = None
                      /\ nth 5 (set_nth 5 (Some (mk_defmsg 5 true 20 [] [])) (repeat None 16)) None = Some (mk_defmsg 5 true 20 [] []).
Proof. split; reflexivity. Qed.
