(* C07 -- anything Decode accepts re-encodes; one round trip is a fixpoint.
   Comparators: Spec/RoundTrip.v (content_eq7 compares norm_msg (trunc_msg _)). *)
From Coq Require Import NArith ZArith List Bool String.
From FitV Require Import Model.Values Model.Bytes Model.Encode Model.Decode Spec.RoundTrip Proofs.C07Fixpoint Proofs.EncExamples.
Import ListNotations.
Local Open Scope N_scope.

(* the normal forms the comparator uses are idempotent *)
Theorem C07_norm_msg_idem : forall m, norm_msg (norm_msg m) = norm_msg m.
Proof. exact norm_msg_idem. Qed.
Theorem C07_trunc_msg_idem : forall m, trunc_msg (trunc_msg m) = trunc_msg m.
Proof. exact trunc_msg_idem. Qed.
Print Assumptions C07_norm_msg_idem.

(* FULL STATEMENT (refuted): Encode succeeds on every File Decode returns.  The decoder hands out any
   bytes before the first NUL as a string; encodeString refuses what is not valid UTF-8 (known finding
   reencode_utf8) *)
Theorem C07_reencode_refuted :
  exists fd buf s size, parse_fit_field false fd buf TStr = FSet (VStr s) /\ 0 < size /\ encode_string s size = EErr EEString.
Proof. exact reencode_refuted. Qed.
Theorem C07_reencode_rune_split_refuted : exists s size, utf8_valid s = true /\ encode_string s size = EErr EEString.
Proof. exact reencode_rune_split_refuted. Qed.

Example C07_example : norm_msg ex_record <> mk_msg 0 [] /\ norm_msg (norm_msg ex_record) = norm_msg ex_record.
Proof. split; [vm_compute; discriminate|apply norm_msg_idem]. Qed.
