(* C07 -- anything Decode accepts re-encodes; one round trip is a fixpoint.
   Models: Model/Decode.v, Model/Encode.v.  Comparators: Spec/RoundTrip.v
   (content_eq7 compares norm_msg (trunc_msg _) slot by slot). *)
From Coq Require Import NArith ZArith List Bool String.
From FitV Require Import Model.Values Model.Bytes Model.Profile Model.Reflect Model.Components Model.Route Model.IO
  Model.Header Model.Encode Model.Decode Spec.RoundTrip Proofs.EncodeProofs
  Spec.RouteSpec Proofs.C07Fixpoint Proofs.C07Reencode Proofs.C07DecodeWf Proofs.C07Integrity Proofs.C07CsdLength Proofs.C07Generations Proofs.C06Route Proofs.StreamDenoteDecode Proofs.EncExamples.
Import ListNotations.
Local Open Scope N_scope.

(* ---- Encode neither panics nor fails on a well-typed File, except for strings that are not UTF-8 *)
(* for every wf_file (every Go state of a File whose container matches FileId.Type): Encode returns
   bytes or the UTF-8 error of encodeString; it never panics *)
Theorem C07_encode_total : forall f be, wf_file f = true ->
  (exists r, encode f be = EOk r) \/ encode f be = EErr EEString.
Proof. exact encode_total. Qed.
Print Assumptions C07_encode_total.
Theorem C07_encode_no_panic : forall f be w, wf_file f = true -> encode f be <> EPanic w.
Proof. exact encode_no_panic. Qed.

(* ---- what the decoder stores is well typed (decode_wf at field and message level) *)
Theorem C07_parse_fit_field_typed : forall be fd buf ty v,
  Forall (fun b => b < 256) buf -> float_fits (fd_btype fd) ty = true ->
  parse_fit_field be fd buf ty = FSet v -> val_has_type ty v = true.
Proof. exact parse_fit_field_typed. Qed.
Theorem C07_parse_fit_field_array_typed : forall be fd buf ty v,
  Forall (fun b => b < 256) buf -> float_fits (fd_btype fd) ty = true ->
  parse_fit_field_array be fd buf ty = FSet v -> val_has_type ty v = true.
Proof. exact parse_fit_field_array_typed. Qed.
(* every message parseDataMessage returns, on any input bytes and any decoder state, is a well-typed
   message of its type (wpre: weakest precondition over the decoder's read primitives) *)
Theorem C07_parse_data_message_wf : forall o b compressed,
  wpre (parse_data_message o b compressed)
       (fun om => match om with Some m => msg_wf (m_num m) m = true | None => True end).
Proof. exact parse_data_message_wf. Qed.
Print Assumptions C07_parse_data_message_wf.
(* File.add (routing and component expansion) keeps every slot well typed *)
Theorem C07_file_add_typed : forall f g m f' g',
  mwf m -> all_typed (f_slots f) -> file_add f g m = AddOk f' g' -> all_typed (f_slots f').
Proof. exact file_add_typed. Qed.

(* ---- decode_wf at File level: for ANY input bytes, options, accumulator state and reader, a File Decode returns
   without error has the container init created for a valid file type, every slot holds well-typed messages of
   its own type, pointer slots at most one, FileId exactly one ... *)
Theorem C07_decode_slots_wf : forall o g rd fuel h file' rd' g' q,
  Forall (fun b => b < 256) (rd_data rd) ->
  entry_Decode o g rd fuel = TDone (mk_dres None h (Some file') rd' g' q) ->
  exists ft, f_inited file' = Some ft /\ In ft valid_file_types /\
             slots_wf 0 (slots_of ft) (f_slots file') = true.
Proof. exact decode_slots_wf. Qed.
(* ... hence it is wf_file exactly when FileId.Type still names that container (no second file_id record of
   another type: the known finding second_file_id is the ONLY way a decoded File is not wf_file) *)
Theorem C07_decode_wf_iff : forall o g rd fuel h file' rd' g' q,
  Forall (fun b => b < 256) (rd_data rd) ->
  entry_Decode o g rd fuel = TDone (mk_dres None h (Some file') rd' g' q) ->
  exists ft, f_inited file' = Some ft /\ wf_file file' = (ft =? file_type file').
Proof. exact decode_wf_iff. Qed.
Theorem C07_decode_wf : forall o g rd fuel h file' rd' g' q,
  Forall (fun b => b < 256) (rd_data rd) ->
  entry_Decode o g rd fuel = TDone (mk_dres None h (Some file') rd' g' q) ->
  forall ft, f_inited file' = Some ft -> file_type file' = ft -> wf_file file' = true.
Proof. exact decode_wf. Qed.
Print Assumptions C07_decode_wf.
(* the re-encode clause: anything Decode accepts re-encodes (or hits the UTF-8 defect); Encode never panics on it *)
Theorem C07_decode_reencode : forall o g rd fuel h file' rd' g' q be,
  Forall (fun b => b < 256) (rd_data rd) ->
  entry_Decode o g rd fuel = TDone (mk_dres None h (Some file') rd' g' q) ->
  f_inited file' = Some (file_type file') ->
  (exists r, encode file' be = EOk r) \/ encode file' be = EErr EEString.
Proof. exact decode_reencode. Qed.
Print Assumptions C07_decode_reencode.
(* ... and its output passes CheckIntegrity: the whole re-encode clause in one statement.  For any input Decode
   accepts (whose FileId.Type still names the container): Encode fails with the UTF-8 error, or writes bytes that
   CheckIntegrity accepts through any reader (bytes shorter than 2^32: the data-size field is 32 bits) *)
Theorem C07_reencode_total_integrity : forall o g rd fuel h file' rd' g' q be,
  Forall (fun b => b < 256) (rd_data rd) ->
  entry_Decode o g rd fuel = TDone (mk_dres None h (Some file') rd' g' q) ->
  f_inited file' = Some (file_type file') ->
  encode file' be = EErr EEString \/
  exists bs f'', encode file' be = EOk (bs, f'') /\
    (N.of_nat (List.length bs) < 4294967296 -> forall g2 rd2 fuel2 extra,
       rd_data rd2 = bs ++ extra -> (List.length (rd_data rd2) + List.length (rd_sched rd2) < fuel2)%nat ->
       exists r, entry_CheckIntegrity false g2 rd2 fuel2 = TDone r /\ dr_err r = None).
Proof. exact reencode_total_integrity. Qed.
Print Assumptions C07_reencode_total_integrity.
(* the header Decode leaves in the File is one Encode accepts *)
Theorem C07_decode_file_header : forall o g rd fuel h file' rd' g' q,
  Forall (fun b => b < 256) (rd_data rd) ->
  entry_Decode o g rd fuel = TDone (mk_dres None h (Some file') rd' g' q) ->
  f_header file' = h /\ Proofs.EncodeProofs.wf_header h = true /\ Model.Header.proto_ok (Model.Header.h_proto h) = true /\ Model.Header.h_profile h < 65536.
Proof. exact decode_file_header. Qed.
Theorem C07_decode_chained_wf : forall o g rd fuel files rd' g' q,
  Forall (fun b => b < 256) (rd_data rd) ->
  entry_DecodeChained o g rd fuel = TDone (mk_cres None files rd' g' q) ->
  Forall (fun f => exists ft, f_inited f = Some ft /\ wf_file f = (ft =? file_type f)) files.
Proof. exact decode_chained_wf. Qed.
(* the hypotheses are satisfiable (a concrete stream read in chunks), and the side condition is necessary:
   a file_id definition, an activity file_id, then a settings file_id decodes to a File that is not wf_file *)
Example C07_decode_wf_example :
  Forall (fun b => b < 256) (rd_data ok_reader) /\
  match entry_Decode no_opts g_init ok_reader 200 with
  | TDone r =>
      match dr_err r, dr_file r with
      | None, Some f => opt_n_eqb (f_inited f) (Some (file_type f)) && wf_file f
      | _, _ => false
      end
  | _ => false
  end = true.
Proof. exact decode_wf_example. Qed.
Theorem C07_decode_wf_needs_single_file_id :
  Forall (fun b => b < 256) (rd_data sfid_reader) /\
  match entry_Decode no_opts g_init sfid_reader 100 with
  | TDone r =>
      match dr_err r, dr_file r with
      | None, Some f => opt_n_eqb (f_inited f) (Some 4) && (file_type f =? 2) && negb (wf_file f)
      | _, _ => false
      end
  | _ => false
  end = true.
Proof. exact decode_wf_needs_single_file_id. Qed.

(* ---- every decoded message of a type a container can host re-encodes (or hits the string defect) *)
Theorem C07_reencode_message : forall o b compressed be,
  wpre (parse_data_message o b compressed)
       (fun om => match om with
                  | Some m => mesg_enc_ok (m_num m) = true ->
                      (exists bs, encode_def_and_data be m = EOk bs) \/ encode_def_and_data be m = EErr EEString
                  | None => True
                  end).
Proof. exact reencode_message. Qed.
(* the message types for which that fails are exactly those with []string fields; no container hosts them *)
Theorem C07_profile_mesg_enc_ok :
  map md_num (filter (fun m => md_known m && negb (mesg_enc_ok (md_num m))) Gen.ProfileData.messages) = [201; 206; 264].
Proof. exact profile_mesg_enc_ok. Qed.

(* ---- numeric values survive decode -> encode -> decode, in any pair of byte orders *)
Theorem C07_decode_reencode_scalar : forall be be' fd buf ty v,
  Forall (fun b => b < 256) buf ->
  parse_fit_field be fd buf ty = FSet v -> codec_ok (fd_btype fd) ty = true ->
  exists bs, bw be' ty v = EOk bs /\ parse_fit_field be' fd bs ty = FSet v.
Proof. exact decode_reencode_scalar_ok. Qed.

(* ---- the fixpoint clause: the comparator compares idempotent normal forms and is an equivalence *)
Theorem C07_norm_msg_idem : forall m, norm_msg (norm_msg m) = norm_msg m.
Proof. exact norm_msg_idem. Qed.
Theorem C07_trunc_msg_idem : forall m, trunc_msg (trunc_msg m) = trunc_msg m.
Proof. exact trunc_msg_idem. Qed.
Theorem C07_cmp7_iff : forall i m m', cmp7 i m m' = true <-> norm_msg (trunc_msg m) = norm_msg (trunc_msg m').
Proof. exact cmp7_iff. Qed.
Theorem C07_content_eq7_refl : forall f, content_eq7 f f = true.
Proof. exact content_eq7_refl. Qed.
Theorem C07_content_eq7_sym : forall f1 f2, content_eq7 f1 f2 = content_eq7 f2 f1.
Proof. exact content_eq7_sym. Qed.
Theorem C07_content_eq7_trans : forall f1 f2 f3, content_eq7 f1 f2 = true -> content_eq7 f2 f3 = true -> content_eq7 f1 f3 = true.
Proof. exact content_eq7_trans. Qed.
Print Assumptions C07_content_eq7_trans.

(* ---- the value-equality clause ("... decodes successfully with the same per-type message counts and equal numeric,
   time and coordinate field values ...; encoding that second result again yields the same decoded content").
   FULL STATEMENT (refuted) for records that carry a compressed_speed_distance array; the clause is claimed only for
   decoded Files none of whose records has a compressed_speed_distance source (array nil, empty, or 0xFF in its first
   three bytes: csd_free of Spec/RoundTrip.v), for two recorded reasons:
   (1) csd_array_length: RecordMsg.expandComponents expands the array only when it has exactly 3 bytes.  The validator
       accepts a definition that gives field 8 any size; Decode then leaves Speed/Distance alone; Encode pads or cuts the
       array to the profile's 3 bytes; the next Decode DOES expand.  Witnesses below: a 2-byte and a 5-byte array.
   (2) csd_accumulator: with exactly 3 bytes Speed and Distance are derived in both generations, but Distance continues
       the process-wide accumulator and EnhancedSpeed follows the derived Speed one generation late (third witness:
       even from fresh accumulators generation 1 has EnhancedSpeed invalid and generation 2 has 528).
   csd_obs pay = (array, Speed, Distance) of the record in generation 1, the same in generation 2 (Decode of Encode
   of generation 1, little endian, fresh accumulators) and the verdict of content_eq7. *)
Theorem C07_reencode_csd_array_length_refuted :
  csd_obs [0x10; 0x32] =
  Some (VList [VU 16; VU 50], VU 65535, VU 4294967295, (VList [VU 16; VU 50; VU 255], VU 528, VU 243), false).
Proof. exact reencode_csd_array_length_refuted. Qed.
Print Assumptions C07_reencode_csd_array_length_refuted.
Theorem C07_reencode_csd_array_length5_refuted :
  csd_obs [0x10; 0x32; 0x54; 0x76; 0x98] =
  Some (VList [VU 16; VU 50; VU 84; VU 118; VU 152], VU 65535, VU 4294967295, (VList [VU 16; VU 50; VU 84], VU 528, VU 67), false).
Proof. exact reencode_csd_array_length5_refuted. Qed.
Theorem C07_reencode_csd_three_bytes :
  csd_obs [0x10; 0x32; 0x54] =
  Some (VList [VU 16; VU 50; VU 84], VU 528, VU 67, (VList [VU 16; VU 50; VU 84], VU 528, VU 67), false) /\
  match gens [0x10; 0x32; 0x54] with
  | Some (f1, f2) => match first_record f1, first_record f2 with
                     | Some m1, Some m2 => (fld m1 "EnhancedSpeed", fld m2 "EnhancedSpeed") = (VU 4294967295, VU 528)
                     | _, _ => False
                     end
  | None => False
  end.
Proof. exact reencode_csd_three_bytes. Qed.

(* ---- the positive counterpart: value equality between generation 1 and generation 2.  For every File f1 that Decode
   returned (FileId.Type still naming the container) whose truncation to the profile's fixed lengths (trunc_file:
   arrays cut to the profile length, strings to length - 1, exactly what Encode keeps) is in the C06 domain -- in
   particular no compressed_speed_distance source -- and, for the six string fields of profile length 1, holds no
   non-empty string (Encode writes a lone terminator for them), arrays below 256 elements: if Encode f1 succeeds,
   Decode of its output succeeds and returns f2 with content_eq6 (trunc_file f1) f2: same file type, per slot the
   same number of messages in the same order, field-for-field equal up to the profile's fixed lengths, trailing
   invalid padding, wall clock of local times and the component rule.  Proof: Encode f1 and Encode (trunc_file f1)
   write the same bytes (encode_trunc), then C06_roundtrip. *)
Theorem C07_encode_trunc : forall f be bs f',
  wf_file f = true -> len1_strings_empty f = true -> arrays_short f = true ->
  encode f be = EOk (bs, f') -> exists f'', encode (trunc_file f) be = EOk (bs, f'').
Proof. exact encode_trunc. Qed.
Theorem C07_generations_eq_decoded : forall o0 g0 rd0 fuel0 h0 f1 rd0' g0' q0 be bs f1' o g rd fuel extra,
  Forall (fun b => b < 256) (rd_data rd0) ->
  entry_Decode o0 g0 rd0 fuel0 = TDone (mk_dres None h0 (Some f1) rd0' g0' q0) ->
  f_inited f1 = Some (file_type f1) ->
  len1_strings_empty f1 = true -> arrays_short f1 = true ->
  in_domain (trunc_file f1) = true -> ginv g ->
  encode f1 be = EOk (bs, f1') -> N.of_nat (List.length bs) < 4294967296 ->
  rd_data rd = bs ++ extra -> (List.length (rd_data rd) + List.length (rd_sched rd) < fuel)%nat ->
  exists rd' f2 g' q h,
    entry_Decode o g rd fuel = TDone (mk_dres None h (Some f2) rd' g' q) /\
    content_eq6 (trunc_file f1) f2 = true /\ ginv g' /\
    rd_data rd' = extra /\ rd_pos rd' = (rd_pos rd + List.length bs)%nat.
Proof. exact generations_eq_decoded. Qed.
Print Assumptions C07_generations_eq_decoded.
(* satisfiable, with a File that is not itself in the C06 domain (a 25-byte ProductName, profile length 20, and a
   6-element Speed1s, profile length 5); on it both byte orders give content_eq6 (trunc_file f) f2 and content_eq7 f f2;
   the two side conditions are necessary (bytes of Encode f and Encode (trunc_file f) differ otherwise) *)
Example C07_generations_example :
  wf_file gen_file && wf_header (f_header gen_file) && proto_ok (h_proto (f_header gen_file)) &&
  (h_profile (f_header gen_file) <? 65536) && len1_strings_empty gen_file && arrays_short gen_file &&
  in_domain (trunc_file gen_file) && negb (in_domain gen_file) &&
  enc_small gen_file true && enc_small gen_file false &&
  same_bytes gen_file (trunc_file gen_file) true && same_bytes gen_file (trunc_file gen_file) false = true.
Proof. exact generations_example. Qed.
Example C07_len1_string_differs :
  wf_file len1_file && arrays_short len1_file && negb (len1_strings_empty len1_file) &&
  enc_small len1_file false && enc_small (trunc_file len1_file) false &&
  negb (same_bytes len1_file (trunc_file len1_file) false) = true.
Proof. exact len1_string_differs. Qed.
(* not proved in general: that every decoded File satisfies len1_strings_empty / arrays_short (true on the explored
   ones), and the step from content_eq6 (trunc_file f1) f2 to content_eq7 f1 f2 (needs: expansion is idempotent on
   already expanded messages, generation 2 holds arrays of exactly the profile length); the harness decides
   content_eq7 between generations per accepted input *)

(* FULL STATEMENT (refuted): Encode succeeds on every File Decode returns.  The decoder hands out any
   bytes before the first NUL as a string; encodeString refuses what is not valid UTF-8 (known finding
   reencode_utf8) *)
Theorem C07_reencode_refuted :
  exists fd buf s size, parse_fit_field false fd buf TStr = FSet (VStr s) /\ 0 < size /\ encode_string s size = EErr EEString.
Proof. exact reencode_refuted. Qed.
Theorem C07_reencode_rune_split_refuted : exists s size, utf8_valid s = true /\ encode_string s size = EErr EEString.
Proof. exact reencode_rune_split_refuted. Qed.
(* a decoded []string field cannot be written at all ("can't encode array of strings"); the three message
   types concerned are hosted by no container (206 only by the hidden developer-data slot Encode skips) *)
Theorem C07_reencode_string_array_refuted :
  exists fd buf v pf m0,
    get_field 264 2 = Some pf /\ field_type 264 (pf_sindex pf) = Some (TSlice TStr) /\
    parse_fit_field_array false fd buf (TSlice TStr) = FSet v /\ val_has_type (TSlice TStr) v = true /\
    (forall be, write_field be pf (TSlice TStr) v = EErr EEStringArray) /\
    mesg_all_invalid 264 = Some m0 /\ msg_wf 264 (msg_set m0 (pf_sindex pf) v) = true /\
    encode_def_and_data false (msg_set m0 (pf_sindex pf) v) = EErr EEStringArray.
Proof. exact reencode_string_array_refuted. Qed.

Example C07_example : wf_file ex_file = true /\ norm_msg ex_record <> mk_msg 0 [] /\ norm_msg (norm_msg ex_record) = norm_msg ex_record.
Proof. split; [vm_compute; reflexivity|]. split; [vm_compute; discriminate|apply norm_msg_idem]. Qed.
