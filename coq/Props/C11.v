(* C11 -- Truncation and read faults never yield silent success. *)
From Coq Require Import NArith List Bool Arith.
From FitV Require Import Model.Crc Model.IO Proofs.IOSim.
Import ListNotations.

(* whenever a decoder program needs a byte the input no longer has, the buffered phase ends with an I/O error
   (never with success, never by running out of fuel), for every program, chunk schedule and cut/fault offset;
   the error is "beyond data size" when the header's data size is exhausted first, "unexpected EOF" on a
   truncated input and the reader's own error on a fault; the reader position is exactly the end of the data *)
Theorem C11_io_error_is_reported : forall S E A (p : prog S E A) rd limit crc fuel s,
  length (rd_data rd) + length (rd_sched rd) < fuel ->
  forall e x s', run_a p (start_a rd limit) s = RIOErr e x s' ->
  exists c', run_c p (start_c rd limit crc fuel) s = RIOErr e c' s' /\
             e = err_of limit (rd_data rd) (rd_term rd) /\
             rd_pos (c_rd c') = rd_pos rd + Nat.min limit (length (rd_data rd)).
Proof.
  intros S E A p rd limit crc fuel s Hf e x s' Ha.
  pose proof (run_sim (rd_data rd) (rd_pos rd) crc p _ _ s (Rel_start rd limit crc fuel Hf)) as H.
  pose proof (never_past_frame p rd limit crc fuel s Hf) as Hn.
  unfold sim in H. rewrite Ha in H.
  destruct (run_c p (start_c rd limit crc fuel) s) as [? ? ?|? ? ?|e' c' s''|?|]; try contradiction.
  destruct H as (-> & -> & _). destruct Hn as [Hp He]. exists c'. repeat split; assumption.
Qed.
Print Assumptions C11_io_error_is_reported.

(* the state reached before the failure -- the File with the messages of the records completed so far -- is
   what the abstract run reached: partial results do not depend on chunking either *)
Theorem C11_partial_state_independent : forall S E A (p : prog S E A) rd limit crc fuel s,
  length (rd_data rd) + length (rd_sched rd) < fuel ->
  observe (run_c p (start_c rd limit crc fuel) s) = observe (run_a p (start_a rd limit) s).
Proof. exact @buffered_run_abstract. Qed.

(* a truncated input can only produce EOF-class errors, a faulting reader its fault *)
Theorem C11_error_kind : forall limit data t,
  err_of limit data t = IOBeyond \/ err_of limit data t = noEOF t.
Proof. intros. unfold err_of. destruct (Nat.leb limit (length data)); auto. Qed.

(* PARTIAL: cut_is_error / fault_is_error for whole entry points (including the header and CRC stages, the
   decoder never accepting a proper prefix, and DecodeChained's end-of-chain rule) are covered exhaustively per
   stream by the harness (every cut offset and every fault offset of every generated stream, all entry points). *)
