(* C11 -- Truncation and read faults never yield silent success.
   Full statement (properties.jsonl): for every valid single or chained stream cut at any byte, or whose reader
   fails at any offset, every entry point returns a non-nil error; the only exception is a clean end of input
   exactly on a file boundary of a chained stream, which ends the chain.  Files returned alongside the error
   contain exactly the messages that were complete before the cut or fault.

   A cut at k and a fault at k are the same reader oracle up to its terminal condition: it holds the first k bytes
   and then answers TEOF (truncation) or TFault (a non-EOF error on every further Read), under any chunk schedule,
   with or without the last chunk arriving together with that condition. *)
From Coq Require Import NArith List Bool Arith.
From FitV Require Import Model.Values Model.Crc Model.IO Model.Header Model.Route Model.Components Model.Decode
  Spec.FitSyntax Spec.RouteSpec Gen.Consts
  Proofs.IOSim Proofs.C10IO Proofs.C10Frame Proofs.C11Cut Proofs.C10Examples
  Proofs.StreamDenoteDefs Proofs.StreamDenoteLift Proofs.StreamDenoteMain Proofs.StreamDenoteFrame Proofs.StreamDenoteDecode
  Proofs.StreamDenoteWitness Proofs.C11Partial Proofs.C11PartialExamples.
Import ListNotations.

(* ---- the buffered phase, for EVERY decoder program ---- *)

(* whenever a decoder program needs a byte the input no longer has, the buffered phase ends with an I/O error
   (never with success, never by running out of fuel), for every program, chunk schedule and cut/fault offset;
   the error is "beyond data size" when the header's data size is exhausted first, "unexpected EOF" on a
   truncated input and the reader's own error on a fault; the reader position is exactly the end of the data *)
Theorem C11_io_error_is_reported : forall S E A (p : prog S E A) rd limit crc fuel s,
  length (rd_data rd) + length (rd_sched rd) < fuel ->
  forall e x s', run_a p (start_a rd limit) s = RIOErr e x s' ->
  exists c', run_c p (start_c rd limit crc fuel) s = RIOErr e c' s' /\
             e = err_of limit (rd_data rd) (rd_term rd) /\
             rd_pos (c_rd c') = rd_pos rd + Nat.min limit (length (rd_data rd)).
Proof. exact @io_error_is_reported. Qed.
Print Assumptions C11_io_error_is_reported.

(* the state reached before the failure -- the File with the messages of the records completed so far -- is
   what the abstract run reached: partial results do not depend on chunking either *)
Theorem C11_partial_state_independent : forall S E A (p : prog S E A) rd limit crc fuel s,
  length (rd_data rd) + length (rd_sched rd) < fuel ->
  observe (run_c p (start_c rd limit crc fuel) s) = observe (run_a p (start_a rd limit) s).
Proof. exact @buffered_run_abstract. Qed.

(* a truncated input can only produce EOF-class errors, a faulting reader its fault *)
Theorem C11_error_kind : forall limit data t,
  err_of limit data t = IOBeyond \/ err_of limit data t = noEOF t.
Proof. exact error_kind. Qed.

(* a run on a cut input either ends in an I/O error or ends exactly as the run on the whole input: it never
   succeeds differently, never fails differently, never panics where the whole run does not *)
Theorem C11_run_cut : forall S E A (p : prog S E A) rest t n lim s k t',
  match run_a p (mk_ast (firstn k rest) t' n lim) s with
  | RIOErr _ _ _ => True
  | ROk a x' s' => exists x, run_a p (mk_ast rest t n lim) s = ROk a x s' /\ a_n x = a_n x'
  | RFail e x' s' => exists x, run_a p (mk_ast rest t n lim) s = RFail e x s' /\ a_n x = a_n x'
  | RPanic w => run_a p (mk_ast rest t n lim) s = RPanic w
  | ROutOfFuel => False
  end.
Proof. exact @run_a_cut. Qed.

(* ---- the whole entry points ---- *)

(* cut_is_error and fault_is_error for Decode, CheckIntegrity and DecodeHeader (every mode but file_id-only): if the
   call succeeds on bs read alone and consumes all of bs (bs is exactly what the call needs: the frame, or the header
   for DecodeHeader), then for EVERY k < |bs| and EVERY reader holding the first k bytes of bs -- any chunk schedule,
   terminal condition clean EOF (cut) or fault, with or without data-with-error -- the call returns (it does not
   panic, it does not run out of fuel) and returns an error; the error is the end-of-chain class (errReadSize on
   EOF) only for the empty input with a clean EOF *)
Theorem C11_cut_is_error : forall o md g bs r, md <> MFileIdOnly ->
  decode o md g (solo bs) (solo_fuel bs) = TDone r -> dr_err r = None -> rd_data (dr_rd r) = [] ->
  forall k rd fuel, k < length bs -> rd_data rd = firstn k bs -> wf rd fuel ->
  exists r' e, decode o md g rd fuel = TDone r' /\ dr_err r' = Some e /\ (e = EReadSizeEOF -> k = 0 /\ rd_term rd = TEOF).
Proof. exact decode_cut_is_error. Qed.
Print Assumptions C11_cut_is_error.

(* conversely, a cut or fault at or beyond the last byte the call needs is never observed (it cannot matter) *)
Theorem C11_beyond_need_unobserved : forall o md g bs r, md <> MFileIdOnly ->
  decode o md g (solo bs) (solo_fuel bs) = TDone r -> dr_err r = None -> rd_data (dr_rd r) = [] ->
  forall tl rd fuel, rd_data rd = bs ++ tl -> wf rd fuel ->
  exists r', decode o md g rd fuel = TDone r' /\ dr_err r' = None /\ dr_hdr r' = dr_hdr r /\ dr_file r' = dr_file r /\
             dr_g r' = dr_g r /\ dr_quirks r' = dr_quirks r /\
             rd_pos (dr_rd r') = rd_pos rd + length bs /\ rd_data (dr_rd r') = tl.
Proof. exact decode_frame_local. Qed.

(* DecodeChained: after a chain prefix pre that decodes (chain_ok, see Props/C10.v), a cut or fault inside the next
   file bs -- the reader holds concat pre ++ the first k bytes of bs -- yields an error, and the Files returned are
   the Files of pre followed by at most one (partial) File.  The side condition lists the cases: empty input, cut
   strictly inside a file, read fault exactly on a file boundary. *)
Theorem C11_chained_cut_is_error : forall o g pre fs1 g1 q1 bs r, chain_ok o g pre fs1 g1 q1 ->
  decode o MFull g1 (solo bs) (solo_fuel bs) = TDone r -> dr_err r = None -> rd_data (dr_rd r) = [] ->
  forall k rd fuel, k < length bs -> rd_data rd = concat pre ++ firstn k bs -> wf rd fuel ->
  pre = [] \/ 0 < k \/ rd_term rd = TFault ->
  exists cr e, entry_DecodeChained o g rd fuel = TDone cr /\ cr_err cr = Some e /\
               firstn (length fs1) (cr_files cr) = fs1 /\ length (cr_files cr) <= S (length fs1).
Proof. exact chained_cut_is_error. Qed.
Print Assumptions C11_chained_cut_is_error.

(* a read fault after the last file (where the size byte of a further file would be read) is an error too *)
Theorem C11_chained_fault_at_end : forall o g pre fs1 g1 q1, chain_ok o g pre fs1 g1 q1 ->
  forall rd fuel, rd_data rd = concat pre -> rd_term rd = TFault -> wf rd fuel ->
  exists cr e, entry_DecodeChained o g rd fuel = TDone cr /\ cr_err cr = Some e /\ cr_files cr = fs1.
Proof. exact chained_fault_at_end. Qed.

(* boundary_eof_ends_chain -- the one exception: a clean end of input exactly on a file boundary after at least one
   file ends the chain without error, with exactly the Files before the boundary (C10_chained_concat for the prefix) *)
Theorem C11_boundary_eof_ends_chain : forall o g pre fs g' q, chain_ok o g pre fs g' q -> pre <> [] ->
  forall rd fuel, rd_data rd = concat pre -> rd_term rd = TEOF -> wf rd fuel ->
  exists cr, entry_DecodeChained o g rd fuel = TDone cr /\ cr_err cr = None /\ cr_files cr = fs /\ cr_g cr = g' /\
             cr_quirks cr = q /\ rd_pos (cr_rd cr) = rd_pos rd + length (concat pre).
Proof. exact chained_concat. Qed.

(* the hypotheses are satisfiable and the conclusion is visible on a concrete file: the 25-byte file of
   Proofs/C10Examples.v decodes alone, and each of its 25 proper prefixes is an error for Decode, under a schedule
   with an empty read and clean EOF, and under a fault delivered together with the last chunk *)
Example C11_example_file : exists r, decode no_opts MFull g_init (solo ex_file) (solo_fuel ex_file) = TDone r /\
  dr_err r = None /\ rd_data (dr_rd r) = [] /\ rd_pos (dr_rd r) = 25 /\ dr_g r = g_init.
Proof. exact ex_file_decodes. Qed.
Example C11_example_cuts :
  forallb (fun k => match decode no_opts MFull g_init (mk_reader (firstn k ex_file) [3; 0; 7] TEOF false 0) 60 with
                    | TDone r => match dr_err r with Some _ => true | None => false end
                    | _ => false
                    end) (seq 0 25) = true /\
  forallb (fun k => match decode no_opts MFull g_init (mk_reader (firstn k ex_file) [] TFault true 0) 60 with
                    | TDone r => match dr_err r with Some _ => true | None => false end
                    | _ => false
                    end) (seq 0 25) = true.
Proof. exact ex_cuts_are_errors. Qed.

(* ---- partial_files ---- *)
(* Domain: that of Decode_denote (a well-formed header announcing exactly the bytes of the serialisable record list rs,
   which begins with the file_id definition and data record, is accepted by the reference semantics and has a file
   type with a container).  [completed n rs] = the records that lie completely within the first n data bytes;
   [route_msgs h g msgs] = the File made by File.add of the first message, File.init, File.add of the others.
   For EVERY offset n of the data section and EVERY reader holding the header and the first n data bytes -- any
   chunking, ending in a clean EOF (cut) or a non-EOF error (fault), with or without data-with-error -- Decode returns
   an I/O error together with a File carrying the header and
     - no message and no container while fewer than the two file_id records are complete (boundary case: the cut
       falls inside the file_id definition or the file_id data record);
     - otherwise exactly the routed messages of the records complete before the offset, slot for slot, and the
       accumulator state those messages leave. *)
Theorem C11_partial_files : forall o g rd fuel h rs ss f2 g1 n,
  header_wf h -> h_dsize h = N.of_nat (List.length (ser_records rs)) ->
  starts_with_file_id rs = true -> stream_wf rs = true -> denote rs = Some ss ->
  start_file h g (hd dummy_msg (ss_msgs ss)) = Some (f2, g1) ->
  n < List.length (ser_records rs) ->
  rd_data rd = hdr_bytes h ++ firstn n (ser_records rs) -> wf rd fuel ->
  exists res e file',
    entry_Decode o g rd fuel = TDone res /\ dr_err res = Some (EIO e) /\ dr_hdr res = h /\ dr_file res = Some file' /\
    f_header file' = h /\
    (List.length (completed n rs) < 2 -> f_slots file' = f_slots (new_file h) /\ f_inited file' = None /\ dr_g res = g) /\
    (2 <= List.length (completed n rs) ->
     exists ssd f g', denote (completed n rs) = Some ssd /\ route_msgs h g (ss_msgs ssd) = Some (f, g') /\
                      f_slots file' = f_slots f /\ f_inited file' = f_inited f /\ dr_g res = g').
Proof. exact Decode_partial_files_at. Qed.
Print Assumptions C11_partial_files.

(* the same in the form the stream theory uses (the completed records rs and the record r in flight given
   explicitly; the records after r need not even be well formed) *)
Theorem C11_partial_file_records :
  forall o g rd fuel h l be fds (devflag : bool) (devs : list (N * N * N)) pay dev rest r cut rem ss1 ss2 f2 g1,
  let rs := RDef l be c_MesgNumFileId fds devflag devs :: RData l pay dev :: rest in
  header_wf h ->
  rd_data rd = hdr_bytes h ++ ser_records rs ++ cut ->
  List.length (ser_records rs ++ cut) < N.to_nat (h_dsize h) ->
  stream_wf rs = true -> denote rs = Some ss1 ->
  start_file h g (hd dummy_msg (ss_msgs ss1)) = Some (f2, g1) ->
  rec_wf r = true -> denote_record ss1 r = Some ss2 ->
  ser_record r = cut ++ rem -> rem <> [] ->
  wf rd fuel ->
  exists res e file' f g',
    entry_Decode o g rd fuel = TDone res /\ dr_err res = Some (EIO e) /\ dr_hdr res = h /\ dr_file res = Some file' /\
    dr_g res = g' /\
    route_msgs h g (ss_msgs ss1) = Some (f, g') /\
    f_slots file' = f_slots f /\ f_inited file' = f_inited f /\ f_header file' = h.
Proof. exact Decode_partial_file. Qed.

(* boundary case: the input ends inside the two checksum bytes: every record was decoded, the File holds the routed
   messages of the whole stream, the error is the checksum read error *)
Theorem C11_partial_files_cut_in_crc : forall o g rd fuel h rs ss1 f2 g1 c,
  header_wf h -> h_dsize h = N.of_nat (List.length (ser_records rs)) ->
  starts_with_file_id rs = true -> stream_wf rs = true -> denote rs = Some ss1 ->
  start_file h g (hd dummy_msg (ss_msgs ss1)) = Some (f2, g1) ->
  rd_data rd = hdr_bytes h ++ ser_records rs ++ c -> List.length c < 2 ->
  wf rd fuel ->
  exists res file' f g',
    entry_Decode o g rd fuel = TDone res /\ dr_err res = Some EFileCRCRead /\ dr_hdr res = h /\ dr_file res = Some file' /\
    dr_g res = g' /\
    route_msgs h g (ss_msgs ss1) = Some (f, g') /\
    f_slots file' = f_slots f /\ f_inited file' = f_inited f /\ f_header file' = h.
Proof. exact Decode_cut_in_crc. Qed.

(* boundary case: the input ends inside the header: an error and no File at all (every mode) *)
Theorem C11_partial_files_cut_in_header : forall o md g rd fuel h body k,
  header_wf h -> k < N.to_nat (h_size h) -> rd_data rd = firstn k (hdr_bytes h ++ body) -> wf rd fuel ->
  exists res e, decode o md g rd fuel = TDone res /\ dr_err res = Some e /\ dr_file res = None /\ dr_g res = g /\
                (e = EReadSizeEOF -> k = 0 /\ rd_term rd = TEOF).
Proof. exact decode_cut_in_header. Qed.

(* DecodeChained: after a chain prefix that decodes (chain_ok), a cut or fault inside a record of the next file:
   the Files of the complete files followed by exactly one partial File, which holds the routed messages of the
   records complete before the cut (routed from the accumulator state g1 the prefix left) *)
Theorem C11_chained_partial_files :
  forall o g pre fs1 g1 q1 rd fuel h l be fds (devflag : bool) (devs : list (N * N * N)) pay dev rest r cut rem ss1 ss2 f2 g2,
  let rs := RDef l be c_MesgNumFileId fds devflag devs :: RData l pay dev :: rest in
  chain_ok o g pre fs1 g1 q1 ->
  header_wf h ->
  rd_data rd = concat pre ++ hdr_bytes h ++ ser_records rs ++ cut ->
  List.length (ser_records rs ++ cut) < N.to_nat (h_dsize h) ->
  stream_wf rs = true -> denote rs = Some ss1 ->
  start_file h g1 (hd dummy_msg (ss_msgs ss1)) = Some (f2, g2) ->
  rec_wf r = true -> denote_record ss1 r = Some ss2 ->
  ser_record r = cut ++ rem -> rem <> [] ->
  wf rd fuel ->
  exists cr e file' f g',
    entry_DecodeChained o g rd fuel = TDone cr /\ cr_err cr = Some (EIO e) /\ cr_files cr = fs1 ++ [file'] /\
    route_msgs h g1 (ss_msgs ss1) = Some (f, g') /\
    f_slots file' = f_slots f /\ f_inited file' = f_inited f /\ f_header file' = h.
Proof. exact DecodeChained_partial_files. Qed.
Print Assumptions C11_chained_partial_files.

(* ---- DecodeHeaderAndFileID ---- *)
(* whole-entry cut statement, for every input: if the call succeeds on bs there is a number of bytes it needs (the
   header and what the file_id prologue consumed) such that EVERY shorter prefix, through any reader ending in EOF or
   a fault, is an error, and every input agreeing with bs on that many bytes succeeds with the same results *)
Theorem C11_DecodeHeaderAndFileID_threshold : forall g bs r,
  entry_DecodeHeaderAndFileID g (solo bs) (solo_fuel bs) = TDone r -> dr_err r = None ->
  exists need, need <= List.length bs /\
    (forall k rd fuel, k < need -> rd_data rd = firstn k bs -> wf rd fuel ->
       exists r' e, entry_DecodeHeaderAndFileID g rd fuel = TDone r' /\ dr_err r' = Some e) /\
    (forall rd fuel, firstn need (rd_data rd) = firstn need bs -> need <= List.length (rd_data rd) -> wf rd fuel ->
       exists r', entry_DecodeHeaderAndFileID g rd fuel = TDone r' /\ dr_err r' = None /\ dr_hdr r' = dr_hdr r /\
                  dr_file r' = dr_file r /\ dr_g r' = dr_g r).
Proof. exact DecodeHeaderAndFileID_threshold. Qed.
Print Assumptions C11_DecodeHeaderAndFileID_threshold.

(* and for a file beginning with a well-formed header, file_id definition and file_id data record that number is
   header size + the two records: every shorter input is an error *)
Theorem C11_DecodeHeaderAndFileID_cut_is_error :
  forall g rd fuel h l be fds (devflag : bool) (devs : list (N * N * N)) pay dev ssb f2 g1 tl k,
  let r1 := RDef l be c_MesgNumFileId fds devflag devs in
  let r2 := RData l pay dev in
  header_wf h ->
  List.length (ser_record r1) + List.length (ser_record r2) <= N.to_nat (h_dsize h) ->
  rec_wf r1 = true -> rec_wf r2 = true -> denote_from ss_init [r1; r2] = Some ssb ->
  start_file h g (hd dummy_msg (ss_msgs ssb)) = Some (f2, g1) ->
  k < N.to_nat (h_size h) + List.length (ser_record r1) + List.length (ser_record r2) ->
  rd_data rd = firstn k (hdr_bytes h ++ (ser_record r1 ++ ser_record r2) ++ tl) -> wf rd fuel ->
  exists res e, entry_DecodeHeaderAndFileID g rd fuel = TDone res /\ dr_err res = Some e.
Proof. exact DecodeHeaderAndFileID_cut_is_error. Qed.

(* the hypotheses are satisfiable and the conclusions visible on the in-domain stream ok_stream framed by ok_hdr:
   the domain holds; at every offset of its data section Decode returns an I/O error with a File (read in chunks of
   2, 0, 5 bytes, the fault arriving together with the last chunk); a cut inside the checksum gives EFileCRCRead with
   a File; DecodeHeaderAndFileID fails on every prefix shorter than 12 + 9 + 2 bytes and succeeds from there on *)
Example C11_example_domain :
  header_wf ok_hdr /\ h_dsize ok_hdr = N.of_nat (List.length (ser_records ok_stream)) /\
  starts_with_file_id ok_stream = true /\ stream_wf ok_stream = true /\
  exists ss f2 g1, denote ok_stream = Some ss /\ start_file ok_hdr g_init (hd dummy_msg (ss_msgs ss)) = Some (f2, g1) /\
                   no_file_id (List.tl (ss_msgs ss)) = true /\ (3 <= List.length (ss_msgs ss))%nat.
Proof. exact ex_domain. Qed.
Example C11_example_partial_every_offset :
  forallb (fun n => is_io_error_with_file
             (entry_Decode no_opts g_init
                (mk_reader (hdr_bytes ok_hdr ++ firstn n (ser_records ok_stream)) [2; 0; 5] TFault true 0) 200))
          (seq 0 (List.length (ser_records ok_stream))) = true.
Proof. exact ex_partial_every_offset. Qed.
Example C11_example_cut_in_crc :
  match entry_Decode no_opts g_init (mk_reader (hdr_bytes ok_hdr ++ ser_records ok_stream ++ [7%N]) [] TEOF false 0) 200 with
  | TDone r => dr_err r = Some EFileCRCRead /\ dr_file r <> None
  | _ => False
  end.
Proof. exact ex_cut_in_crc. Qed.
Example C11_example_fileid_threshold :
  forallb (fun k => match entry_DecodeHeaderAndFileID g_init (mk_reader (firstn k (fit_file ok_hdr ok_stream)) [3] TEOF false 0) 200 with
                    | TDone r => match dr_err r with Some _ => Nat.ltb k 23 | None => Nat.leb 23 k end
                    | _ => false
                    end) (seq 0 68) = true.
Proof. exact ex_fileid_threshold. Qed.

(* No PARTIAL item is left in this file.  Scope of partial_files: the theorem is about files of the domain of
   Decode_denote (docs/notes-C02-stream.md: serialisable records, canonical base-type bytes, a file type with a
   container); "the messages" are the slots of the File (route_msgs); the unknown-message / unknown-field counters of
   a partial File are the subject of C16 (Decode_counts_on_failure).  Outside Coq: the theorems speak about the
   model; reader.go is tied to it by the lock-step run on every cut and fault offset of every stream of the harness,
   where the partial Files are also judged against the extracted reference semantics. *)
