(* C11 -- Truncation and read faults never yield silent success.
   Full statement (properties.jsonl): for every valid single or chained stream cut at any byte, or whose reader
   fails at any offset, every entry point returns a non-nil error; the only exception is a clean end of input
   exactly on a file boundary of a chained stream, which ends the chain.  Files returned alongside the error
   contain exactly the messages that were complete before the cut or fault.

   A cut at k and a fault at k are the same reader oracle up to its terminal condition: it holds the first k bytes
   and then answers TEOF (truncation) or TFault (a non-EOF error on every further Read), under any chunk schedule,
   with or without the last chunk arriving together with that condition. *)
From Coq Require Import NArith List Bool Arith.
From FitV Require Import Model.Crc Model.IO Model.Header Model.Route Model.Components Model.Decode
  Proofs.IOSim Proofs.C10IO Proofs.C10Frame Proofs.C11Cut Proofs.C10Examples.
Import ListNotations.

(* ---- the buffered phase, for EVERY decoder program ---- *)

(* whenever a decoder program needs a byte the input no longer has, the buffered phase ends with an I/O error
   (never with success, never by running out of fuel), for every program, chunk schedule and cut/fault offset;
   the error is "beyond data size" when the header's data size is exhausted first, "unexpected EOF" on a
   truncated input and the reader's own error on a fault; the reader position is exactly the end of the data *)
Theorem C11_io_error_is_reported : forall S E A (p : prog S E A) rd limit crc fuel s,
  length (rd_data rd) + length (rd_sched rd) < fuel ->
  forall e x s', run_a p (start_a rd limit) s = RIOErr e x s' ->
  exists c', run_c p (start_c rd limit crc fuel) s = RIOErr e c' s' /\
             e = err_of limit (rd_data rd) (rd_term rd) /\
             rd_pos (c_rd c') = rd_pos rd + Nat.min limit (length (rd_data rd)).
Proof. exact @io_error_is_reported. Qed.
Print Assumptions C11_io_error_is_reported.

(* the state reached before the failure -- the File with the messages of the records completed so far -- is
   what the abstract run reached: partial results do not depend on chunking either *)
Theorem C11_partial_state_independent : forall S E A (p : prog S E A) rd limit crc fuel s,
  length (rd_data rd) + length (rd_sched rd) < fuel ->
  observe (run_c p (start_c rd limit crc fuel) s) = observe (run_a p (start_a rd limit) s).
Proof. exact @buffered_run_abstract. Qed.

(* a truncated input can only produce EOF-class errors, a faulting reader its fault *)
Theorem C11_error_kind : forall limit data t,
  err_of limit data t = IOBeyond \/ err_of limit data t = noEOF t.
Proof. exact error_kind. Qed.

(* a run on a cut input either ends in an I/O error or ends exactly as the run on the whole input: it never
   succeeds differently, never fails differently, never panics where the whole run does not *)
Theorem C11_run_cut : forall S E A (p : prog S E A) rest t n lim s k t',
  match run_a p (mk_ast (firstn k rest) t' n lim) s with
  | RIOErr _ _ _ => True
  | ROk a x' s' => exists x, run_a p (mk_ast rest t n lim) s = ROk a x s' /\ a_n x = a_n x'
  | RFail e x' s' => exists x, run_a p (mk_ast rest t n lim) s = RFail e x s' /\ a_n x = a_n x'
  | RPanic w => run_a p (mk_ast rest t n lim) s = RPanic w
  | ROutOfFuel => False
  end.
Proof. exact @run_a_cut. Qed.

(* ---- the whole entry points ---- *)

(* cut_is_error and fault_is_error for Decode, CheckIntegrity and DecodeHeader (every mode but file_id-only): if the
   call succeeds on bs read alone and consumes all of bs (bs is exactly what the call needs: the frame, or the header
   for DecodeHeader), then for EVERY k < |bs| and EVERY reader holding the first k bytes of bs -- any chunk schedule,
   terminal condition clean EOF (cut) or fault, with or without data-with-error -- the call returns (it does not
   panic, it does not run out of fuel) and returns an error; the error is the end-of-chain class (errReadSize on
   EOF) only for the empty input with a clean EOF *)
Theorem C11_cut_is_error : forall o md g bs r, md <> MFileIdOnly ->
  decode o md g (solo bs) (solo_fuel bs) = TDone r -> dr_err r = None -> rd_data (dr_rd r) = [] ->
  forall k rd fuel, k < length bs -> rd_data rd = firstn k bs -> wf rd fuel ->
  exists r' e, decode o md g rd fuel = TDone r' /\ dr_err r' = Some e /\ (e = EReadSizeEOF -> k = 0 /\ rd_term rd = TEOF).
Proof. exact decode_cut_is_error. Qed.
Print Assumptions C11_cut_is_error.

(* conversely, a cut or fault at or beyond the last byte the call needs is never observed (it cannot matter) *)
Theorem C11_beyond_need_unobserved : forall o md g bs r, md <> MFileIdOnly ->
  decode o md g (solo bs) (solo_fuel bs) = TDone r -> dr_err r = None -> rd_data (dr_rd r) = [] ->
  forall tl rd fuel, rd_data rd = bs ++ tl -> wf rd fuel ->
  exists r', decode o md g rd fuel = TDone r' /\ dr_err r' = None /\ dr_hdr r' = dr_hdr r /\ dr_file r' = dr_file r /\
             dr_g r' = dr_g r /\ dr_quirks r' = dr_quirks r /\
             rd_pos (dr_rd r') = rd_pos rd + length bs /\ rd_data (dr_rd r') = tl.
Proof. exact decode_frame_local. Qed.

(* DecodeChained: after a chain prefix pre that decodes (chain_ok, see Props/C10.v), a cut or fault inside the next
   file bs -- the reader holds concat pre ++ the first k bytes of bs -- yields an error, and the Files returned are
   the Files of pre followed by at most one (partial) File.  The side condition lists the cases: empty input, cut
   strictly inside a file, read fault exactly on a file boundary. *)
Theorem C11_chained_cut_is_error : forall o g pre fs1 g1 q1 bs r, chain_ok o g pre fs1 g1 q1 ->
  decode o MFull g1 (solo bs) (solo_fuel bs) = TDone r -> dr_err r = None -> rd_data (dr_rd r) = [] ->
  forall k rd fuel, k < length bs -> rd_data rd = concat pre ++ firstn k bs -> wf rd fuel ->
  pre = [] \/ 0 < k \/ rd_term rd = TFault ->
  exists cr e, entry_DecodeChained o g rd fuel = TDone cr /\ cr_err cr = Some e /\
               firstn (length fs1) (cr_files cr) = fs1 /\ length (cr_files cr) <= S (length fs1).
Proof. exact chained_cut_is_error. Qed.
Print Assumptions C11_chained_cut_is_error.

(* a read fault after the last file (where the size byte of a further file would be read) is an error too *)
Theorem C11_chained_fault_at_end : forall o g pre fs1 g1 q1, chain_ok o g pre fs1 g1 q1 ->
  forall rd fuel, rd_data rd = concat pre -> rd_term rd = TFault -> wf rd fuel ->
  exists cr e, entry_DecodeChained o g rd fuel = TDone cr /\ cr_err cr = Some e /\ cr_files cr = fs1.
Proof. exact chained_fault_at_end. Qed.

(* boundary_eof_ends_chain -- the one exception: a clean end of input exactly on a file boundary after at least one
   file ends the chain without error, with exactly the Files before the boundary (C10_chained_concat for the prefix) *)
Theorem C11_boundary_eof_ends_chain : forall o g pre fs g' q, chain_ok o g pre fs g' q -> pre <> [] ->
  forall rd fuel, rd_data rd = concat pre -> rd_term rd = TEOF -> wf rd fuel ->
  exists cr, entry_DecodeChained o g rd fuel = TDone cr /\ cr_err cr = None /\ cr_files cr = fs /\ cr_g cr = g' /\
             cr_quirks cr = q /\ rd_pos (cr_rd cr) = rd_pos rd + length (concat pre).
Proof. exact chained_concat. Qed.

(* the hypotheses are satisfiable and the conclusion is visible on a concrete file: the 25-byte file of
   Proofs/C10Examples.v decodes alone, and each of its 25 proper prefixes is an error for Decode, under a schedule
   with an empty read and clean EOF, and under a fault delivered together with the last chunk *)
Example C11_example_file : exists r, decode no_opts MFull g_init (solo ex_file) (solo_fuel ex_file) = TDone r /\
  dr_err r = None /\ rd_data (dr_rd r) = [] /\ rd_pos (dr_rd r) = 25 /\ dr_g r = g_init.
Proof. exact ex_file_decodes. Qed.
Example C11_example_cuts :
  forallb (fun k => match decode no_opts MFull g_init (mk_reader (firstn k ex_file) [3; 0; 7] TEOF false 0) 60 with
                    | TDone r => match dr_err r with Some _ => true | None => false end
                    | _ => false
                    end) (seq 0 25) = true /\
  forallb (fun k => match decode no_opts MFull g_init (mk_reader (firstn k ex_file) [] TFault true 0) 60 with
                    | TDone r => match dr_err r with Some _ => true | None => false end
                    | _ => false
                    end) (seq 0 25) = true.
Proof. exact ex_cuts_are_errors. Qed.

(* PARTIAL (said in the manifest too):
   - DecodeHeaderAndFileID (file_id-only mode) is not covered by C11_cut_is_error: its success does not consume a
     determined number of bytes (read-ahead), so "cut before the end of the file_id message" needs the position of
     the abstract run; C11_run_cut and C11_io_error_is_reported apply to it, the whole-entry statement is checked by
     the harness on every cut and fault offset.
   - partial_files: that the Files returned with the error contain exactly the messages of the records complete
     before the cut is NOT proved; proved is that the state at the failure is the state of the abstract run on the
     cut input (C11_partial_state_independent) and that this run is a prefix of the whole run (C11_run_cut).  The
     harness judges every partial File against the extracted reference semantics of the complete records.
   - the theorems speak about the model; reader.go is tied to it by the lock-step run on every cut and fault offset. *)
