(* C05 -- Encode emits a well-formed, self-describing FIT stream.
   Model: Model/Encode.v (writer.go as repaired by the fix: commits).  Spec:
   Spec/Grammar.v, a recogniser of the FIT grammar written independently of the
   decoder model, with the bitwise CRC-16/ARC of Spec/CrcSpec.v. *)
From Coq Require Import NArith ZArith List Bool String.
From FitV Require Import Model.Values Model.Bytes Model.Header Model.Route Model.Encode
  Spec.CrcSpec Spec.Grammar Spec.RoundTrip Proofs.EncodeProofs Proofs.C05Grammar Proofs.C05Wire Proofs.C05Complete Proofs.C07Reencode Proofs.EncExamples.
Import ListNotations.
Local Open Scope N_scope.

(* framing, for every File, both byte orders, both header sizes: the output is
   bytes; the header is well formed with data size = number of record bytes and
   a correct header CRC; the trailing CRC is the CRC-16/ARC of everything before
   it; the record section is exactly what the slot encoder produced; and the
   File after the call holds the data size, file CRC and header CRC written *)
Theorem C05_encode_framing : forall f be bs f',
  wf_header (f_header f) = true ->
  encode f be = EOk (bs, f') ->
  N.of_nat (List.length bs) < 4294967296 ->
  forallb (fun b => b <? 256) bs = true /\
  header_ok bs = true /\ trailer_ok bs = true /\
  enc_data f be = EOk (record_bytes bs) /\
  h_dsize (f_header f') = datasize bs /\
  N.of_nat (List.length (record_bytes bs)) = datasize bs /\
  f_crc f' = filecrc bs /\
  (hdrsize bs = 14 -> h_crc (f_header f') = hdrcrc bs /\ hdrcrc bs = arc (firstn 12 bs)).
Proof. exact encode_framing. Qed.
Print Assumptions C05_encode_framing.

(* records, for every well-formed File (all 17 file types, any contents of any slot), both byte orders,
   both header sizes: the complete recogniser accepts the bytes -- every data record is preceded by a
   definition of its local type whose field sizes add up to the record length, every size a multiple of
   its base-type size -- and returns one record per message of the File, in the documented order, that
   carries the message number, the byte order and, per field of the definition, the field number, the
   base type and exactly the bytes writeField wrote for the struct field (rec_of) *)
Theorem C05_encode_grammar : forall f be bs f',
  wf_file f = true -> wf_header (f_header f) = true ->
  encode f be = EOk (bs, f') -> N.of_nat (List.length bs) < 4294967296 ->
  exists recs, grammar bs = Some recs /\ Forall2 (rec_of be) (file_msgs f) recs.
Proof. exact encode_grammar. Qed.
Print Assumptions C05_encode_grammar.

(* the profile facts the proof rests on are one computation over the generated tables *)
Theorem C05_profile_msgs_ok : forallb msg_ok Gen.ProfileData.messages = true.
Proof. exact profile_msgs_ok. Qed.

(* values: for every well-formed File whose arrays are shorter than 256 elements and whose times lie
   within int64 nanoseconds of the FIT epoch (file_sane), every field of every record on the wire
   matches the struct field of the File it was written from (field_matches of Spec/Grammar.v:
   integers by value in the record's byte order, strings with their terminator and zero padding,
   arrays element by element with invalid padding up to the profile length, times as seconds since
   the FIT epoch when whole and in range, local times by wall clock, coordinates as semicircles).
   Superseded by C05_encode_wire_ok below (kept: it exposes the per-field clause separately) *)
Theorem C05_encode_wire_fields : forall f be bs f',
  wf_file f = true -> wf_header (f_header f) = true -> file_sane f = true ->
  encode f be = EOk (bs, f') -> N.of_nat (List.length bs) < 4294967296 ->
  exists recs, grammar bs = Some recs /\
    Forall2 (fun m r => gr_gmn r = m_num m /\ gr_be r = be /\ fields_match m r = true) (file_msgs f) recs.
Proof. exact encode_wire_fields. Qed.
Print Assumptions C05_encode_wire_fields.

(* the complete statement of DESIGN.md: the recogniser accepts and wire_ok holds -- per message: message number,
   no field number twice in a record, every field value, and every struct field the record does not carry is
   unset (no set field is omitted) *)
Theorem C05_encode_wire_ok : forall f be bs f',
  wf_file f = true -> wf_header (f_header f) = true -> file_sane f = true ->
  encode f be = EOk (bs, f') -> N.of_nat (List.length bs) < 4294967296 ->
  exists recs, grammar bs = Some recs /\ wire_ok f recs = true.
Proof. exact encode_wire_ok. Qed.
Print Assumptions C05_encode_wire_ok.

(* FULL STATEMENT (refuted without file_sane): an array of 256 elements is written as all-invalid,
   because writeField computes byte(value.Len()); candidate finding, see docs/notes-C05C06C07.md *)
Theorem C05_encode_wire_array256_refuted :
  exists be pf ty v p, write_field be pf ty v = EOk p /\ val_has_type ty v = true /\
    field_matches be pf (Model.Base.fit_base (pf_t pf)) p v = false.
Proof. exact encode_wire_array256_refuted. Qed.

Theorem C05_profile_msgs_ok2 : forallb msg_ok2 Gen.ProfileData.messages = true.
Proof. exact profile_msgs_ok2. Qed.

(* totality: on every well-formed File Encode returns bytes or the UTF-8 error of encodeString; it never panics *)
Theorem C05_encode_total : forall f be, wf_file f = true ->
  (exists r, encode f be = EOk r) \/ encode f be = EErr EEString.
Proof. exact encode_total. Qed.
Theorem C05_encode_no_panic : forall f be w, wf_file f = true -> encode f be <> EPanic w.
Proof. exact encode_no_panic. Qed.
Print Assumptions C05_encode_total.

(* non-vacuity: a well-formed activity File with two records encodes, and the
   complete recogniser (records and wire values included) accepts the bytes *)
Example C05_example :
  wf_file ex_file = true /\ wf_header (f_header ex_file) = true /\
  (exists bs f', encode ex_file true = EOk (bs, f') /\ N.of_nat (List.length bs) < 4294967296 /\
     exists recs, grammar bs = Some recs /\ wire_ok ex_file recs = true /\ List.length recs = 3%nat) /\
  file_sane ex_file = true.
Proof.
  split; [vm_compute; reflexivity|]. split; [vm_compute; reflexivity|]. split; [|vm_compute; reflexivity].
  destruct (encode ex_file true) as [[bs f']| |] eqn:E; [|vm_compute in E; discriminate|vm_compute in E; discriminate].
  exists bs, f'. split; [reflexivity|].
  assert (Hb : bs = ex_encoded true) by (unfold ex_encoded; now rewrite E).
  rewrite Hb. split; [vm_compute; reflexivity|].
  eexists. split; [vm_compute; reflexivity|]. split; vm_compute; reflexivity.
Qed.
