(* C19 -- fitgen yields valid, deterministic code for every product-profile
   selection.  PARTIAL proof: the theorems cover the row -> (struct field,
   lookup entry) mapping of the Gallina model of fitgen's core
   (Model/FitgenCore.v).  The command's exit status, byte-identical output of
   two runs, that the output compiles, and the declared SDK version are not
   expressible in the model; the harness checks them at run time (tests). *)
From Coq Require Import NArith List String.
From FitV Require Import Model.FitgenCore Spec.FitgenSpec Proofs.FitgenProofs.
Import ListNotations.
Local Open Scope string_scope.
Local Open Scope N_scope.

(* the types.Fit code and Go type computed for an enabled row have the row's
   base type, array flag and kind *)
Theorem C19_ftype_spec : forall types tdecl r ft tn,
  row_hyp types tdecl r = true ->
  parse_type types (r_name r) (parse_array (r_array r)) (r_type r) = Ok (ft, tn) ->
  ftype_facts tdecl r ft tn.
Proof. exact ftype_spec. Qed.
Print Assumptions C19_ftype_spec.

(* per message: enabled rows <-> struct fields <-> lookup entries, order
   preserving, index = rank; exactly one entry per enabled row and none for a
   disabled row when the field numbers are pairwise distinct *)
Theorem C19_gen_bijection : forall types tdecl pm m,
  transform_msg false types pm = Ok m ->
  (forall r, In r (msg_rows pm) -> s_enabled r = true -> row_hyp types tdecl r = true) ->
  bij tdecl 0 (filter s_enabled (msg_rows pm)) (gen_struct m) (gen_entries m)
  /\ (NoDup (map s_defnum (msg_rows pm)) ->
        (forall r, In r (msg_rows pm) -> s_enabled r = true ->
           exists! e, In e (gen_entries m) /\ e_num e = s_defnum r)
     /\ (forall r, In r (msg_rows pm) -> s_enabled r = false ->
           forall e, In e (gen_entries m) -> e_num e <> s_defnum r)).
Proof. exact gen_bijection. Qed.
Print Assumptions C19_gen_bijection.

(* sindex = rank *)
Theorem C19_rank : forall tdecl i rows sfs es, bij tdecl i rows sfs es ->
  forall k r, nth_error rows k = Some r ->
  exists sf e, nth_error sfs k = Some sf /\ nth_error es k = Some e /\ corr tdecl r (i + N.of_nat k) sf e.
Proof. exact bij_rank. Qed.

(* the parser groups the rows of the Messages sheet as the spec does *)
Theorem C19_parse_groups : forall msheet l, parse_msgs msheet = Ok l -> s_groups msheet = map view l.
Proof. exact parse_msgs_groups. Qed.

(* whole workbook: the executable spec evaluated by the harness on fitgen's
   real output accepts the model's output *)
Theorem C19_gen_sheet_spec : forall tsheet msheet outs,
  gen false tsheet msheet = Ok outs ->
  sheet_hyp tsheet msheet = true ->
  s_sheet_ok tsheet msheet (map observe outs) = true.
Proof. exact gen_sheet_spec. Qed.
Print Assumptions C19_gen_sheet_spec.

(* non-vacuity: a two-message workbook on which generation succeeds, the side
   conditions hold and the field numbers are distinct *)
Example C19_example :
  gen false ex_tsheet ex_msheet =
  Ok [ mkOut "Record"
         [(0, ("Timestamp", "time.Time")); (1, ("PositionLat", "Latitude")); (2, ("Speeds", "[]uint16")); (3, ("Sport", "Sport"))]
         [mkEntry "253" 0 70 "1"; mkEntry "0" 1 197 "1"; mkEntry "5" 2 36 "2"; mkEntry "6" 3 0 "1"];
       mkOut "Lap" [(0, ("Name", "string"))] [mkEntry "7" 0 7 "16"] ]
  /\ sheet_hyp ex_tsheet ex_msheet = true
  /\ Forall (fun g => NoDup (map s_defnum (snd g))) (s_groups ex_msheet).
Proof. exact example_gen. Qed.

(* the side conditions cannot be dropped (latent: no bundled workbook has such rows) *)
Theorem C19_coordinate_by_name_refuted :
  exists types tdecl r ft tn,
    parse_type types (r_name r) (parse_array (r_array r)) (r_type r) = Ok (ft, tn)
    /\ s_base tdecl r = Some 0x02 /\ fit_base ft = 0x85.
Proof. exact coordinate_by_name_refuted. Qed.

Theorem C19_bool_array_refuted :
  exists types r ft tn,
    parse_type types (r_name r) (parse_array (r_array r)) (r_type r) = Ok (ft, tn)
    /\ s_is_array r = true /\ fit_array ft = true /\ starts_slice tn = false.
Proof. exact bool_array_refuted. Qed.

Theorem C19_array_zero_refuted :
  exists types r ft tn,
    parse_type types (r_name r) (parse_array (r_array r)) (r_type r) = Ok (ft, tn)
    /\ s_is_array r = true /\ fit_array ft = false.
Proof. exact array_zero_refuted. Qed.
