(* C01 -- Decoding entry points are total: no panic or hang on any byte input.
   "For every byte sequence, however the reader splits it into reads, Decode, DecodeChained, CheckIntegrity,
   DecodeHeader and DecodeHeaderAndFileID return normally (a result or an error) without panicking or looping
   forever. In particular every field definition (any base-type byte, any size 0-255, either byte order) for every
   profile message and field number, and for unknown ones, is either rejected with an error or decoded safely."

   The model (Model/Decode.v, Model/IO.v, Model/Reflect.v, Model/Route.v) has an explicit Panic outcome at every
   point where the Go code can panic (reflect setters on the wrong kind, Value.Field, types.Base table accesses,
   ByteOrder.UintNN on a short slice, divide by zero, the explicit panics of reader.go, File.add) and runs every loop
   on fuel with a distinct OutOfFuel outcome. The reader oracle [rd] is ANY io.Reader of the modelled class: any
   data bytes, any chunk schedule including empty reads, EOF or a non-EOF fault at the end, with or without the
   last chunk arriving together with that condition. The profile and base-type tables are the ones regenerated from
   the compiled library on every run (Gen/ProfileData.v, Gen/BaseTables.v, Gen/RoutingData.v, Gen/Consts.v).

   Everything below is complete (no side conditions beyond: data are bytes, fuel > |data| + |schedule|).
   Not modelled (stated, not claimed): Go runtime memory safety outside the listed panic sites; the logger's
   formatting of values when WithLogger is set; a reader that returns (0, nil) forever (readByte then spins by the
   contract of io.Reader). *)
From Coq Require Import NArith ZArith List Bool Arith.
From FitV Require Import Model.Values Model.Bytes Model.Base Model.Profile Model.Reflect Model.Crc Model.IO Model.Header
  Model.Components Model.Route Model.Decode Spec.ProfileWf Proofs.ProfileProofs
  Proofs.C01Hoare Proofs.C01Cells Proofs.C01Fields Proofs.C01Records Proofs.C01Total Proofs.C01Extra Gen.Consts.
Import ListNotations.
Local Open Scope N_scope.

(* the main theorem: all five entry points, all options, every accumulator state, every reader *)
Theorem C01_decode_total : forall o (header_only : bool) g rd fuel,
  Forall (fun b => b < 256) (rd_data rd) -> (List.length (rd_data rd) + List.length (rd_sched rd) < fuel)%nat ->
  (exists r, entry_Decode o g rd fuel = TDone r) /\
  (exists r, entry_DecodeChained o g rd fuel = TDone r) /\
  (exists r, entry_CheckIntegrity header_only g rd fuel = TDone r) /\
  (exists r, entry_DecodeHeader g rd fuel = TDone r) /\
  (exists r, entry_DecodeHeaderAndFileID g rd fuel = TDone r).
Proof. exact decode_total. Qed.
Print Assumptions C01_decode_total.

(* validateFieldDef never panics: every message number, field number, base-type byte, size byte *)
Theorem C01_validate_no_panic : forall gmn fd w, fd_btype fd < 256 -> fd_size fd < 256 ->
  validate_field_def gmn fd <> VPanic w.
Proof. exact validate_no_panic. Qed.
Print Assumptions C01_validate_no_panic.

(* what the validator admits is stored without panic: for a definition message all of whose field definitions
   were accepted (fdef_ok = accepted + byte-sized), parseDataFields on ANY remaining input, either byte order,
   known or unknown message, listed or unlisted field numbers, never reaches Panic; a known message keeps its
   message value *)
Theorem C01_validate_admits_only_storable : forall o dm msgv x s,
  AInv x -> Forall (fdef_ok (dm_gmn dm)) (dm_fdefs dm) ->
  (known_msg (dm_gmn dm) = true -> msgv <> None) ->
  np (parse_data_fields o dm (known_msg (dm_gmn dm)) msgv) x s
     (fun om x' s' => AInv x' /\ frame s s' /\ (known_msg (dm_gmn dm) = true -> om <> None)).
Proof. exact validate_admits_only_storable. Qed.
Print Assumptions C01_validate_admits_only_storable.

(* the finite core: for every profile entry, every base-type byte and size, the cell is safe *)
Theorem C01_entry_cell : forall gmn fdn pf bt sz, get_field gmn fdn = Some pf -> bt < 256 -> sz < 256 ->
  cell_ok (fit_kind (pf_t pf)) (fit_array (pf_t pf)) (fit_base (pf_t pf)) bt sz = true.
Proof. exact entry_cell. Qed.
Print Assumptions C01_entry_cell.

(* progress: every record consumes at least one byte ... *)
Theorem C01_progress : forall o x s,
  match run_a (parse_record o) x s with
  | ROk _ x' _ => (a_n x < a_n x')%nat
  | _ => True
  end.
Proof. exact parse_record_progress. Qed.

(* ... so the buffered part of decode never panics, never exhausts the loop fuel, and in full mode ends with
   n = limit: the explicit pre-CRC panic of decode is dead code *)
Theorem C01_precrc_invariant : forall o fid x f g, AInv x -> f_inited f = None ->
  np (data_prog o fid (S (a_limit x))) x (init_dstate f g) (fun _ x' s' => fid = false -> a_n x' = a_limit x').
Proof. exact data_prog_np. Qed.
Print Assumptions C01_precrc_invariant.

(* the raw stages finish and DecodeChained's chain fuel suffices: every decode returns, and a successful one has
   consumed input *)
Theorem C01_decode_done : forall o md g rd fuel, reader_ok rd -> (rmeasure rd < fuel)%nat ->
  exists r, decode o md g rd fuel = TDone r /\ rd_le (dr_rd r) rd /\
            (dr_err r = None -> (List.length (rd_data (dr_rd r)) < List.length (rd_data rd))%nat).
Proof. exact decode_done. Qed.

(* the for {} loop of the string-array scanner terminates within the model's fuel *)
Theorem C01_string_scanner_terminates : forall buf dsize extra, (0 < dsize)%nat ->
  scan_strings (S dsize + extra) buf dsize 0 0 [] = scan_strings (S dsize) buf dsize 0 0 [].
Proof. exact string_scanner_terminates. Qed.

(* Go array bounds the model does not carry as Panic outcomes, from the generated constants *)
Theorem C01_slots_in_bounds : forall b, b < 256 ->
  N.land b c_localMesgNumMask < c_maxLocalMesgs /\
  N.shiftr (N.land b c_compressedLocalMesgNumMask) 5 < 4 /\ 4 <= c_maxLocalMesgs.
Proof. exact slots_in_bounds. Qed.
Theorem C01_tmp_in_bounds : forall nf size, nf < 256 -> size < 256 ->
  3 * nf <= c_tmpLen /\ size <= c_tmpLen /\ 4 <= c_tmpLen /\ c_bytesForCRC <= c_tmpLen.
Proof. exact tmp_in_bounds. Qed.

(* the latent hole of the validator, about the validator as a function of the profile descriptor: a float32
   profile scalar with a sint32 definition is accepted and the store panics. The compiled profile has no float
   fields (C15), so C01_decode_total is not affected. *)
Theorem C01_validate_float_hole_refuted : exists pd bt size ty,
  pd = (false, base_float32) /\ ty = TF 32 /\
  validate_cell (Some pd) bt size = VOk /\
  forall be num buf, parse_fit_field be (mk_fdef num size bt) buf ty = FPanic 3 \/
                     parse_fit_field be (mk_fdef num size bt) buf ty = FPanic 5.
Proof. exact validate_float_hole_refuted. Qed.
Theorem C01_no_float_fields : forall gmn fdn pf, get_field gmn fdn = Some pf ->
  b_float (fit_base (pf_t pf)) = Some false /\ exists s, b_size (fit_base (pf_t pf)) = Some s /\ 1 <= s <= 4.
Proof. exact no_float_fields. Qed.
Print Assumptions C01_validate_float_hole_refuted.

(* ---- non-vacuity (definitions in Proofs/C01Extra.v) *)
(* ex_stream: a valid activity file: file_id (type 4), a record definition (timestamp uint32, heart_rate uint8) and one
   record; 12-byte header, file CRC computed by the model's CRC. ex_reader delivers it in small reads with an empty
   read in between, EOF together with the last byte. Decode succeeds and consumes all of it. *)
Example C01_example_decode : exists r,
  entry_Decode no_opts g_init ex_reader 100 = TDone r /\ dr_err r = None /\
  (rd_pos (dr_rd r) = List.length ex_stream)%nat.
Proof. exact example_decode. Qed.

(* the hypotheses of the main theorem hold for it *)
Example C01_example_hyps :
  Forall (fun b => b < 256) (rd_data ex_reader) /\
  (List.length (rd_data ex_reader) + List.length (rd_sched ex_reader) < 100)%nat.
Proof. exact example_hyps. Qed.

(* an accepted definition narrower than the profile type: uint16 (size 2) for a uint32 profile field is a safe cell;
   a size below the base type size is rejected *)
Example C01_example_cells :
  validate_cell (Some (false, base_uint32)) base_uint16 2 = VOk /\
  store_safe kind_native false base_uint32 base_uint16 2 = true /\
  validate_cell (Some (false, base_uint32)) base_uint32 3 = VErr.
Proof. exact example_cells. Qed.
