(* C17 -- Coordinate and time value types convert exactly and flag invalids
   consistently. *)
From Coq Require Import ZArith.
From FitV Require Import Model.FitTime Proofs.FitTimeProofs.
Local Open Scope Z_scope.

(* ---- time: for every 32-bit second count ---- *)

(* encodeTime inverts decodeDateTime *)
Theorem C17_time_roundtrip : forall u, is_u32 u -> encode_time (decode_date_time u) = u.
Proof. exact time_roundtrip. Qed.
Print Assumptions C17_time_roundtrip.

Theorem C17_decode_injective : forall u v, is_u32 u -> is_u32 v ->
  decode_date_time u = decode_date_time v -> u = v.
Proof. exact decode_injective. Qed.
Print Assumptions C17_decode_injective.

(* the image is exactly u whole seconds after the FIT epoch, UTC *)
Theorem C17_decode_whole_seconds : forall u, is_u32 u -> decode_date_time u = mk_time u 0 None.
Proof. exact decode_whole_seconds. Qed.
Print Assumptions C17_decode_whole_seconds.

(* onto: every whole second a uint32 can count is decodeDateTime of its encoding *)
Theorem C17_decode_surjective : forall t, whole_second t ->
  is_u32 (encode_time t) /\ decode_date_time (encode_time t) = t.
Proof. exact decode_surjective. Qed.
Print Assumptions C17_decode_surjective.

Theorem C17_isbasetime_iff : forall u, is_u32 u -> (is_base_time (decode_date_time u) = true <-> u = 0).
Proof. exact isbasetime_iff. Qed.
Print Assumptions C17_isbasetime_iff.

(* Sub's saturation is unreachable on the image (and reachable elsewhere) *)
Theorem C17_sub_no_saturation : forall u, is_u32 u -> time_sub (mk_time u 0 None) time_base = u * second.
Proof. exact sub_no_saturation. Qed.
Print Assumptions C17_sub_no_saturation.

Example C17_time_nonvacuous :
  is_u32 1000000000 /\ encode_time (decode_date_time 1000000000) = 1000000000 /\
  is_u32 (2 ^ 32 - 1) /\ encode_time (decode_date_time (2 ^ 32 - 1)) = 2 ^ 32 - 1.
Proof. exact time_roundtrip_nonvacuous. Qed.
