(* C17 -- Coordinate and time value types convert exactly and flag invalids
   consistently. *)
From Coq Require Import ZArith Reals String.
From Flocq Require Import Core IEEE754.Binary IEEE754.Bits.
From FitV Require Import Model.FitTime Proofs.FitTimeProofs Model.LatLng Spec.FixedPoint Proofs.LatLngProofs.
From FitV Require Import Gen.C17Consts Proofs.C17Consts Gen.C17Funcs Proofs.C17Funcs.
Local Open Scope Z_scope.

(* ---- tie to the source text: the constants and comparison operators that
   `vh gen` reads out of the current latlng.go / time.go (Gen/C17Consts.v) are
   the ones the models use ---- *)
Theorem C17_latlng_source_agrees :
  src_sint32Invalid = sint32_invalid /\ src_precision = precision /\ src_stringInvalid = string_invalid.
Proof. exact latlng_consts_agree. Qed.

(* latlng.go itself, translated function by function into Gen/C17Funcs.v on every check (harness/gen_c17funcs.go),
   computes on every argument what the model of this file computes: every int32 receiver / argument, every float64
   argument (NaN and infinities included).  The proofs are semantic (case analysis on the comparisons), so a rewrite
   of the source that keeps the behaviour keeps them. *)
Theorem C17_latlng_translated :
  (forall s, is_i32 s -> go_NewLatitude s = lat_semicircles (new_latitude s) /\
                         go_Latitude_Semicircles s = lat_semis (mk_lat s) /\
                         go_Latitude_Invalid s = lat_invalid (mk_lat s) /\
                         go_Latitude_Degrees s = lat_degrees (mk_lat s) /\
                         go_Latitude_String s = lat_string (mk_lat s) /\
                         go_NewLongitude s = lng_semicircles (new_longitude s) /\
                         go_Longitude_Semicircles s = lng_semis (mk_lng s) /\
                         go_Longitude_Invalid s = lng_invalid (mk_lng s) /\
                         go_Longitude_Degrees s = lng_degrees (mk_lng s) /\
                         go_Longitude_String s = lng_string (mk_lng s)) /\
  (forall d, go_NewLatitudeDegrees d = lat_semicircles (new_latitude_degrees d) /\
             go_NewLongitudeDegrees d = lng_semicircles (new_longitude_degrees d)) /\
  go_NewLatitudeInvalid = lat_semicircles new_latitude_invalid /\
  go_NewLongitudeInvalid = lng_semicircles new_longitude_invalid.
Proof. exact latlng_translated. Qed.
Print Assumptions C17_latlng_translated.

(* time.go likewise: the translated IsBaseTime, decodeDateTime and encodeTime are the model's functions on every
   argument (every uint32 second count and every time.Time of the model), timeBase is the model's epoch *)
Theorem C17_time_translated :
  go_var_timeBase = time_base /\ (forall t, go_IsBaseTime t = is_base_time t) /\
  (forall dt, go_decodeDateTime dt = decode_date_time dt) /\ (forall t, go_encodeTime t = encode_time t).
Proof. exact time_translated. Qed.
Print Assumptions C17_time_translated.

Theorem C17_time_source_agrees :
  match src_timeBase with
  | (y :: m :: d :: h :: mi :: s :: ns :: nil)%list =>
      (days_from_civil y m d - days_from_civil 1 1 1) * 86400 + h * 3600 + mi * 60 + s = base_abs + t_sec time_base /\
      ns = t_nsec time_base
  | _ => False
  end /\
  src_timeBase_loc = "UTC"%string /\ t_zone time_base = None.
Proof. exact time_consts_agree. Qed.

(* ---- coordinates: for every 32-bit semicircle value ---- *)

(* a latitude is invalid exactly when it is the sentinel or outside the code's
   range [-2^30, 2^30 - 1] *)
Theorem C17_lat_invalid_iff : forall s,
  lat_invalid (new_latitude s) = true <-> s = 2 ^ 31 - 1 \/ s < - 2 ^ 30 \/ s > 2 ^ 30 - 1.
Proof. exact lat_invalid_iff. Qed.
Print Assumptions C17_lat_invalid_iff.

(* that is the property's "sentinel or outside +-90 degrees" everywhere except at +90 degrees *)
Theorem C17_lat_literal_iff : forall s, s <> 2 ^ 30 ->
  (lat_invalid (new_latitude s) = true <-> s = 2 ^ 31 - 1 \/ Z.abs s * 180 > 90 * 2 ^ 31).
Proof. exact lat_literal_iff. Qed.
Print Assumptions C17_lat_literal_iff.

(* known finding lat_plus90: exactly +90 degrees is flagged invalid, -90 degrees is not *)
Theorem C17_lat_plus90_refuted :
  exists s, is_i32 s /\ s * 180 = 90 * 2 ^ 31 /\ ~ lat_literal_invalid s /\
            lat_invalid (new_latitude s) = true /\ lat_invalid (new_latitude (- s)) = false.
Proof. exact lat_plus90_refuted. Qed.
Print Assumptions C17_lat_plus90_refuted.

Theorem C17_lng_invalid_iff : forall s, lng_invalid (new_longitude s) = true <-> s = 2 ^ 31 - 1.
Proof. exact lng_invalid_iff. Qed.
Print Assumptions C17_lng_invalid_iff.

(* Semicircles returns the stored value *)
Theorem C17_lat_semicircles_id : forall s,
  (lat_invalid (new_latitude s) = false -> lat_semis (new_latitude s) = s) /\
  (lat_invalid (new_latitude s) = true -> lat_semis (new_latitude s) = sint32_invalid).
Proof. exact lat_semicircles_id. Qed.
Print Assumptions C17_lat_semicircles_id.

Theorem C17_lng_semicircles_id : forall s, lng_semis (new_longitude s) = s.
Proof. exact lng_semicircles_id. Qed.
Print Assumptions C17_lng_semicircles_id.

(* Degrees is exactly semicircles x 180 / 2^31 (no rounding) *)
Theorem C17_lat_degrees_exact : forall s, is_i32 s -> lat_invalid (new_latitude s) = false ->
  B2R 53 1024 (lat_degrees (new_latitude s)) = (IZR s * 180 / 2 ^ 31)%R /\
  is_finite 53 1024 (lat_degrees (new_latitude s)) = true.
Proof. exact lat_degrees_exact. Qed.
Print Assumptions C17_lat_degrees_exact.

Theorem C17_lng_degrees_exact : forall s, is_i32 s -> lng_invalid (new_longitude s) = false ->
  B2R 53 1024 (lng_degrees (new_longitude s)) = (IZR s * 180 / 2 ^ 31)%R /\
  is_finite 53 1024 (lng_degrees (new_longitude s)) = true.
Proof. exact lng_degrees_exact. Qed.
Print Assumptions C17_lng_degrees_exact.

(* ... and NaN iff invalid *)
Theorem C17_lat_degrees_nan_iff : forall s, is_i32 s ->
  (is_nan 53 1024 (lat_degrees (new_latitude s)) = true <-> lat_invalid (new_latitude s) = true).
Proof. exact lat_degrees_nan_iff. Qed.
Print Assumptions C17_lat_degrees_nan_iff.

Theorem C17_lng_degrees_nan_iff : forall s, is_i32 s ->
  (is_nan 53 1024 (lng_degrees (new_longitude s)) = true <-> lng_invalid (new_longitude s) = true).
Proof. exact lng_degrees_nan_iff. Qed.
Print Assumptions C17_lng_degrees_nan_iff.

(* constructing from the degrees gives back the coordinate within one
   semicircle whenever the degrees lie strictly inside the legal range *)
Theorem C17_lat_deg_roundtrip : forall s, is_i32 s -> lat_invalid (new_latitude s) = false ->
  (-90 < B2R 53 1024 (lat_degrees (new_latitude s)) < 90)%R ->
  Z.abs (lat_semis (new_latitude_degrees (lat_degrees (new_latitude s))) - s) <= 1 /\
  lat_invalid (new_latitude_degrees (lat_degrees (new_latitude s))) = false.
Proof. exact lat_deg_roundtrip. Qed.
Print Assumptions C17_lat_deg_roundtrip.

Theorem C17_lng_deg_roundtrip : forall s, is_i32 s -> lng_invalid (new_longitude s) = false ->
  (-180 < B2R 53 1024 (lng_degrees (new_longitude s)) < 180)%R ->
  Z.abs (lng_semis (new_longitude_degrees (lng_degrees (new_longitude s))) - s) <= 1 /\
  lng_invalid (new_longitude_degrees (lng_degrees (new_longitude s))) = false.
Proof. exact lng_deg_roundtrip. Qed.
Print Assumptions C17_lng_deg_roundtrip.

(* stronger than asked: the round trip is exact (degToSemiFactor is rounded up
   by 44/2^60, the product leans away from zero by < 1/2, truncation restores s) *)
Theorem C17_lat_deg_roundtrip_exact : forall s, is_i32 s -> lat_invalid (new_latitude s) = false ->
  (-90 < B2R 53 1024 (lat_degrees (new_latitude s)) < 90)%R ->
  new_latitude_degrees (lat_degrees (new_latitude s)) = new_latitude s.
Proof. exact lat_deg_roundtrip_exact. Qed.
Print Assumptions C17_lat_deg_roundtrip_exact.

Theorem C17_lng_deg_roundtrip_exact : forall s, is_i32 s -> lng_invalid (new_longitude s) = false ->
  (-180 < B2R 53 1024 (lng_degrees (new_longitude s)) < 180)%R ->
  new_longitude_degrees (lng_degrees (new_longitude s)) = new_longitude s.
Proof. exact lng_deg_roundtrip_exact. Qed.
Print Assumptions C17_lng_deg_roundtrip_exact.

(* the hypotheses of the round trip are satisfiable *)
Example C17_roundtrip_hypotheses :
  is_i32 703539217 /\ lat_invalid (new_latitude 703539217) = false /\
  (-90 < B2R 53 1024 (lat_degrees (new_latitude 703539217)) < 90)%R /\
  lng_invalid (new_longitude (-2000000000)) = false /\
  (-180 < B2R 53 1024 (lng_degrees (new_longitude (-2000000000))) < 180)%R.
Proof. exact roundtrip_hypotheses. Qed.

(* the printed form, read back by an independent fixed-point reader
   (Spec/FixedPoint.v: [-]digits.ddddd -> (negative, n) standing for +-n/10^5),
   is within 2e-5 degrees of Degrees; invalid coordinates print "Invalid" *)
Theorem C17_lat_string_close : forall s, is_i32 s -> lat_invalid (new_latitude s) = false ->
  exists sn, parse_fixed5 (lat_string (new_latitude s)) = Some sn /\
             (Rabs (fixed_value sn - B2R 53 1024 (lat_degrees (new_latitude s))) <= 2 / 100000)%R.
Proof. exact lat_string_parse_close. Qed.
Print Assumptions C17_lat_string_close.

Theorem C17_lng_string_close : forall s, is_i32 s -> lng_invalid (new_longitude s) = false ->
  exists sn, parse_fixed5 (lng_string (new_longitude s)) = Some sn /\
             (Rabs (fixed_value sn - B2R 53 1024 (lng_degrees (new_longitude s))) <= 2 / 100000)%R.
Proof. exact lng_string_parse_close. Qed.
Print Assumptions C17_lng_string_close.

Theorem C17_lat_string_invalid : forall s, lat_invalid (new_latitude s) = true -> lat_string (new_latitude s) = "Invalid"%string.
Proof. exact lat_string_invalid. Qed.

Theorem C17_lng_string_invalid : forall s, lng_invalid (new_longitude s) = true -> lng_string (new_longitude s) = "Invalid"%string.
Proof. exact lng_string_invalid. Qed.

Example C17_coord_nonvacuous :
  is_i32 703539217 /\ lat_invalid (new_latitude 703539217) = false /\
  lat_string (new_latitude 703539217) = "58.96997"%string /\
  lat_semis (new_latitude_degrees (lat_degrees (new_latitude 703539217))) = 703539217 /\
  lng_string (new_longitude (- 2 ^ 31)) = "-180.00000"%string /\
  lng_string (new_longitude (2 ^ 23)) = "0.70312"%string /\
  lat_invalid (new_latitude (- 2 ^ 30)) = false /\ lat_invalid (new_latitude (2 ^ 30)) = true.
Proof. exact coord_examples. Qed.

(* ---- time: for every 32-bit second count ---- *)

(* encodeTime inverts decodeDateTime *)
Theorem C17_time_roundtrip : forall u, is_u32 u -> encode_time (decode_date_time u) = u.
Proof. exact time_roundtrip. Qed.
Print Assumptions C17_time_roundtrip.

Theorem C17_decode_injective : forall u v, is_u32 u -> is_u32 v ->
  decode_date_time u = decode_date_time v -> u = v.
Proof. exact decode_injective. Qed.
Print Assumptions C17_decode_injective.

(* the image is exactly u whole seconds after the FIT epoch, UTC *)
Theorem C17_decode_whole_seconds : forall u, is_u32 u -> decode_date_time u = mk_time u 0 None.
Proof. exact decode_whole_seconds. Qed.
Print Assumptions C17_decode_whole_seconds.

(* onto: every whole second a uint32 can count is decodeDateTime of its encoding *)
Theorem C17_decode_surjective : forall t, whole_second t ->
  is_u32 (encode_time t) /\ decode_date_time (encode_time t) = t.
Proof. exact decode_surjective. Qed.
Print Assumptions C17_decode_surjective.

Theorem C17_isbasetime_iff : forall u, is_u32 u -> (is_base_time (decode_date_time u) = true <-> u = 0).
Proof. exact isbasetime_iff. Qed.
Print Assumptions C17_isbasetime_iff.

(* Sub's saturation is unreachable on the image (and reachable elsewhere) *)
Theorem C17_sub_no_saturation : forall u, is_u32 u -> time_sub (mk_time u 0 None) time_base = u * second.
Proof. exact sub_no_saturation. Qed.
Print Assumptions C17_sub_no_saturation.

Example C17_time_nonvacuous :
  is_u32 1000000000 /\ encode_time (decode_date_time 1000000000) = 1000000000 /\
  is_u32 (2 ^ 32 - 1) /\ encode_time (decode_date_time (2 ^ 32 - 1)) = 2 ^ 32 - 1.
Proof. exact time_roundtrip_nonvacuous. Qed.
