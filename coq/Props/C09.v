(* C09 -- Concurrent use on independent inputs is race-free and equals sequential use.

   PARTIAL.  Model/Shared.v gives calls an interleaving semantics: a thread executes one call as a sequence of
   atomic steps over (its private state, the shared package-level accumulators); a schedule picks the thread
   that moves next.  A call that reaches no accumulating expansion is one private step (justified by
   C09_call_untouched: from ANY accumulator state such a call returns the fresh result and leaves the state as
   it was; the simulation behind it, Proofs/C08Decode.v, shows this at every intermediate decoder state); a call
   that reaches one loads and later stores the accumulators without synchronisation.  Nothing in the library
   orders two calls (no sync-typed package-level variable is used on these paths, C09_no_sync_global_used), so
   two accesses of different threads to a common accumulator, one of them a store, are a data race.

   FULL STATEMENT (refuted, known finding accum_race): for all calls on independent inputs and all schedules,
   races = [] and every call returns what it returns alone.  Proved under the exact side condition that no call
   reaches an accumulating expansion (compressed_speed_distance, cycles, compressed_accumulated_power in a
   record message); C09_race_refuted gives two decodes with a conflicting pair and a differing result,
   C09_race_without_result_difference a race that no result shows (cycles: mask 0).

   NOT modelled, hence not proved: the Go runtime and scheduler, the Go memory model, the race detector, the
   internals of the standard library (reflect, time, encoding/binary, sort), independence of the readers and
   writers passed in.  The race-detector run of the harness (c09) is a test, not a proof. *)
From Coq Require Import NArith List Bool String.
From FitV Require Import Model.IO Model.Header Model.Components Model.Route Model.Decode Model.Shared
  Gen.SharedState Proofs.C08History Proofs.C08Shared Proofs.C09Interleave.
Import ListNotations.

Theorem C09_noninterference : forall cs, Forall no_accumulated_source cs -> forall sched g, gwf g ->
  let x := run_concurrent sched cs g in
  (forall i o, nth_error (results x) i = Some (Some o) ->
     exists c, nth_error cs i = Some c /\ o = fst (run_call g c) /\ o = fresh c) /\
  races (trace x) = [] /\ trace x = [] /\ snd (fst x) = g /\
  (forall i, In i sched -> (i < List.length cs)%nat -> exists o, nth_error (results x) i = Some (Some o)).
Proof. exact noninterference. Qed.
Print Assumptions C09_noninterference.

(* the adequacy of the one-private-step abstraction *)
Theorem C09_call_untouched : forall c g, gwf g -> no_accumulated_source c -> run_call g c = (fresh c, g).
Proof. exact call_untouched. Qed.
Print Assumptions C09_call_untouched.

Theorem C09_race_refuted : exists c0 c1 sched,
  let x := run_concurrent sched [c0; c1] g_init in
  races (trace x) <> [] /\ all_returned x = true /\
  nth_error (results x) 1 <> Some (Some (fresh c1)) /\
  no_accumulated_sourceb c0 = false /\ no_accumulated_sourceb c1 = false.
Proof. exact race_refuted. Qed.
Print Assumptions C09_race_refuted.

Theorem C09_race_without_result_difference : exists c sched,
  let x := run_concurrent sched [c; c] g_init in
  List.length (races (trace x)) = 3%nat /\
  map res_distances (map Some (results x)) = [res_distances (Some (Some (fresh c))); res_distances (Some (Some (fresh c)))] /\
  no_distance_sourceb c = true /\ no_accumulated_sourceb c = false.
Proof. exact race_without_result_difference. Qed.

(* translator obligations shared with C08 *)
Theorem C09_written_globals_are_gstate : written_globals = map snd gstate_variables.
Proof. exact written_globals_are_gstate. Qed.
Theorem C09_no_sync_global_used : sync_globals_used = [].
Proof. exact no_sync_global_used. Qed.

Theorem C09_side_condition_decidable : forall c, no_accumulated_sourceb c = true <-> no_accumulated_source c.
Proof. exact no_accumulated_sourceb_spec. Qed.
Example C09_example :
  Forall no_accumulated_source [plain_call; plain_call; CEncode (new_file zero_header) false] /\
  all_returned (run_concurrent [2; 0; 1; 1; 0]%nat [plain_call; plain_call; CEncode (new_file zero_header) false] g_init) = true.
Proof. exact noninterference_example. Qed.
