(* C08 -- Decoding and encoding are pure: results do not depend on call history.

   Model: every entry point takes and returns the package-level accumulator state (Model/Decode.v, [gstate] of
   Model/Components.v); Model/Shared.v defines a call, what its caller observes ([obs]: error class, header,
   File(s), reader afterwards; for Encode the bytes and the File afterwards), a process ([run_history]: calls
   one after another) and the fresh process ([fresh c]: the call made first, from nil accumulators).

   FULL STATEMENT (refuted on the unchanged tree, known finding accum_history):
     forall cs, run_history g_init cs = map fresh cs.
   The component accumulators are package-level variables that the expansion of record messages reads and
   writes; a second decode of a file carrying compressed_speed_distance continues the first one's sum
   (C08_history_dependence_refuted, witness computed).  Proved instead:
   - the full statement under the exact side condition that no call reaches a compressed_speed_distance
     expansion (total_cycles / accumulated_power use accumulators of mask 0 and never show: C18);
   - unconditionally: outcome class, error, header, reader position, number of Files and every message that
     is not a record message never depend on the history;
   - Encode is a function of (File, byte order) alone, and the translator obligation that nothing else is
     shared: the package-level variables written on the six entry paths are exactly the three accumulators,
     no sync-typed variable is used, no map iteration order reaches an output (the defect repaired by f859285). *)
From Coq Require Import NArith List Bool String.
From FitV Require Import Model.IO Model.Components Model.Route Model.Decode Model.Encode Model.Shared
  Gen.SharedState Proofs.C08Decode Proofs.C08History Proofs.C08Shared.
Import ListNotations.

(* (1) one call, after any history that left the distance accumulator nil *)
Theorem C08_decode_history_free : forall c g, gwf g -> g_dist g = None -> no_distance_source c ->
  fst (run_call g c) = fresh c /\ g_dist (snd (run_call g c)) = None /\ gwf (snd (run_call g c)).
Proof. exact decode_history_free. Qed.
Print Assumptions C08_decode_history_free.

(* (2) every history of Decode / DecodeChained / CheckIntegrity / DecodeHeader / DecodeHeaderAndFileID / Encode
   calls: the k-th call returns what it returns when made first in a fresh process *)
Theorem C08_history_free : forall cs, Forall no_distance_source cs -> run_history g_init cs = map fresh cs.
Proof. exact history_free. Qed.
Print Assumptions C08_history_free.
Theorem C08_history_free_nth : forall cs k c, Forall no_distance_source cs -> nth_error cs k = Some c ->
  nth_error (run_history g_init cs) k = Some (fresh c).
Proof. exact history_free_nth. Qed.

(* unconditional part: what can differ from the fresh call is confined to record messages *)
Theorem C08_history_control_free : forall cs, Forall2 obs_sim (map fresh cs) (run_history g_init cs).
Proof. exact history_control_free. Qed.
Print Assumptions C08_history_control_free.

(* the underlying statement about the decoder: two runs from any two reachable accumulator states *)
Theorem C08_decode_rel : forall o md g1 g2 rd fuel, gwf g1 -> gwf g2 ->
  tout_rel (dres_rel g1 g2) (decode o md g1 rd fuel) (decode o md g2 rd fuel).
Proof. exact decode_rel. Qed.

(* (3) the full statement fails *)
Theorem C08_history_dependence_refuted :
  exists c, run_history g_init [c; c] <> map fresh [c; c] /\ no_distance_sourceb c = false.
Proof. exact history_dependence_refuted. Qed.
Print Assumptions C08_history_dependence_refuted.

(* (4) Encode: a function of the File and the byte order; it does not touch the accumulators *)
Theorem C08_encode_deterministic : forall f be g1 g2,
  fst (run_call g1 (CEncode f be)) = fst (run_call g2 (CEncode f be)) /\ snd (run_call g1 (CEncode f be)) = g1.
Proof. exact encode_deterministic. Qed.

(* translator obligations (Gen/SharedState.v is regenerated from the source on every check) *)
Theorem C08_written_globals_are_gstate : written_globals = map snd gstate_variables.
Proof. exact written_globals_are_gstate. Qed.
Theorem C08_no_sync_global_used : sync_globals_used = [].
Proof. exact no_sync_global_used. Qed.
Theorem C08_no_map_order_escapes : unordered_map_ranges = [].
Proof. exact no_map_order_escapes. Qed.
Theorem C08_writes_only_in_record_expansion :
  forallb (fun d => String.eqb (snd d) "(*fit.RecordMsg).expandComponents") written_detail = true.
Proof. exact writes_only_in_record_expansion. Qed.
Print Assumptions C08_written_globals_are_gstate.

(* the side conditions are decidable by running the model, and satisfiable: a file that decodes without error
   into two record messages (plain_call), and one whose records carry cycles (inside C08's domain although it
   uses an accumulator) *)
Theorem C08_side_condition_decidable : forall c, no_distance_sourceb c = true <-> no_distance_source c.
Proof. exact no_distance_sourceb_spec. Qed.
Example C08_example : no_distance_sourceb plain_call = true /\ obs_ok (fresh plain_call) = true /\
  List.length (record_distances (fresh plain_call)) = 2%nat /\
  no_distance_sourceb cycles_call = true /\ no_accumulated_sourceb cycles_call = false /\
  record_distances (fresh csd_call) = [50; 100]%N /\
  record_distances (fst (run_call (snd (run_call g_init csd_call)) csd_call)) = [4146; 4196]%N.
Proof. split; [|split; [|split; [|split; [|split; [|split]]]]]; vm_compute; reflexivity. Qed.
