(* C10 -- Framing: a decode consumes exactly one file, so chained files are independent.
   The buffered reader of reader.go is modelled by the concrete interpreter run_c (Model/IO.v: 4096-byte buffer,
   fill capped by limit - n, chunk schedule with empty reads, EOF or fault, data-with-EOF); run_a is the
   abstract interpreter over the plain byte list. Theorems hold for EVERY decoder program p. *)
From Coq Require Import NArith List Bool Arith.
From FitV Require Import Model.Crc Model.IO Proofs.IOSim.
Import ListNotations.

(* however reads are chunked, the buffered phase computes what the abstract byte-list semantics computes *)
Theorem C10_buffered_run_abstract : forall S E A (p : prog S E A) rd limit crc fuel s,
  length (rd_data rd) + length (rd_sched rd) < fuel ->
  observe (run_c p (start_c rd limit crc fuel) s) = observe (run_a p (start_a rd limit) s).
Proof. exact @buffered_run_abstract. Qed.
Print Assumptions C10_buffered_run_abstract.

Theorem C10_schedule_independent : forall S E A (p : prog S E A) data t sched1 sched2 ewd1 ewd2 pos1 pos2 limit crc fuel1 fuel2 s,
  length data + length sched1 < fuel1 -> length data + length sched2 < fuel2 ->
  observe (run_c p (start_c (mk_reader data sched1 t ewd1 pos1) limit crc fuel1) s) =
  observe (run_c p (start_c (mk_reader data sched2 t ewd2 pos2) limit crc fuel2) s).
Proof. exact @schedule_independent. Qed.

(* no program ever reads past the frame: at most [limit] bytes after the header, however it ends; the bytes read
   are accounted for exactly (consumed + buffered), and the checksum register covers exactly the bytes read *)
Theorem C10_never_past_frame : forall S E A (p : prog S E A) rd limit crc fuel s,
  length (rd_data rd) + length (rd_sched rd) < fuel ->
  match run_c p (start_c rd limit crc fuel) s with
  | ROk _ c' _ | RFail _ c' _ => rd_pos (c_rd c') <= rd_pos rd + limit /\
                                 rd_pos (c_rd c') = rd_pos rd + c_n c' + length (c_buf c') /\
                                 c_crc c' = crc_write crc (firstn (c_n c' + length (c_buf c')) (rd_data rd))
  | RIOErr e c' _ => rd_pos (c_rd c') = rd_pos rd + Nat.min limit (length (rd_data rd)) /\
                     e = err_of limit (rd_data rd) (rd_term rd)
  | _ => True
  end.
Proof. exact @never_past_frame. Qed.
Print Assumptions C10_never_past_frame.

(* PARTIAL: the raw stages around the buffered phase (io.ReadFull of the header and of the two CRC bytes,
   io.CopyN in CheckIntegrity) and hence consumed_exact = header size + data size + 2 for whole entry points,
   chained_concat and header_fileid_agree are covered by the harness (counting readers, all partition families,
   concatenations) against the model's concrete entry points; the theorem above is the part that needs a proof
   (unbounded schedules) and holds for every decoder program at once. *)
