(* C10 -- Framing: a decode consumes exactly one file, so chained files are independent.
   Full statement (properties.jsonl): a successful Decode or CheckIntegrity consumes exactly header size + data
   size + 2 bytes from the reader, and no entry point ever reads past that frame, however reads are chunked; hence
   DecodeChained over a concatenation of valid files returns one File per input, each equal to decoding that file
   alone, and DecodeHeader and DecodeHeaderAndFileID return the same header and file_id that Decode reports.

   Model: Model/IO.v (reader oracle: data, chunk schedule with empty reads, EOF or fault, data-with-EOF; io.ReadFull,
   io.CopyN; the 4096-byte buffer with fill capped by limit - n) and Model/Decode.v (decodeHeader, checkCRC, decode in
   its four modes, the five entry points, DecodeChained).  [wf rd fuel] = the fuel exceeds data + schedule length
   (fuel only bounds the loops; no theorem below depends on its value, and none runs out of it).
   [solo bs] = a reader holding exactly bs that returns everything in one Read and then a clean EOF. *)
From Coq Require Import NArith List Bool Arith.
From FitV Require Import Model.Values Model.Crc Model.IO Model.Header Model.Route Model.Components Model.Decode
  Spec.FitSyntax Spec.RouteSpec Gen.Consts
  Proofs.IOSim Proofs.C10IO Proofs.C10Frame Proofs.C11Cut Proofs.C10Examples
  Proofs.StreamDenoteDefs Proofs.StreamDenoteLift Proofs.StreamDenoteMain Proofs.StreamDenoteFrame Proofs.StreamDenoteDecode
  Proofs.StreamDenoteWitness Proofs.C11Partial Proofs.C11PartialExamples.
Import ListNotations.

(* ---- the buffered phase, for EVERY decoder program ---- *)

(* however reads are chunked, the buffered phase computes what the abstract byte-list semantics computes *)
Theorem C10_buffered_run_abstract : forall S E A (p : prog S E A) rd limit crc fuel s,
  length (rd_data rd) + length (rd_sched rd) < fuel ->
  observe (run_c p (start_c rd limit crc fuel) s) = observe (run_a p (start_a rd limit) s).
Proof. exact @buffered_run_abstract. Qed.
Print Assumptions C10_buffered_run_abstract.

Theorem C10_schedule_independent : forall S E A (p : prog S E A) data t sched1 sched2 ewd1 ewd2 pos1 pos2 limit crc fuel1 fuel2 s,
  length data + length sched1 < fuel1 -> length data + length sched2 < fuel2 ->
  observe (run_c p (start_c (mk_reader data sched1 t ewd1 pos1) limit crc fuel1) s) =
  observe (run_c p (start_c (mk_reader data sched2 t ewd2 pos2) limit crc fuel2) s).
Proof. exact @schedule_independent. Qed.

(* no program ever reads past the frame: at most [limit] bytes after the header, however it ends; the bytes read
   are accounted for exactly (consumed + buffered), and the checksum register covers exactly the bytes read *)
Theorem C10_never_past_frame : forall S E A (p : prog S E A) rd limit crc fuel s,
  length (rd_data rd) + length (rd_sched rd) < fuel ->
  match run_c p (start_c rd limit crc fuel) s with
  | ROk _ c' _ | RFail _ c' _ => rd_pos (c_rd c') <= rd_pos rd + limit /\
                                 rd_pos (c_rd c') = rd_pos rd + c_n c' + length (c_buf c') /\
                                 c_crc c' = crc_write crc (firstn (c_n c' + length (c_buf c')) (rd_data rd))
  | RIOErr e c' _ => rd_pos (c_rd c') = rd_pos rd + Nat.min limit (length (rd_data rd)) /\
                     e = err_of limit (rd_data rd) (rd_term rd)
  | _ => True
  end.
Proof. exact @never_past_frame. Qed.
Print Assumptions C10_never_past_frame.

(* ---- the raw stages: io.ReadFull (header, checksum bytes) and io.CopyN (CheckIntegrity) ---- *)

(* with enough fuel they return, deliver the first n bytes of the data (all of it, with the error class of the
   terminal condition, when fewer are left), and advance the reader by exactly that, whatever the schedule *)
Theorem C10_io_read_full_spec : forall fuel rd n, wf rd fuel ->
  exists rd', io_read_full fuel rd n [] = Done (firstn n (rd_data rd), rf_err n (rd_data rd) (rd_term rd), rd') /\ adv rd rd' n.
Proof. exact io_read_full_spec. Qed.

Theorem C10_io_copy_n_spec : forall fuel rd n, wf rd fuel ->
  exists rd', io_copy_n fuel rd n [] = Done (firstn n (rd_data rd), cp_err n (rd_data rd) (rd_term rd), rd') /\ adv rd rd' n.
Proof. exact io_copy_n_spec. Qed.
Print Assumptions C10_io_read_full_spec.

(* ---- the whole entry points ---- *)

(* consumed_exact: a successful Decode / CheckIntegrity takes exactly header size + data size + 2 bytes *)
Theorem C10_consumed_exact : forall o md g rd fuel r, wf rd fuel -> md = MFull \/ md = MCrcOnly ->
  decode o md g rd fuel = TDone r -> dr_err r = None ->
  rd_pos (dr_rd r) = rd_pos rd + N.to_nat (h_size (dr_hdr r)) + N.to_nat (h_dsize (dr_hdr r)) + 2.
Proof. exact decode_consumed_exact. Qed.
Print Assumptions C10_consumed_exact.

Theorem C10_Decode_consumed_exact : forall o g rd fuel r, wf rd fuel -> entry_Decode o g rd fuel = TDone r -> dr_err r = None ->
  rd_pos (dr_rd r) = rd_pos rd + N.to_nat (h_size (dr_hdr r)) + N.to_nat (h_dsize (dr_hdr r)) + 2.
Proof. exact Decode_consumed_exact. Qed.

Theorem C10_CheckIntegrity_consumed_exact : forall g rd fuel r, wf rd fuel ->
  entry_CheckIntegrity false g rd fuel = TDone r -> dr_err r = None ->
  rd_pos (dr_rd r) = rd_pos rd + N.to_nat (h_size (dr_hdr r)) + N.to_nat (h_dsize (dr_hdr r)) + 2.
Proof. exact CheckIntegrity_consumed_exact. Qed.

Theorem C10_DecodeHeader_consumed_exact : forall g rd fuel r, wf rd fuel -> entry_DecodeHeader g rd fuel = TDone r -> dr_err r = None ->
  rd_pos (dr_rd r) = rd_pos rd + N.to_nat (h_size (dr_hdr r)).
Proof. exact DecodeHeader_consumed_exact. Qed.

(* never past the frame, for every mode (all five entry points are instances of decode) and every outcome,
   failing ones included: the reader ends no further than the frame the header announces (no further than the
   header for the header-only mode; Nat.max 1 accounts for the size byte itself when it is not a header size);
   it is never rewound; the call never runs out of fuel *)
Theorem C10_decode_never_past_frame : forall o md g rd fuel, wf rd fuel ->
  match decode o md g rd fuel with
  | TDone r =>
      rd_pos rd <= rd_pos (dr_rd r) /\
      rd_pos (dr_rd r) <= rd_pos rd + length (rd_data rd) /\
      rd_pos (dr_rd r) <= rd_pos rd + Nat.max 1 (N.to_nat (h_size (dr_hdr r))) + N.to_nat (h_dsize (dr_hdr r)) + 2 /\
      (md = MHeaderOnly -> rd_pos (dr_rd r) <= rd_pos rd + Nat.max 1 (N.to_nat (h_size (dr_hdr r)))) /\
      wf (dr_rd r) fuel /\ rd_term (dr_rd r) = rd_term rd /\ rd_ewd (dr_rd r) = rd_ewd rd
  | TPanic _ => True
  | TOutOfFuel => False
  end.
Proof. exact decode_never_past_frame. Qed.
Print Assumptions C10_decode_never_past_frame.

(* schedule independence of the whole decode: error, header, File, accumulator state and quirk tags never depend
   on the chunking; bytes consumed and bytes left agree whenever the call succeeds outside the file_id-only mode
   (in that mode, and after a decoder-level failure, how far the 4096-byte buffer read ahead inside the frame
   does depend on the chunking: that is what the code does, and why only "never past the frame" is claimed there) *)
Theorem C10_decode_schedule_independent : forall o md g data t sched1 sched2 ewd1 ewd2 pos1 pos2 fuel1 fuel2,
  length data + length sched1 < fuel1 -> length data + length sched2 < fuel2 ->
  same_result pos1 pos2 md (decode o md g (mk_reader data sched1 t ewd1 pos1) fuel1)
                           (decode o md g (mk_reader data sched2 t ewd2 pos2) fuel2).
Proof. exact decode_schedule_independent. Qed.
Print Assumptions C10_decode_schedule_independent.

Theorem C10_chained_schedule_independent : forall o g data t sched1 sched2 ewd1 ewd2 pos1 pos2 fuel1 fuel2,
  length data + length sched1 < fuel1 -> length data + length sched2 < fuel2 ->
  match entry_DecodeChained o g (mk_reader data sched1 t ewd1 pos1) fuel1,
        entry_DecodeChained o g (mk_reader data sched2 t ewd2 pos2) fuel2 with
  | TDone c1, TDone c2 => cr_err c1 = cr_err c2 /\ cr_files c1 = cr_files c2 /\ cr_g c1 = cr_g c2 /\ cr_quirks c1 = cr_quirks c2
  | TPanic w1, TPanic w2 => w1 = w2
  | TOutOfFuel, TOutOfFuel => True
  | _, _ => False
  end.
Proof. exact chained_schedule_independent. Qed.

(* frame locality: what follows a file that decodes alone (and whatever the reader answers after it) is never
   looked at: same results, exactly |bs| bytes taken, the rest left in the reader *)
Theorem C10_frame_local : forall o md g bs r, md <> MFileIdOnly ->
  decode o md g (solo bs) (solo_fuel bs) = TDone r -> dr_err r = None -> rd_data (dr_rd r) = [] ->
  forall tl rd fuel, rd_data rd = bs ++ tl -> wf rd fuel ->
  exists r', decode o md g rd fuel = TDone r' /\ dr_err r' = None /\ dr_hdr r' = dr_hdr r /\ dr_file r' = dr_file r /\
             dr_g r' = dr_g r /\ dr_quirks r' = dr_quirks r /\
             rd_pos (dr_rd r') = rd_pos rd + length bs /\ rd_data (dr_rd r') = tl.
Proof. exact decode_frame_local. Qed.
Print Assumptions C10_frame_local.

(* chained_concat.  [chain_ok o g bss fs g' q] (Proofs/C10Frame.v) says: decoding the byte strings bss one after the
   other, each ALONE, succeeds on each and consumes each completely, where the first decode starts in the package-
   level accumulator state g, every decode starts in the state the previous one left (exactly what happens to the
   process-wide accumulators of the library), the Files returned are fs, the final state is g'.  Then DecodeChained
   on ANY reader holding the concatenation (any chunking, empty reads, data-with-EOF) returns exactly fs, no error,
   ends in g' and has consumed the whole concatenation. *)
Theorem C10_chained_concat : forall o g bss fs g' q, chain_ok o g bss fs g' q -> bss <> [] ->
  forall rd fuel, rd_data rd = concat bss -> rd_term rd = TEOF -> wf rd fuel ->
  exists cr, entry_DecodeChained o g rd fuel = TDone cr /\ cr_err cr = None /\ cr_files cr = fs /\ cr_g cr = g' /\
             cr_quirks cr = q /\ rd_pos (cr_rd cr) = rd_pos rd + length (concat bss).
Proof. exact chained_concat. Qed.
Print Assumptions C10_chained_concat.

(* header agreement: every mode (DecodeHeader, DecodeHeaderAndFileID, CheckIntegrity, Decode), under any options,
   accumulator state and chunking, reports the same header for the same bytes *)
Theorem C10_header_agree : forall o1 o2 md1 md2 g1 g2 rd1 rd2 fuel1 fuel2 r1 r2, wf rd1 fuel1 -> wf rd2 fuel2 ->
  rd_data rd1 = rd_data rd2 -> rd_term rd1 = rd_term rd2 ->
  decode o1 md1 g1 rd1 fuel1 = TDone r1 -> decode o2 md2 g2 rd2 fuel2 = TDone r2 ->
  dr_hdr r1 = dr_hdr r2.
Proof. exact header_agree. Qed.
Print Assumptions C10_header_agree.

(* the hypotheses are satisfiable: a concrete 25-byte file decodes alone; two of them form a chain; the chained decode
   of their concatenation read one byte at a time returns two Files after 50 bytes *)
Example C10_example_file : exists r, decode no_opts MFull g_init (solo ex_file) (solo_fuel ex_file) = TDone r /\
  dr_err r = None /\ rd_data (dr_rd r) = [] /\ rd_pos (dr_rd r) = 25 /\ dr_g r = g_init.
Proof. exact ex_file_decodes. Qed.
Example C10_example_chain : exists fs q, chain_ok no_opts g_init [ex_file; ex_file] fs g_init q /\ length fs = 2.
Proof. exact ex_chain. Qed.
Example C10_example_chained : exists cr,
  entry_DecodeChained no_opts g_init (mk_reader (ex_file ++ ex_file) (repeat 1 50) TEOF true 0) 120 = TDone cr /\
  cr_err cr = None /\ length (cr_files cr) = 2 /\ rd_pos (cr_rd cr) = 50.
Proof. exact ex_chained_concat. Qed.

(* fileid_agree.  The domain is that of Decode_denote (Proofs/StreamDenoteDecode.v): a well-formed header h announcing
   exactly the bytes of the record list rs, rs serialisable (stream_wf), beginning with the file_id definition and its
   data record, accepted by the reference semantics (denote rs = Some ss1), of a file type with a container
   (start_file).  Side condition [no_file_id (tl (ss_msgs ss1))]: the only file_id message of the stream is the leading
   one.  Then DecodeHeaderAndFileID and Decode, each through any reader (any chunking, anything after the file), both
   succeed, report the header h, and the FileId slot (slot 0 of the File) holds the same message. *)
Theorem C10_fileid_agree : forall o g rdD fuelD rdF fuelF h rs ss1 f2 g1 extraD extraF,
  header_wf h -> h_dsize h = N.of_nat (List.length (ser_records rs)) ->
  starts_with_file_id rs = true -> stream_wf rs = true -> denote rs = Some ss1 ->
  start_file h g (hd dummy_msg (ss_msgs ss1)) = Some (f2, g1) ->
  no_file_id (List.tl (ss_msgs ss1)) = true ->
  rd_data rdD = fit_file h rs ++ extraD -> wf rdD fuelD ->
  rd_data rdF = fit_file h rs ++ extraF -> wf rdF fuelF ->
  exists rD rF fD fF,
    entry_Decode o g rdD fuelD = TDone rD /\ entry_DecodeHeaderAndFileID g rdF fuelF = TDone rF /\
    dr_err rD = None /\ dr_err rF = None /\ dr_hdr rD = h /\ dr_hdr rF = h /\
    dr_file rD = Some fD /\ dr_file rF = Some fF /\
    nth 0 (f_slots fF) [] = nth 0 (f_slots fD) [] /\ f_header fF = f_header fD.
Proof. exact fileid_agree. Qed.
Print Assumptions C10_fileid_agree.

(* the side condition is necessary: with a second file_id data record (type 4, then type 2) both calls succeed,
   DecodeHeaderAndFileID reports the first file_id message and Decode the last one (File.add overwrites the FileId
   field: the finding recorded under C03) *)
Theorem C10_fileid_agree_refuted_without_side_condition :
  exists m1 m2, slot0_of (entry_DecodeHeaderAndFileID g_init (solo two_fid_file) (solo_fuel two_fid_file)) = Some [m1] /\
                slot0_of (entry_Decode no_opts g_init (solo two_fid_file) (solo_fuel two_fid_file)) = Some [m2] /\
                m1 <> m2.
Proof. exact two_file_ids_disagree. Qed.

(* the domain and the side condition are satisfiable (a stream with three messages, one file_id) *)
Example C10_example_fileid_domain :
  header_wf ok_hdr /\ h_dsize ok_hdr = N.of_nat (List.length (ser_records ok_stream)) /\
  starts_with_file_id ok_stream = true /\ stream_wf ok_stream = true /\
  exists ss f2 g1, denote ok_stream = Some ss /\ start_file ok_hdr g_init (hd dummy_msg (ss_msgs ss)) = Some (f2, g1) /\
                   no_file_id (List.tl (ss_msgs ss)) = true /\ (3 <= List.length (ss_msgs ss))%nat.
Proof. exact ex_domain. Qed.

(* No PARTIAL item is left in this file.  What remains outside Coq: the theorems speak about the model; that
   reader.go/header.go behave as the model is established by the lock-step correspondence run (bytes consumed from a
   counting reader, Files, header, error class) on every input x partition x entry point of the harness.
   The reserved-bits and container side conditions of the Decode_denote domain are explained in
   docs/notes-C02-stream.md. *)
