(* C16 -- Decode options only add information; unknown-item counts are exact. *)
From Coq Require Import NArith ZArith List Bool.
From Coq Require Import Sorting.Sorted Sorting.Permutation.
From FitV Require Import Model.Values Model.Route Model.Decode Proofs.DecodeLemmas.
Import ListNotations.
Local Open Scope N_scope.

(* the deferred handlers only fill the two lists: header, CRC, messages and file type are untouched, and a list
   that was not requested stays nil -- also when decoding failed part-way (decode finalizes on every exit) *)
Theorem C16_finalize_only_adds_lists : forall o s,
  f_header (finalize_unknown o s) = f_header (ds_file s) /\ f_crc (finalize_unknown o s) = f_crc (ds_file s) /\
  f_slots (finalize_unknown o s) = f_slots (ds_file s) /\ f_inited (finalize_unknown o s) = f_inited (ds_file s) /\
  (o_unkm o = false -> f_unkm (finalize_unknown o s) = f_unkm (ds_file s)) /\
  (o_unkf o = false -> f_unkf (finalize_unknown o s) = f_unkf (ds_file s)).
Proof. exact finalize_only_adds_lists. Qed.
Print Assumptions C16_finalize_only_adds_lists.

(* both lists are the counters, reordered: sorted, nothing lost, nothing invented *)
Theorem C16_unknown_messages_sorted : forall l, Sorted le_unkm (sort_unkm l) /\ Permutation l (sort_unkm l).
Proof. exact unknown_messages_sorted. Qed.
Theorem C16_unknown_fields_perm : forall l, Permutation l (sort_unkf l).
Proof. exact unknown_fields_perm. Qed.

(* counting: each counted occurrence adds exactly one to its own key and leaves every other key alone *)
Theorem C16_bump1_count : forall k k' l, count_of1 k' (bump1 k l) = if k' =? k then count_of1 k' l + 1 else count_of1 k' l.
Proof. exact bump1_count. Qed.

(* PARTIAL: opts_invisible (the decoded messages, the error and the bytes consumed do not depend on the options,
   for every stream and reader) and the exactness of the counts against the record list are covered by the
   harness: every stream is decoded under all 8 option sets and compared, and the counts are compared with the
   extracted reference semantics. Proved here: the counters are write-only bookkeeping at finalization. *)
Example C16_example : sort_unkm [(300, 2); (22, 1)] = [(22, 1); (300, 2)].
Proof. reflexivity. Qed.
