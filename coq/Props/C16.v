(* C16 -- Decode options only add information; unknown-item counts are exact. *)
From Coq Require Import NArith ZArith List Bool.
From Coq Require Import Sorting.Sorted Sorting.Permutation.
From FitV Require Import Model.Values Model.IO Model.Header Model.Route Model.Components Model.Decode Proofs.DecodeLemmas
  Spec.FitSyntax Spec.RouteSpec Proofs.StreamDenoteDefs Proofs.StreamDenoteLift Proofs.StreamDenoteMain Proofs.StreamDenoteCor
  Proofs.StreamDenoteOpts Proofs.StreamDenoteFail Proofs.StreamDenoteFrame Proofs.StreamDenoteFailDecode.
Import ListNotations.
Local Open Scope N_scope.

(* the deferred handlers only fill the two lists: header, CRC, messages and file type are untouched, and a list
   that was not requested stays nil -- also when decoding failed part-way (decode finalizes on every exit) *)
Theorem C16_finalize_only_adds_lists : forall o s,
  f_header (finalize_unknown o s) = f_header (ds_file s) /\ f_crc (finalize_unknown o s) = f_crc (ds_file s) /\
  f_slots (finalize_unknown o s) = f_slots (ds_file s) /\ f_inited (finalize_unknown o s) = f_inited (ds_file s) /\
  (o_unkm o = false -> f_unkm (finalize_unknown o s) = f_unkm (ds_file s)) /\
  (o_unkf o = false -> f_unkf (finalize_unknown o s) = f_unkf (ds_file s)).
Proof. exact finalize_only_adds_lists. Qed.
Print Assumptions C16_finalize_only_adds_lists.

(* both lists are the counters, reordered: sorted, nothing lost, nothing invented *)
Theorem C16_unknown_messages_sorted : forall l, Sorted le_unkm (sort_unkm l) /\ Permutation l (sort_unkm l).
Proof. exact unknown_messages_sorted. Qed.
Theorem C16_unknown_fields_perm : forall l, Permutation l (sort_unkf l).
Proof. exact unknown_fields_perm. Qed.

(* counting: each counted occurrence adds exactly one to its own key and leaves every other key alone *)
Theorem C16_bump1_count : forall k k' l, count_of1 k' (bump1 k l) = if k' =? k then count_of1 k' l + 1 else count_of1 k' l.
Proof. exact bump1_count. Qed.

(* ---------------------------------------------------------------------------------------------------------
   opts_invisible, for EVERY input (arbitrary bytes, any reader oracle, success or failure): the two runs are
   related by a simulation "equal except ds_unkf / ds_unkm" (Proofs/StreamDenoteOpts.v: psim, sound for both the
   abstract and the buffered interpreter).  [project] keeps error, header, File without the two lists, the reader
   after the call (rd_pos = bytes consumed), accumulators and the tag list dr_quirks (always empty since both
   C12 time defects are repaired). *)
Theorem C16_opts_invisible : forall o md g rd fuel,
  project (decode o md g rd fuel) = project (decode no_opts md g rd fuel).
Proof. exact opts_invisible. Qed.
Print Assumptions C16_opts_invisible.
Theorem C16_opts_invisible_any_two : forall o o' md g rd fuel,
  project (decode o md g rd fuel) = project (decode o' md g rd fuel).
Proof. exact opts_invisible2. Qed.
Theorem C16_opts_invisible_DecodeChained : forall o g rd fuel,
  project_chain (entry_DecodeChained o g rd fuel) = project_chain (entry_DecodeChained no_opts g rd fuel).
Proof. exact opts_invisible_DecodeChained. Qed.
Print Assumptions C16_opts_invisible_DecodeChained.
(* the record loop alone, on the abstract interpreter, from any pair of related states *)
Theorem C16_records_opts_invisible : forall o fuel x s s', eqv s s' ->
  rsim (run_a (decode_file_data o fuel) x s) (run_a (decode_file_data no_opts fuel) x s').
Proof. exact records_opts_invisible_abstract. Qed.

(* unknown_counts_exact (success case): on every stream in the domain of C02_decode_denote (every serialisable
   stream the reference semantics accepts that starts with file_id and has a hosted file type; no time side
   condition) the two lists the File reports are the reference counts (records of each unknown message; occurrences
   of each unlisted field of known messages), sorted *)
Theorem C16_unknown_counts_exact : forall o h g rs ss1 f2 g1 tl t,
  starts_with_file_id rs = true -> stream_wf rs = true -> denote rs = Some ss1 ->
  start_file h g (hd dummy_msg (ss_msgs ss1)) = Some (f2, g1) ->
  let L := List.length (ser_records rs) in
  exists s1,
    run_a (data_prog o false (S L)) (mk_ast (ser_records rs ++ tl) t 0 L) (init_dstate (new_file h) g) =
      ROk tt (mk_ast tl t L L) s1 /\
    (o_unkm o = true -> f_unkm (finalize_unknown o s1) = Some (sorted_unkm ss1)) /\
    (o_unkf o = true -> f_unkf (finalize_unknown o s1) = Some (sorted_unkf ss1)).
Proof. exact unknown_counts_exact. Qed.
Print Assumptions C16_unknown_counts_exact.
(* (the entry-point form, through any reader: the two conjuncts on f_unkm / f_unkf of C02_decode_denote) *)

(* the options do change the counters: the simulation relation is not vacuous *)
Example C16_counters_differ_example :
  match run_a (decode_file_data (mk_dopts false true true) 3)
              (mk_ast [0x40; 0; 0; 0x34; 0xFF; 1; 7; 1; 2; 0; 9] TEOF 0 11) (init_dstate (new_file zero_header) g_init),
        run_a (decode_file_data no_opts 3)
              (mk_ast [0x40; 0; 0; 0x34; 0xFF; 1; 7; 1; 2; 0; 9] TEOF 0 11) (init_dstate (new_file zero_header) g_init) with
  | ROk _ x s, ROk _ x' s' => ds_unkm s = [(0xFF34, 1)] /\ ds_unkm s' = [] /\ a_n x = 11%nat /\ a_n x' = 11%nat
  | _, _ => False
  end.
Proof. vm_compute. repeat split; reflexivity. Qed.

(* ---------------------------------------------------------------------------------------------------------
   counts_on_failure.  [post Q r]: Q holds of the decoder state returned with the outcome r, whether success, decoder
   error or I/O error (that state is what decode hands to finalize_unknown).  le1 / le2: count for count.
   (1) ANY input, ANY state, one record: the counters never decrease and grow by at most the contribution of the
   definition in the slot the header byte addresses: one bump of its message for unkm, bumps of a PREFIX of its
   unlisted field numbers for unkf; nothing for definition records *)
Theorem C16_record_counts : forall o x s,
  post (fun s' =>
          grows s s' /\
          (cs (ds_unkm s) (ds_unkf s) s' \/
           exists dm, hdr_slot (hd 0 (a_rest x)) s = Some dm /\
             (ds_unkm s' = ds_unkm s \/ ds_unkm s' = bump1 (dm_gmn dm) (ds_unkm s)) /\
             exists ks, prefix ks (unlisted dm) /\
                        ds_unkf s' = fold_left (fun acc k => bump2 (dm_gmn dm, k) acc) ks (ds_unkf s)))
       (run_a (parse_record o) x s).
Proof. exact record_counts. Qed.
Print Assumptions C16_record_counts.
(* (2) ANY input: over the whole record loop the counters only grow *)
Theorem C16_loop_grows : forall o fuel x s, post (grows s) (run_a (decode_file_data o fuel) x s).
Proof. exact loop_grows. Qed.
(* (3) a well-formed prefix rs followed by ARBITRARY bytes: however the run ends, the counters are at least the
   reference counts of the completed records *)
Theorem C16_counts_on_failure_lower : forall rs o pre fb gb ft s0 ss0 ss1 junk t n lim fuel,
  Inv o pre fb gb ft s0 ss0 ->
  stream_wf rs = true -> denote_from ss0 rs = Some ss1 ->
  (n + List.length (ser_records rs) <= lim)%nat ->
  post (fun sf => (o_unkm o = true -> le1 (ss_unkm ss1) (ds_unkm sf)) /\
                  (o_unkf o = true -> le2 (ss_unkf ss1) (ds_unkf sf)))
       (run_a (decode_file_data o fuel) (mk_ast (ser_records rs ++ junk) t n lim) s0).
Proof. exact counts_on_failure_lower. Qed.
(* (4) a well-formed stream cut inside record r (strict prefix cut of its bytes): the counters lie between the reference
   counts of the completed records and those including the record in flight ... *)
Theorem C16_counts_on_failure_truncated : forall rs r cut rem o pre fb gb ft s0 ss0 ss1 ss2 t n lim fuel,
  Inv o pre fb gb ft s0 ss0 ->
  stream_wf rs = true -> denote_from ss0 rs = Some ss1 ->
  rec_wf r = true -> denote_record ss1 r = Some ss2 ->
  ser_record r = cut ++ rem -> rem <> [] ->
  (n + List.length (ser_records rs) <= lim)%nat ->
  post (fun sf =>
          ((o_unkm o = true -> le1 (ss_unkm ss1) (ds_unkm sf)) /\ (o_unkf o = true -> le2 (ss_unkf ss1) (ds_unkf sf))) /\
          ((o_unkm o = true -> le1 (ds_unkm sf) (ss_unkm ss2)) /\ (o_unkf o = true -> le2 (ds_unkf sf) (ss_unkf ss2))))
       (run_a (decode_file_data o fuel) (mk_ast (ser_records rs ++ cut) t n lim) s0).
Proof. exact counts_on_failure_truncated. Qed.
Print Assumptions C16_counts_on_failure_truncated.
(* ... the run then ends with an I/O error (or with success if the data size says the data ends there), never with a
   decoder error or a panic ... *)
Theorem C16_truncated_outcome : forall rs r cut rem o pre fb gb ft s0 ss0 ss1 ss2 t n lim fuel,
  Inv o pre fb gb ft s0 ss0 ->
  stream_wf rs = true -> denote_from ss0 rs = Some ss1 ->
  rec_wf r = true -> denote_record ss1 r = Some ss2 ->
  ser_record r = cut ++ rem -> rem <> [] ->
  (n + List.length (ser_records rs) <= lim)%nat -> (List.length rs < fuel)%nat ->
  match run_a (decode_file_data o fuel) (mk_ast (ser_records rs ++ cut) t n lim) s0 with
  | ROk _ _ _ => (n + List.length (ser_records rs) = lim)%nat
  | RIOErr _ _ _ => (n + List.length (ser_records rs) < lim)%nat
  | _ => False
  end.
Proof. exact truncated_outcome. Qed.
(* ... and the same for the lists the File reports (finalize_unknown on the returned state; sorting keeps every count
   because keys are distinct) *)
Theorem C16_counts_on_failure_file : forall rs r cut rem o pre fb gb ft s0 ss0 ss1 ss2 t n lim fuel,
  Inv o pre fb gb ft s0 ss0 -> distinct_keys s0 ->
  stream_wf rs = true -> denote_from ss0 rs = Some ss1 ->
  rec_wf r = true -> denote_record ss1 r = Some ss2 ->
  ser_record r = cut ++ rem -> rem <> [] ->
  (n + List.length (ser_records rs) <= lim)%nat ->
  post (fun sf =>
          (o_unkm o = true ->
           exists lm, f_unkm (finalize_unknown o sf) = Some lm /\
                      forall k, cnt1 k (ss_unkm ss1) <= cnt1 k lm <= cnt1 k (ss_unkm ss2)) /\
          (o_unkf o = true ->
           exists lf, f_unkf (finalize_unknown o sf) = Some lf /\
                      forall m k, cnt2 m k (ss_unkf ss1) <= cnt2 m k lf <= cnt2 m k (ss_unkf ss2)))
       (run_a (decode_file_data o fuel) (mk_ast (ser_records rs ++ cut) t n lim) s0).
Proof. exact counts_on_failure_file. Qed.
Print Assumptions C16_counts_on_failure_file.

(* (5) the entry point: Decode on a file cut inside record r (the header promises more data than the reader delivers),
   through any reader oracle: an I/O error (unexpected EOF, or the reader's fault), and the lists in the partial File
   returned with it lie, count for count, between the reference counts of the completed records and those including
   the record in flight *)
Theorem C16_Decode_counts_on_failure :
  forall o g rd fuel h l be fds (devflag : bool) (devs : list (N * N * N)) pay dev rest r cut rem ss1 ss2 f2 g1,
  let rs := RDef l be Gen.Consts.c_MesgNumFileId fds devflag devs :: RData l pay dev :: rest in
  header_wf h ->
  rd_data rd = hdr_bytes h ++ ser_records rs ++ cut ->
  (List.length (ser_records rs ++ cut) < N.to_nat (h_dsize h))%nat ->
  stream_wf rs = true -> denote rs = Some ss1 ->
  start_file h g (hd dummy_msg (ss_msgs ss1)) = Some (f2, g1) ->
  rec_wf r = true -> denote_record ss1 r = Some ss2 ->
  ser_record r = cut ++ rem -> rem <> [] ->
  (List.length (rd_data rd) + List.length (rd_sched rd) < fuel)%nat ->
  exists e file' rd' g' q,
    entry_Decode o g rd fuel = TDone (mk_dres (Some (EIO e)) h (Some file') rd' g' q) /\
    (o_unkm o = true ->
     exists lm, f_unkm file' = Some lm /\ forall k, cnt1 k (ss_unkm ss1) <= cnt1 k lm <= cnt1 k (ss_unkm ss2)) /\
    (o_unkf o = true ->
     exists lf, f_unkf file' = Some lf /\ forall m k, cnt2 m k (ss_unkf ss1) <= cnt2 m k lf <= cnt2 m k (ss_unkf ss2)).
Proof. exact Decode_counts_on_failure. Qed.
Print Assumptions C16_Decode_counts_on_failure.

(* PARTIAL: for ill-formed tails (not a truncation of a well-formed stream) the bound is (1)-(3): at least the counts of
   the completed records, at most one record's contribution per parsed record; the entry-point form is written out for
   truncation only. *)
Example C16_example : sort_unkm [(300, 2); (22, 1)] = [(22, 1); (300, 2)].
Proof. reflexivity. Qed.
