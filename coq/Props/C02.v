(* C02 -- Decoded field values equal the values carried on the wire.
   Reference semantics: Spec/FitSyntax.v (denote), written from the protocol rules independently of the decoder
   model. *)
From Coq Require Import NArith ZArith List Bool.
From FitV Require Import Model.Values Model.Bytes Model.Base Model.Profile Model.Decode Spec.FitSyntax Spec.ProfileWf
  Proofs.ProfileProofs Proofs.DecodeLemmas.
Import ListNotations.
Local Open Scope N_scope.

(* every field that was not present holds its type's invalid value: a data record starts from the
   all-invalid message, which the constructor fills with the invalid value of each entry's type (C15) *)
Theorem C02_absent_fields_invalid : forall gmn fdn pf, get_field gmn fdn = Some pf ->
  exists m, mesg_all_invalid gmn = Some m /\ nth_error (m_fields m) (pf_sindex pf) = Some (invalid_of_fit (pf_t pf)).
Proof.
  intros gmn fdn pf H. destruct (entry_sound _ _ _ H) as (m & Em & F).
  exists (mk_msg gmn (md_invalid m)). split.
  - unfold mesg_all_invalid. rewrite Em, (ef_ctor _ _ _ _ F). reflexivity.
  - exact (ef_invalid _ _ _ _ F).
Qed.
Print Assumptions C02_absent_fields_invalid.

(* PARTIAL: decode_denote (wf_stream s -> Decode (serialize s) = route (denote s)) by induction over streams is
   not yet a theorem; the harness evaluates the extracted [denote] on every generated stream and compares it
   with what the real Decode returned, field by field. *)
