(* C02 -- Decoded field values equal the values carried on the wire.
   Reference semantics: Spec/FitSyntax.v (denote), written from the protocol rules independently of the decoder
   model. *)
From Coq Require Import NArith ZArith List Bool.
From FitV Require Import Model.Values Model.Bytes Model.Base Model.Profile Model.Reflect Model.IO Model.Header Model.Route
  Model.Components Model.Decode Spec.FitSyntax Spec.RouteSpec Spec.ProfileWf
  Proofs.ProfileProofs Proofs.DecodeLemmas
  Proofs.StreamDenoteDefs Proofs.StreamDenoteField Proofs.StreamDenoteData Proofs.StreamDenoteLoop Proofs.StreamDenoteLift
  Proofs.StreamDenoteMain Proofs.StreamDenoteFrame Proofs.StreamDenoteDecode Proofs.StreamDenoteCor Proofs.StreamDenoteSkip
  Proofs.StreamDenoteSlots Proofs.StreamDenoteWitness Proofs.StreamDenoteStrip Proofs.StreamDenoteChained.
Import ListNotations.
Local Open Scope N_scope.

(* every field that was not present holds its type's invalid value: a data record starts from the
   all-invalid message, which the constructor fills with the invalid value of each entry's type (C15) *)
Theorem C02_absent_fields_invalid : forall gmn fdn pf, get_field gmn fdn = Some pf ->
  exists m, mesg_all_invalid gmn = Some m /\ nth_error (m_fields m) (pf_sindex pf) = Some (invalid_of_fit (pf_t pf)).
Proof.
  intros gmn fdn pf H. destruct (entry_sound _ _ _ H) as (m & Em & F).
  exists (mk_msg gmn (md_invalid m)). split.
  - unfold mesg_all_invalid. rewrite Em, (ef_ctor _ _ _ _ F). reflexivity.
  - exact (ef_invalid _ _ _ _ F).
Qed.
Print Assumptions C02_absent_fields_invalid.

(* ---------------------------------------------------------------------------------------------------------
   decode_denote.  Vocabulary (Proofs/StreamDenoteDefs.v, all computable):
     stream_wf rs      every record is serialisable: all components bytes, global number < 65536, compressed offset
                       < 32, reserved bits 5-6 of every base-type byte zero (canon_bt);
     denote rs         the reference semantics (Spec/FitSyntax.v); it checks [compat] for every definition;
     Inv               decoder state ~ reference state (slots = environment, time reference with d.hasTimestamp <->
                       a reference exists, counters, File = File.add of the denoted messages in order).
   There is no time side condition: the two C12 time defects are repaired in the library (fixed: ac9b0b0, 2f21531)
   and the stream theorems hold for ALL serialisable streams the reference semantics accepts.
   --------------------------------------------------------------------------------------------------------- *)

(* one field: for every profile entry, every compatible definition (all integer base types, narrower definitions
   with zero/sign extension, both byte orders, strings, arrays of any length, string arrays) and any wire bytes the
   decoder's storing functions yield exactly the value the reference semantics assigns *)
Theorem C02_native_field_agree : forall be gmn f p ref buf,
  get_field gmn (sf_num f) = Some p -> compat gmn f = true -> canon_bt f = true ->
  fit_kind (pf_t p) = kind_native ->
  List.length buf = N.to_nat (sf_size f) -> all_bytes buf = true ->
  (if negb (fit_array (pf_t p)) then parse_fit_field be (to_fdef f) buf (gotype_of_fit (pf_t p))
   else parse_fit_field_array be (to_fdef f) buf (gotype_of_fit (pf_t p))) =
  res_of (denote_field be f p (gotype_of_fit (pf_t p)) ref buf).
Proof. exact native_field_agree. Qed.
Print Assumptions C02_native_field_agree.

(* the record loop, by induction over the record list (any length, any interleaving of the 16 local types,
   redefinitions, compressed headers, unknown messages, developer fields): success, exactly the bytes consumed,
   no Fail / I/O error / panic, invariant re-established with the state [denote_from] returns *)
Theorem C02_decode_denote_records : forall rs o pre fb gb ft s0 ss0 ss1 tl t n lim fuel,
  Inv o pre fb gb ft s0 ss0 ->
  stream_wf rs = true -> denote_from ss0 rs = Some ss1 ->
  (n + List.length (ser_records rs) = lim)%nat -> (List.length rs < fuel)%nat ->
  exists s1,
    run_a (decode_file_data o fuel) (Proofs.StreamDenoteBase.ast_at (ser_records rs) tl t n lim) s0 =
      ROk tt (Proofs.StreamDenoteBase.ast_at [] tl t lim lim) s1 /\
    Inv o pre fb gb ft s1 ss1.
Proof. exact decode_denote_records. Qed.
Print Assumptions C02_decode_denote_records.

(* the whole buffered phase of decode (file_id prologue, File.init, record loop) on the abstract interpreter *)
Theorem C02_decode_denote_abstract : forall o h g rs ss1 f2 g1 tl t,
  starts_with_file_id rs = true -> stream_wf rs = true -> denote rs = Some ss1 ->
  start_file h g (hd dummy_msg (ss_msgs ss1)) = Some (f2, g1) ->
  let L := List.length (ser_records rs) in
  exists s1 f g',
    run_a (data_prog o false (S L)) (mk_ast (ser_records rs ++ tl) t 0 L) (init_dstate (new_file h) g) =
      ROk tt (mk_ast tl t L L) s1 /\
    route_msgs h g (ss_msgs ss1) = Some (f, g') /\ ds_file s1 = f /\ ds_g s1 = g' /\
    (o_unkm o = true -> ds_unkm s1 = ss_unkm ss1) /\ (o_unkf o = true -> ds_unkf s1 = ss_unkf ss1) /\
    (exists ft, Inv o [hd dummy_msg (ss_msgs ss1)] f2 g1 ft s1 ss1).
Proof. exact decode_denote_abstract. Qed.

(* decode_denote: the entry point Decode on a complete file (header ++ records ++ CRC, then anything), through ANY
   reader oracle (chunk schedule with empty reads, data-with-EOF, EOF or fault after the data): no error, the File
   holds exactly the messages of [denote] routed in stream order, header and CRC as on the wire, exactly the file's
   bytes consumed.  It holds for every serialisable stream the reference semantics accepts; the remaining side
   conditions: header_wf, stream_wf (incl. canon_bt), the stream starts with the file_id definition and message,
   and its file type is one the library has a container for (start_file = Some). *)
Theorem C02_decode_denote : forall o g rd fuel h rs ss1 f2 g1 extra,
  header_wf h -> h_dsize h = N.of_nat (List.length (ser_records rs)) ->
  starts_with_file_id rs = true -> stream_wf rs = true -> denote rs = Some ss1 ->
  start_file h g (hd dummy_msg (ss_msgs ss1)) = Some (f2, g1) ->
  rd_data rd = fit_file h rs ++ extra ->
  (List.length (rd_data rd) + List.length (rd_sched rd) < fuel)%nat ->
  exists rd' file' f g' q,
    entry_Decode o g rd fuel = TDone (mk_dres None h (Some file') rd' g' q) /\
    route_msgs h g (ss_msgs ss1) = Some (f, g') /\
    f_slots file' = f_slots f /\ f_inited file' = f_inited f /\ f_header file' = h /\
    f_crc file' = file_crc h (ser_records rs) /\
    (o_unkm o = true -> f_unkm file' = Some (sorted_unkm ss1)) /\
    (o_unkf o = true -> f_unkf file' = Some (sorted_unkf ss1)) /\
    rd_pos rd' = (rd_pos rd + List.length (fit_file h rs))%nat /\ rd_data rd' = extra.
Proof. exact Decode_denote. Qed.
Print Assumptions C02_decode_denote.

(* the hypotheses are satisfiable: a concrete file (explicit timestamp, compressed header, redefinition of a local
   type, local_date_time) read in chunks of 3, 0, 1, 7, ... bytes *)
Example C02_decode_denote_example :
  header_wf ok_hdr /\ h_dsize ok_hdr = N.of_nat (List.length (ser_records ok_stream)) /\
  starts_with_file_id ok_stream = true /\ stream_wf ok_stream = true /\
  (exists ss f2 g1, denote ok_stream = Some ss /\ start_file ok_hdr g_init (hd dummy_msg (ss_msgs ss)) = Some (f2, g1)) /\
  rd_data ok_reader = fit_file ok_hdr ok_stream ++ [1; 2; 3] /\
  (List.length (rd_data ok_reader) + List.length (rd_sched ok_reader) < 200)%nat /\
  match entry_Decode no_opts g_init ok_reader 200 with
  | TDone r => dr_err r = None /\ rd_pos (dr_rd r) = 67%nat
  | _ => False
  end.
Proof. exact Decode_denote_example. Qed.

(* FULL STATEMENT (refuted): decode_denote without [canon_bt].  (The former time side condition is gone: both C12
   time defects are repaired, fixed: ac9b0b0, 2f21531; their witnesses are ordinary members of the domain now,
   Props/C12.v.)  The reserved-bits condition is needed because
   the validator admits a base-type byte with bits 5-6 set (types.Base.Known looks at bits 0-4 and 7 only) while
   parseFitField switches on the whole byte: the reference semantics accepts the stream, the decoder fails *)
Theorem C02_decode_denote_reserved_bits_refuted :
  all_bytes (ser_records w_reserved) = true /\ stream_wf w_reserved = false /\
  (exists a, spec_slots w_reserved = Some a) /\
  match model_run w_reserved with RFail EParseField _ _ => True | _ => False end.
Proof. exact decode_denote_reserved_bits_refuted. Qed.

(* unknown_skipped.  (1) deleting a data record of a message the profile does not know changes no decoded message *)
Theorem C02_unknown_record_skipped : forall o h g rs1 l pay dev rs2 sm d,
  denote_from ss_init rs1 = Some sm -> lookup_def (ss_env sm) l = Some d -> known_msg (sd_gmn d) = false ->
  in_domain h g (rs1 ++ RData l pay dev :: rs2) -> in_domain h g (rs1 ++ rs2) ->
  decoded_file o h g (rs1 ++ RData l pay dev :: rs2) = decoded_file o h g (rs1 ++ rs2).
Proof. exact unknown_record_skipped_decoder. Qed.
Print Assumptions C02_unknown_record_skipped.
(* ... where decoded_file is the File of the decoder model and, inside the domain, a function of the denoted messages *)
Theorem C02_decoded_is_routed : forall o h g rs ss, in_domain h g rs -> denote rs = Some ss ->
  decoded_file o h g rs = route_msgs h g (ss_msgs ss) /\ decoded_file o h g rs <> None.
Proof. exact decoded_is_routed. Qed.
(* (2) deleting an unlisted field from a definition, with its bytes from the payload, changes neither the message nor
   the time reference; (3) developer bytes are never looked at.  Both are statements about [denote], which is what
   Decode returns by C02_decode_denote. *)
Theorem C02_unlisted_field_skipped : forall be gmn f1 f f2 p1 b p2 m ref unl,
  get_field gmn (sf_num f) = None -> List.length p1 = psize f1 -> List.length b = N.to_nat (sf_size f) ->
  let r := denote_fields be gmn (f1 ++ f :: f2) (p1 ++ b ++ p2) m ref unl in
  let r' := denote_fields be gmn (f1 ++ f2) (p1 ++ p2) m ref unl in
  fst (fst r) = fst (fst r') /\ snd (fst r) = snd (fst r').
Proof. exact unlisted_field_skipped. Qed.
Theorem C02_dev_bytes_ignored : forall s l off pay dev dev',
  List.length dev = List.length dev' -> denote_data s l off pay dev = denote_data s l off pay dev'.
Proof. exact dev_bytes_ignored. Qed.

(* neighbours_undisturbed: changing the bytes of one field (other than the timestamp field 253, which legitimately
   re-bases the reference later local_date_time fields are read against) changes no other struct field of the
   message, nor the time reference, nor the unknown-field list *)
Theorem C02_neighbours_undisturbed : forall be gmn f1 f f2 p1 b b' p2 m ref unl,
  List.length p1 = psize f1 -> List.length b = N.to_nat (sf_size f) -> List.length b' = N.to_nat (sf_size f) ->
  negb (sf_num f =? Gen.Consts.c_fieldNumTimeStamp) = true ->
  let r := denote_fields be gmn (f1 ++ f :: f2) (p1 ++ b ++ p2) m ref unl in
  let r' := denote_fields be gmn (f1 ++ f :: f2) (p1 ++ b' ++ p2) m ref unl in
  snd (fst r) = snd (fst r') /\ snd r = snd r' /\ m_num (fst (fst r)) = m_num (fst (fst r')) /\
  forall j, (match get_field gmn (sf_num f) with Some p => j <> pf_sindex p | None => True end) ->
    nth_error (m_fields (fst (fst r))) j = nth_error (m_fields (fst (fst r'))) j.
Proof. exact neighbours_undisturbed. Qed.
Print Assumptions C02_neighbours_undisturbed.

(* unknown_skipped as ONE stream rewriting.  [strip [] rs] deletes from rs everything the profile does not know:
   unlisted fields from every definition and their bytes from every payload, all developer field definitions and
   developer bytes, every plain data record of an unknown message, the field lists of definitions of unknown
   messages; a compressed-timestamp record of an unknown message is kept as a bare header, because its header
   still advances the time reference (two rollover steps are not one).  [strip_clean] says nothing unknown is left.
   The stripped stream denotes the same messages and time reference, stays inside the domain of decode_denote, and
   the decoder returns the same File. *)
Theorem C02_unknown_skipped : forall rs ss, denote rs = Some ss ->
  exists ss', denote (strip [] rs) = Some ss' /\ ss_msgs ss' = ss_msgs ss /\ ss_ref ss' = ss_ref ss.
Proof. exact unknown_skipped. Qed.
Theorem C02_strip_clean : forall rs, clean (strip [] rs) = true.
Proof. exact strip_clean. Qed.
Theorem C02_strip_in_domain : forall h g rs, in_domain h g rs -> in_domain h g (strip [] rs).
Proof. exact strip_in_domain. Qed.
Theorem C02_unknown_skipped_decoder : forall o h g rs, in_domain h g rs ->
  decoded_file o h g (strip [] rs) = decoded_file o h g rs.
Proof. exact unknown_skipped_decoder. Qed.
Print Assumptions C02_unknown_skipped_decoder.
(* when no compressed-timestamp record addresses an unknown message, the definitions of unknown messages go too *)
Theorem C02_unknown_skipped_all_decoder : forall o h g rs, no_unknown_comp [] rs = true -> in_domain h g rs ->
  decoded_file o h g (strip_all [] rs) = decoded_file o h g rs.
Proof. exact unknown_skipped_all_decoder. Qed.

(* DecodeChained on a concatenation of k >= 1 files, each in the domain of decode_denote from the accumulator state
   the previous one left (chain_domain), followed by a clean EOF, through any reader: no error, exactly k Files,
   each the routed denotation of its record list (chain_result), all bytes consumed *)
Theorem C02_DecodeChained_denote : forall o fs g rd fuel,
  fs <> [] -> chain_domain g fs -> rd_data rd = chain_bytes fs -> rd_term rd = TEOF ->
  (List.length (rd_data rd) + List.length (rd_sched rd) < fuel)%nat ->
  exists rd' files' g' q,
    entry_DecodeChained o g rd fuel = TDone (mk_cres None files' rd' g' q) /\
    rd_data rd' = [] /\ rd_pos rd' = (rd_pos rd + List.length (chain_bytes fs))%nat /\
    List.length files' = List.length fs /\ chain_result o g fs files' g'.
Proof. exact DecodeChained_denote. Qed.
Print Assumptions C02_DecodeChained_denote.
(* ... and each of them is the File (and accumulator state, and the always empty tag list) Decode returns on that file alone from
   the same accumulator state (C10 flavour; rests on the tail-irrelevance of the abstract interpreter) *)
Theorem C02_DecodeChained_is_map_Decode : forall o fs g rd fuel,
  fs <> [] -> chain_domain g fs -> rd_data rd = chain_bytes fs -> rd_term rd = TEOF ->
  (List.length (rd_data rd) + List.length (rd_sched rd) < fuel)%nat ->
  exists rd' files' g' q,
    entry_DecodeChained o g rd fuel = TDone (mk_cres None files' rd' g' q) /\
    chain_alone o g fs files' g' q.
Proof. exact DecodeChained_is_map_Decode. Qed.
Example C02_DecodeChained_example :
  chain_domain g_init ok_chain /\ rd_data ok_chain_reader = chain_bytes ok_chain /\ rd_term ok_chain_reader = TEOF /\
  (List.length (rd_data ok_chain_reader) + List.length (rd_sched ok_chain_reader) < 400)%nat.
Proof. exact ok_chain_in_domain. Qed.

(* PARTIAL (what is not a theorem): streams with reserved bits 5-6 set in a base-type byte are outside the theorem
   (refuted above); DecodeChained is lifted for chains ending in a clean EOF (a chain followed by garbage or a fault
   is C10/C11). *)
