(* C14 -- The checksum is CRC-16/ARC and does not depend on how data is fed. *)
From Coq Require Import NArith List.
From FitV Require Import Model.Crc Spec.CrcSpec Proofs.CrcProofs.
Import ListNotations.
Local Open Scope N_scope.

(* every one of the 65536 x 256 (state, byte) transitions *)
Theorem C14_update_is_arc : forall c d, c < 65536 -> d < 256 -> update_byte c d = arc_step c d.
Proof. exact update_is_arc. Qed.
Print Assumptions C14_update_is_arc.

(* for every byte sequence the package checksum is the reflected CRC-16, poly 0xA001, init 0 *)
Theorem C14_checksum_is_arc : forall data, is_bytes data -> checksum data = arc data.
Proof. exact checksum_is_arc. Qed.
Print Assumptions C14_checksum_is_arc.

(* any split of the data into successive writes gives the same sum as a single write *)
Theorem C14_write_partition : forall h chunks,
  crc_sum16 (fold_left crc_write chunks h) = crc_sum16 (crc_write h (concat chunks)).
Proof. exact write_partition. Qed.
Print Assumptions C14_write_partition.

Theorem C14_checksum_is_write : forall data, checksum data = crc_sum16 (crc_write crc_new data).
Proof. exact checksum_is_write. Qed.

(* Reset returns to the initial state *)
Theorem C14_reset : forall h, crc_reset h = crc_new.
Proof. exact reset_is_new. Qed.

(* appending the sum little-endian makes the checksum of the whole zero *)
Theorem C14_residue_zero : forall data, is_bytes data ->
  checksum (data ++ [lo8 (checksum data); hi8 (checksum data)]) = 0.
Proof. exact residue_zero. Qed.
Print Assumptions C14_residue_zero.

(* non-vacuity: the standard check value of CRC-16/ARC, "123456789" -> 0xBB3D *)
Example C14_check_value : checksum [49; 50; 51; 52; 53; 54; 55; 56; 57] = 0xBB3D /\ is_bytes [49; 50; 51; 52; 53; 54; 55; 56; 57].
Proof. split; [vm_compute; reflexivity|repeat constructor]. Qed.
