(* C04 -- Corruption is detected: CRC verdicts are sound and agree across entry points.

   "A file that Encode produced or that Decode accepts passes CheckIntegrity; after corrupting any run of at
   most 16 contiguous bits outside the header's size and data-size fields, Decode and CheckIntegrity both
   return an error.  A header whose stored non-zero CRC does not match its contents is rejected by every API
   that checks headers (CheckIntegrity, DecodeHeader, Decode and Header.CheckIntegrity alike) and a matching
   one is accepted by all of them."

   Objects.  [decode o md g rd fuel] (Model/Decode.v) is reader.go:decode over a reader oracle [rd] (data,
   chunk schedule with empty reads, EOF or fault, data-with-EOF; Model/IO.v): md = MFull is Decode, MCrcOnly is
   CheckIntegrity(r, false), MHeaderOnly is DecodeHeader and CheckIntegrity(r, true), MFileIdOnly is
   DecodeHeaderAndFileID.  [header_check_integrity] (Model/Header.v) is Header.CheckIntegrity.  [arc] is the
   bitwise CRC-16/ARC (Spec/CrcSpec.v); [checksum] the table-driven code of dyncrc16 (equal on bytes: C14).
   [header_stage_with arc], [crc_verdict_with arc], [frame_len], [parse_header] (Spec/Integrity.v) are functions of
   the byte string alone.  [measure rd < fuel] only says the loops have enough fuel (C01/C10).

   Bit numbering of bursts (Spec/Burst.v).  Stream bit k is bit (k mod 8), counted from the least significant
   bit, of byte (k div 8): the order in which the reflected CRC consumes bits.  [burst n off p] is the n-byte
   error string whose stream bits off .. off+15 are the bits of p (theorem C04_burst_numbering);
   [burst16 n off p] says 0 < p < 2^16 and the pattern lies inside the n bytes; [xorl bs e] applies it;
   [outside_size_fields e] says bytes 0 and 4..7 are untouched.  In the most-significant-bit-first numbering
   the statement is false for CRC-16/ARC itself (C04_burst16_msbfirst_refuted), not because of this library. *)
From Coq Require Import NArith List Bool Arith.
From FitV Require Import Model.Values Model.Bytes Model.Crc Model.IO Model.Header Model.Route Model.Decode Model.Encode Model.Components
  Gen.Consts Spec.CrcSpec Spec.Burst Spec.Integrity Spec.Grammar
  Proofs.C04Crc Proofs.C04IO Proofs.C04Verdict Proofs.C04Corrupt Proofs.C04Header Proofs.C04Main Proofs.C04Agree Proofs.C04Examples Proofs.EncodeProofs Proofs.C04Encode Proofs.EncExamples.
Import ListNotations.
Local Open Scope N_scope.

(* ------------------------------------------------------------------ (a) CRC algebra, strings of any length *)

(* the checksum is XOR-linear in the message (equal lengths) *)
Theorem C04_crc_linear : forall a b, length a = length b ->
  checksum (xorl a b) = N.lxor (checksum a) (checksum b).
Proof. exact crc_linear. Qed.
Print Assumptions C04_crc_linear.

Theorem C04_arc_linear : forall a b, is_bytes a -> is_bytes b -> length a = length b ->
  arc (xorl a b) = N.lxor (arc a) (arc b).
Proof. exact arc_linear. Qed.

(* feeding a zero byte is injective on the 2^16 register states *)
Theorem C04_zero_step_injective : forall c1 c2, c1 < 65536 -> c2 < 65536 ->
  update_byte c1 0 = update_byte c2 0 -> c1 = c2.
Proof. exact zero_step_injective. Qed.
Print Assumptions C04_zero_step_injective.

(* the numbering: stream bit j of [err_bytes n v] is bit j of v *)
Theorem C04_burst_numbering : forall n v j, (j < 8 * n)%nat ->
  N.testbit (nth (Nat.div j 8) (err_bytes n v) 0) (N.of_nat (Nat.modulo j 8)) = N.testbit v (N.of_nat j).
Proof. exact err_bytes_bit. Qed.

(* every non-zero error confined to 16 contiguous stream bits, at any offset in a string of any length,
   has a non-zero checksum (8 alignments x 65535 patterns by vm_compute; lifted by linearity and zero steps) *)
Theorem C04_burst16_nonzero : forall n off p, burst16 n off p -> checksum (burst n off p) <> 0.
Proof. exact burst16_nonzero. Qed.
Print Assumptions C04_burst16_nonzero.

Theorem C04_burst_detected : forall frame off p, is_bytes frame ->
  arc frame = 0 -> burst16 (length frame) off p ->
  arc (xorl frame (burst (length frame) off p)) <> 0.
Proof. exact arc_burst_detected. Qed.
Print Assumptions C04_burst_detected.

(* byte-aligned corollary (identical in both bit numberings): an error confined to two adjacent whole bytes *)
Theorem C04_two_byte_error_detected : forall frame k x y,
  checksum frame = 0 -> (k + 2 <= length frame)%nat -> x < 256 -> y < 256 -> (x <> 0 \/ y <> 0) ->
  checksum (xorl frame (repeat 0 k ++ [x; y])) <> 0.
Proof. exact two_byte_error_detected. Qed.

(* most significant bit first: the 11-bit run 01 C1 C0 is a multiple of the generator *)
Theorem C04_burst16_msbfirst_refuted : exists n sh p,
  0 < p < 65536 /\ N.shiftl p sh < 2 ^ (8 * N.of_nat n) /\
  burst_msb n sh p = [0x01; 0xC1; 0xC0] /\ checksum (burst_msb n sh p) = 0 /\ arc (burst_msb n sh p) = 0.
Proof. exact burst16_msbfirst_refuted. Qed.

(* ------------------------------------------------------------------ (b) verdict soundness *)

(* CheckIntegrity(r, false) on ANY input, terminal condition and chunk schedule returns exactly the verdict the
   bytes determine; on success it consumed exactly one frame *)
Theorem C04_check_integrity_spec : forall o g fuel rd, is_bytes (rd_data rd) -> (measure rd < fuel)%nat ->
  exists r, decode o MCrcOnly g rd fuel = TDone r /\
    dr_err r = crc_verdict_with arc (rd_data rd) (rd_term rd) /\
    (dr_err r = None -> rd_pos (dr_rd r) = (rd_pos rd + frame_len (rd_data rd))%nat).
Proof. exact check_integrity_arc. Qed.
Print Assumptions C04_check_integrity_spec.

(* if Decode or CheckIntegrity returns no error, the bytes consumed are header ++ data ++ crc16 as the header
   states them, their CRC-16/ARC residue is 0, and so is that of a 14-byte header storing a non-zero checksum *)
Theorem C04_accept_residue : forall o g fuel rd r md, (md = MFull \/ md = MCrcOnly) ->
  is_bytes (rd_data rd) -> (measure rd < fuel)%nat ->
  decode o md g rd fuel = TDone r -> dr_err r = None ->
  frame_sound (rd_data rd) /\ rd_pos (dr_rd r) = (rd_pos rd + frame_len (rd_data rd))%nat.
Proof. exact accept_residue. Qed.
Print Assumptions C04_accept_residue.

(* ... and conversely for CheckIntegrity *)
Theorem C04_sound_frame_accepted : forall bs tm, bs <> [] ->
  (hdr_size bs = 12 \/ hdr_size bs = 14)%nat -> proto_ok (b_at bs 1) = true -> firstn 4 (skipn 8 bs) = fit_dtype ->
  (frame_len bs <= length bs)%nat -> arc (firstn (frame_len bs) bs) = 0 ->
  (hdr_size bs = 14%nat -> stored_hdr_crc bs <> 0 -> arc (firstn 14 bs) = 0) ->
  crc_verdict_with arc bs tm = None.
Proof. exact sound_frame_accepted. Qed.

(* what Decode accepts, CheckIntegrity accepts: same bytes, any two schedules, same number of bytes consumed *)
Theorem C04_decode_ok_integrity_ok : forall o g fuel rd r, (measure rd < fuel)%nat ->
  decode o MFull g rd fuel = TDone r -> dr_err r = None ->
  forall o2 g2 fuel2 rd2, rd_data rd2 = rd_data rd -> (measure rd2 < fuel2)%nat ->
  exists r2, decode o2 MCrcOnly g2 rd2 fuel2 = TDone r2 /\ dr_err r2 = None /\
             (rd_pos (dr_rd r2) - rd_pos rd2 = rd_pos (dr_rd r) - rd_pos rd)%nat.
Proof. exact decode_ok_integrity_ok. Qed.
Print Assumptions C04_decode_ok_integrity_ok.

(* what Encode emits passes: any byte string framed as Spec/Grammar.v demands (header_ok, trailer_ok: proved
   of the encoder model's output by encode_framing, Proofs/EncodeProofs.v) with a supported protocol version *)
Theorem C04_encode_integrity_ok : forall bs, is_bytes bs ->
  header_ok bs = true -> trailer_ok bs = true -> proto_ok (nth 1 bs 0) = true ->
  forall o g fuel rd, rd_data rd = bs -> (measure rd < fuel)%nat ->
  exists r, decode o MCrcOnly g rd fuel = TDone r /\ dr_err r = None /\
            rd_pos (dr_rd r) = (rd_pos rd + length bs)%nat.
Proof. exact encode_integrity_ok. Qed.
Print Assumptions C04_encode_integrity_ok.

(* ... and for Encode itself (the encoder model of Model/Encode.v): what it writes for a File whose header is as
   NewHeader makes it (wf_header: size 12 or 14, one-byte protocol version, ".FIT") with a protocol major version the
   decoder supports is accepted by CheckIntegrity, for every reader; through encode_framing (C05, Proofs/EncodeProofs.v).
   Encode does not validate a hand-made header: outside these hypotheses its output is rejected (docs/notes-C04.md) *)
Theorem C04_encode_output_accepted : forall f be bs f',
  wf_header (f_header f) = true -> proto_ok (h_proto (f_header f)) = true ->
  encode f be = EOk (bs, f') -> N.of_nat (List.length bs) < 4294967296 ->
  forall o g fuel rd, rd_data rd = bs -> (measure rd < fuel)%nat ->
  exists r, decode o MCrcOnly g rd fuel = TDone r /\ dr_err r = None /\
            rd_pos (dr_rd r) = (rd_pos rd + List.length bs)%nat.
Proof. exact encode_output_accepted. Qed.
Print Assumptions C04_encode_output_accepted.

(* CRC verdicts agree: an IntegrityError returned by Decode (header checksum or file checksum) is the error
   CheckIntegrity returns on the same bytes, under any two chunk schedules; record parsing never produces one *)
Theorem C04_integrity_verdicts_agree : forall o g fuel rd r e, (measure rd < fuel)%nat ->
  decode o MFull g rd fuel = TDone r -> dr_err r = Some e -> is_integrity e = true ->
  forall o2 g2 fuel2 rd2, rd_data rd2 = rd_data rd -> (measure rd2 < fuel2)%nat ->
  exists r2, decode o2 MCrcOnly g2 rd2 fuel2 = TDone r2 /\ dr_err r2 = Some e.
Proof. exact integrity_verdicts_agree. Qed.
Print Assumptions C04_integrity_verdicts_agree.

(* ------------------------------------------------------------------ (c) corruption => both reject *)

Theorem C04_corruption_detected : forall bs tm off p, is_bytes bs ->
  crc_verdict_with arc bs tm = None ->
  burst16 (frame_len bs) off p ->
  outside_size_fields (burst (frame_len bs) off p) = true ->
  forall rd, rd_data rd = xorl bs (burst (frame_len bs) off p) ->
  forall o g fuel, (measure rd < fuel)%nat ->
    (exists r, decode o MCrcOnly g rd fuel = TDone r /\ dr_err r <> None) /\
    (forall r, decode o MFull g rd fuel = TDone r -> dr_err r <> None).
Proof. exact corruption_detected_arc. Qed.
Print Assumptions C04_corruption_detected.

(* the same with the hypothesis "Decode (or CheckIntegrity) accepted the file" *)
Theorem C04_accepted_then_corrupted : forall o0 g0 fuel0 rd0 r0 md, (md = MFull \/ md = MCrcOnly) ->
  (measure rd0 < fuel0)%nat -> decode o0 md g0 rd0 fuel0 = TDone r0 -> dr_err r0 = None ->
  forall off p, burst16 (frame_len (rd_data rd0)) off p ->
  outside_size_fields (burst (frame_len (rd_data rd0)) off p) = true ->
  forall rd, rd_data rd = xorl (rd_data rd0) (burst (frame_len (rd_data rd0)) off p) ->
  forall o g fuel, (measure rd < fuel)%nat ->
    (exists r, decode o MCrcOnly g rd fuel = TDone r /\ dr_err r <> None) /\
    (forall r, decode o MFull g rd fuel = TDone r -> dr_err r <> None).
Proof. exact accepted_then_corrupted. Qed.
Print Assumptions C04_accepted_then_corrupted.

(* ------------------------------------------------------------------ (d) header checksum: all APIs agree *)

(* the header stage of every entry point computes header_stage; its error is returned by all four modes *)
Theorem C04_header_verdict_all_apis : forall o g fuel rd, (measure rd < fuel)%nat ->
  (forall e, header_stage_with checksum (rd_data rd) (rd_term rd) = Some e ->
     forall md, exists r, decode o md g rd fuel = TDone r /\ dr_err r = Some e) /\
  (header_stage_with checksum (rd_data rd) (rd_term rd) = None ->
     (exists r, decode o MHeaderOnly g rd fuel = TDone r /\ dr_err r = None /\ dr_hdr r = parse_header (rd_data rd)) /\
     (exists r, decode o MCrcOnly g rd fuel = TDone r /\ dr_err r <> Some EHdrCRC /\ dr_err r <> Some EProto /\ dr_err r <> Some ENotFit) /\
     (exists h crc rd', decode_header fuel rd = Done (None, h, crc, rd'))).
Proof. exact header_verdict_all_apis. Qed.
Print Assumptions C04_header_verdict_all_apis.

(* for all header field values and all corruptions of them: Header.CheckIntegrity on the Header the decoder
   reports returns the verdict of the header stage, error class (IntegrityError or not) included *)
Theorem C04_header_apis_agree : forall bs tm, is_bytes (firstn 14 bs) ->
  (b_at bs 0 = 12 \/ b_at bs 0 = 14) -> (N.to_nat (b_at bs 0) <= length bs)%nat ->
  header_check_integrity (parse_header bs) = hci_of_stage (header_stage_with checksum bs tm).
Proof. exact header_apis_agree. Qed.
Print Assumptions C04_header_apis_agree.

(* a stored non-zero checksum that does not match is rejected by all; a matching one with legal fields is
   accepted by all *)
Theorem C04_header_crc_agree : forall bs, is_bytes (firstn 14 bs) -> b_at bs 0 = 14 -> (14 <= length bs)%nat ->
  stored_hdr_crc bs <> 0 ->
  (arc (firstn 12 bs) <> stored_hdr_crc bs ->
     (forall tm, exists e, header_stage_with arc bs tm = Some e /\ (e = EProto \/ e = ENotFit \/ e = EHdrCRC)) /\
     header_check_integrity (parse_header bs) <> None) /\
  (arc (firstn 12 bs) = stored_hdr_crc bs -> proto_ok (b_at bs 1) = true -> firstn 4 (skipn 8 bs) = fit_dtype ->
     (forall tm, header_stage_with arc bs tm = None) /\ header_check_integrity (parse_header bs) = None).
Proof. exact header_crc_agree. Qed.
Print Assumptions C04_header_crc_agree.

Theorem C04_header_nocrc_accept : forall bs tm, is_bytes (firstn 14 bs) ->
  (b_at bs 0 = 12 \/ (b_at bs 0 = 14 /\ stored_hdr_crc bs = 0)) -> (N.to_nat (b_at bs 0) <= length bs)%nat ->
  proto_ok (b_at bs 1) = true -> firstn 4 (skipn 8 bs) = fit_dtype ->
  header_stage_with arc bs tm = None /\ header_check_integrity (parse_header bs) = None.
Proof. exact header_nocrc_accept. Qed.

(* every size byte: Header.CheckIntegrity rejects (non-integrity error, checked first) every Header value whose Size is
   neither 12 nor 14, and every decoding entry point returns the illegal-header-size error on any input starting with
   such a byte; there is no decoded Header for those inputs, the Header value is whatever a caller builds *)
Theorem C04_bad_size_rejected_all_apis : forall sz t o g fuel rd, rd_data rd = sz :: t -> (measure rd < fuel)%nat ->
  sz <> 12 -> sz <> 14 ->
  (forall md, exists r, decode o md g rd fuel = TDone r /\ dr_err r = Some EHeaderSize /\ is_integrity EHeaderSize = false) /\
  (forall h, h_size h = sz -> header_check_integrity h = Some false).
Proof. exact bad_size_rejected_all_apis. Qed.
Print Assumptions C04_bad_size_rejected_all_apis.

(* the agreement equation for every size byte 0..255: the header bytes are demanded only when the size is 12 or 14 *)
Theorem C04_header_apis_agree_all_sizes : forall bs tm, bs <> [] -> is_bytes (firstn 14 bs) ->
  (b_at bs 0 = 12 \/ b_at bs 0 = 14 -> (N.to_nat (b_at bs 0) <= length bs)%nat) ->
  header_check_integrity (parse_header bs) = hci_of_stage (header_stage_with checksum bs tm).
Proof. exact header_apis_agree_all_sizes. Qed.
Print Assumptions C04_header_apis_agree_all_sizes.

(* ------------------------------------------------------------------ non-vacuity *)
(* witnesses (Proofs/C04Examples.v): ex12 is a 25-byte activity file (12-byte header, file_id definition and
   record, checksum A1 EC), ex14 the same records behind a 14-byte header with stored checksum; both are accepted by
   Decode and CheckIntegrity under the schedule 3,0,1,100, satisfy the grammar's framing and have verdict None *)
Example C04_ex_accepted :
  (forall bs, In bs [ex12; ex14] ->
     is_bytes bs /\ crc_verdict_with arc bs TEOF = None /\ header_ok bs = true /\ trailer_ok bs = true /\
     proto_ok (nth 1 bs 0) = true /\ (measure (ex_rd bs) < 40)%nat /\
     (exists r, decode no_opts MFull g_init (ex_rd bs) 40 = TDone r /\ dr_err r = None) /\
     (exists r, decode no_opts MCrcOnly g_init (ex_rd bs) 40 = TDone r /\ dr_err r = None)).
Proof. exact ex_accepted. Qed.

(* a burst satisfying the hypotheses of (c): 13 bits from stream bit 100; one inside the magic is caught by the header stage *)
Example C04_ex_burst :
  burst16 (frame_len ex12) 100 0x1A2B /\ outside_size_fields (burst (frame_len ex12) 100 0x1A2B) = true /\
  crc_verdict_with arc (xorl ex12 (burst (frame_len ex12) 100 0x1A2B)) TEOF = Some EFileCRC /\
  (* a burst inside the header's magic is caught by the header stage instead *)
  burst16 (frame_len ex12) 64 1 /\ outside_size_fields (burst (frame_len ex12) 64 1) = true /\
  crc_verdict_with arc (xorl ex12 (burst (frame_len ex12) 64 1)) TEOF = Some ENotFit.
Proof. exact ex_burst. Qed.

(* hypotheses of (d): ex14 stores a matching non-zero checksum; flipping one bit of it makes it mismatch *)
Example C04_ex_header :
  is_bytes (firstn 14 ex14) /\ b_at ex14 0 = 14 /\ (14 <= length ex14)%nat /\ stored_hdr_crc ex14 <> 0 /\
  arc (firstn 12 ex14) = stored_hdr_crc ex14 /\ proto_ok (b_at ex14 1) = true /\ firstn 4 (skipn 8 ex14) = fit_dtype /\
  (let bad := xorl ex14 (burst 14 96 1) in
   is_bytes (firstn 14 bad) /\ b_at bad 0 = 14 /\ stored_hdr_crc bad <> 0 /\ arc (firstn 12 bad) <> stored_hdr_crc bad /\
   header_stage_with arc bad TEOF = Some EHdrCRC /\ header_check_integrity (parse_header bad) = Some true).
Proof. exact ex_header. Qed.

(* hypotheses of C04_integrity_verdicts_agree: ex12 with its last checksum byte changed parses to the end and Decode
   returns the file-checksum IntegrityError *)
Example C04_ex_integrity_error :
  exists r, decode no_opts MFull g_init (ex_rd (xorl ex12 (burst 25 192 1))) 40 = TDone r /\ dr_err r = Some EFileCRC /\
            is_integrity EFileCRC = true /\ (measure (ex_rd (xorl ex12 (burst 25 192 1))) < 40)%nat.
Proof. exact ex_integrity_error. Qed.

(* hypotheses of C04_encode_output_accepted: the example File of the encoder proofs *)
Example C04_ex_encode :
  wf_header (f_header ex_file) = true /\ proto_ok (h_proto (f_header ex_file)) = true /\
  exists bs f', encode ex_file true = EOk (bs, f') /\ N.of_nat (List.length bs) < 4294967296.
Proof. exact ex_encode_hyps. Qed.

(* hypotheses of C04_bad_size_rejected_all_apis: a Header with Size 13 and a non-zero CRC (the value that made the
   method panic before fix 3d4f0a9), and an input starting with byte 13 *)
Example C04_ex_bad_size :
  header_check_integrity (mk_header 13 32 2134 0 fit_dtype 1) = Some false /\
  header_stage_with arc [13; 32; 0; 0; 0; 0; 0; 0; 46; 70; 73; 84; 0; 0] TEOF = Some EHeaderSize.
Proof. exact (conj eq_refl eq_refl). Qed.
