(* C03 -- Messages are routed, in order, to the typed container of the file's type.
   The routing table is the one observed on the current source by probing the
   real File.add and container add methods with every known message type for every file
   type (Gen/RoutingData.v); "held by" is read off the container struct types. *)
From Coq Require Import NArith ZArith List Bool String.
From FitV Require Import Model.Values Model.Components Model.Route Spec.RouteSpec Proofs.RouteProofs
  Gen.RoutingData.
Import ListNotations.
Local Open Scope N_scope.

Theorem C03_routing_wf : routing_wf = true.
Proof. exact routing_wf_true. Qed.
Print Assumptions C03_routing_wf.

(* for every valid file type and EVERY sequence of messages: each slot holds exactly the messages of the type
   it holds, in stream order (single-valued slots: the last one), expanded as C18 prescribes *)
Theorem C03_route_spec : forall ft, In ft valid_file_types -> forall ms f0 g0 f g,
  f_inited f0 = Some ft -> List.length (f_slots f0) = List.length (slots_of ft) ->
  adds f0 g0 ms = AddOk f g ->
  exists sm, stored_seq ft g0 ms = Some sm /\
    forall i name multi held, nth_error (slots_of ft) i = Some (name, multi, held) ->
      nth i (f_slots f) [] = slot_contents multi held (nth i (f_slots f0) []) sm.
Proof. exact route_spec. Qed.
Print Assumptions C03_route_spec.

(* message types the file type does not hold are dropped without effect on the others, wherever they occur *)
Theorem C03_dropped_no_effect : forall ft, In ft valid_file_types -> forall ms1 ms2 f g m,
  f_inited f = Some ft -> find_slot ft (m_num m) = None ->
  (forall f' g', adds f g ms1 = AddOk f' g' -> f_inited f' = Some ft) ->
  adds f g (ms1 ++ m :: ms2) = adds f g (ms1 ++ ms2).
Proof. exact dropped_anywhere. Qed.
Print Assumptions C03_dropped_no_effect.

(* adding never panics on an initialised file *)
Theorem C03_add_no_panic : forall ft, In ft valid_file_types -> forall f g m,
  f_inited f = Some ft -> exists f' g', file_add f g m = AddOk f' g' /\ f_inited f' = Some ft /\
                                       List.length (f_slots f') = List.length (f_slots f).
Proof. exact add_no_panic. Qed.

(* all 256 file-type values: init succeeds exactly for the 17 valid types (invalid 0xFF, unknown values and the
   manufacturer range are rejected) *)
Theorem C03_init_exact : forall f, file_type f < 256 ->
  (exists f', file_init f = Some f') <-> In (file_type f) valid_file_types.
Proof. exact init_exact. Qed.
Print Assumptions C03_init_exact.

(* exactly the accessor matching the file type returns the container *)
Theorem C03_accessor_exact : forall f accessor ret ft cname slots,
  In (accessor, ret) accessors -> NoDup (map fst accessors) ->
  file_type f = ft -> ft_entry ft = Some (true, cname, slots) ->
  accessor_ok f accessor = String.eqb cname ret.
Proof. exact accessor_exact. Qed.
Theorem C03_accessors_observed : accessors_ok = true.
Proof. exact accessors_ok_true. Qed.

(* non-vacuity: an activity file (type 4) holds record messages (20) in a multi-valued slot *)
Example C03_example : In 4 valid_file_types /\ exists i, find_slot 4 20 = Some (i, true).
Proof. split; [vm_compute; tauto|eexists; vm_compute; reflexivity]. Qed.
