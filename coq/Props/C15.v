(* C15 -- Profile tables, message structs and all-invalid constructors agree everywhere.
   Every statement is about the tables regenerated from the compiled library
   (Gen/ProfileData.v, Gen/RoutingData.v, Gen/BaseTables.v) on this run. *)
From Coq Require Import NArith ZArith List Bool String.
From FitV Require Import Model.Values Model.Base Model.Profile Spec.ProfileWf Proofs.ProfileProofs
  Gen.ProfileData Gen.RoutingData Gen.Consts Gen.SharedState Proofs.C15Tables.
Import ListNotations.
Local Open Scope N_scope.

(* the checker holds of the current tables (exhaustive: every message, every entry, every container member) *)
Theorem C15_profile_wf : profile_wf = true.
Proof. exact profile_wf_true. Qed.
Print Assumptions C15_profile_wf.

(* for every message number and field number with a lookup entry: the message is known and has a constructor,
   the entry designates an existing struct field whose Go type is the one denoted by the entry's base type,
   array flag and kind, the constructor initialises it to that type's invalid value, time/coordinate kinds are
   scalars over uint32/sint32, field 253 is the UTC timestamp *)
Theorem C15_entry_sound : forall gmn fdn pf, get_field gmn fdn = Some pf ->
  exists m, find_msg gmn = Some m /\ entry_facts gmn fdn pf m.
Proof. exact entry_sound. Qed.
Print Assumptions C15_entry_sound.

(* ... a distinct struct field *)
Theorem C15_distinct_struct_fields : forall gmn f1 f2 p1 p2,
  get_field gmn f1 = Some p1 -> get_field gmn f2 = Some p2 -> pf_sindex p1 = pf_sindex p2 -> f1 = f2.
Proof. exact distinct_struct_fields. Qed.
Print Assumptions C15_distinct_struct_fields.

(* every message number the library claims to know has a type, a constructor and an all-invalid value *)
Theorem C15_known_has_constructor : forall gmn, known_msg gmn = true ->
  exists m, find_msg gmn = Some m /\ md_has_ctor m = true /\ md_has_type m = true /\
            mesg_all_invalid gmn = Some (mk_msg gmn (md_invalid m)) /\
            List.length (md_layout m) = List.length (md_invalid m).
Proof. exact known_has_constructor. Qed.
Print Assumptions C15_known_has_constructor.

(* every message type held by a file container is known *)
Theorem C15_container_members_known : forall ft ok cname slots name multi mn,
  In (ft, ok, cname, slots) file_types -> ok = true -> In (name, multi, mn) slots -> known_msg mn = true.
Proof. exact container_members_known. Qed.
Print Assumptions C15_container_members_known.

(* what parseFitField cannot store does not occur: no float or 64-bit profile fields *)
Theorem C15_no_float_fields : forall gmn fdn pf, get_field gmn fdn = Some pf ->
  b_float (fit_base (pf_t pf)) = Some false /\ exists s, b_size (fit_base (pf_t pf)) = Some s /\ 1 <= s <= 4.
Proof. exact no_float_fields. Qed.

(* "everywhere" includes "at every time": the lookup tables and the base-type tables the statements above were
   evaluated on are read and never written by any code reachable from the decoding and encoding entry points
   (Gen/SharedState.v, regenerated from the source on every check), so what holds of them at the start of the
   process holds whenever a decoder or encoder consults them *)
Theorem C15_tables_never_written : forall v, In v profile_tables ->
  In v read_only_globals /\ ~ In v written_globals /\ ~ In v sync_globals_used.
Proof. exact profile_tables_read_only. Qed.
Print Assumptions C15_tables_never_written.
Example C15_tables_example : In "fit._fields"%string profile_tables /\ In "fit._fields"%string read_only_globals.
Proof. split; vm_compute; tauto. Qed.

(* non-vacuity: record.heart_rate (message 20, field 3) is a uint8 scalar *)
Example C15_example : exists pf, get_field 20 3 = Some pf /\ gotype_of_fit (pf_t pf) = TU 8.
Proof. eexists. split; [vm_compute; reflexivity|vm_compute; reflexivity]. Qed.
